//! CAM16 forward model and CAM16-UCS, typed from Li et al., "Comprehensive color solutions:
//! CAM16, CAT16, and CAM16-UCS" (Color Res. Appl. 2017), in its original form (with the 0.1 /
//! 0.305 offsets). XYZ scaled so that the white has Y = 1 (multiplied by 100 internally).

use super::space::{mat_vec, M3, V3};

pub const M16: M3 = [[0.401288, 0.650173, -0.051461], [-0.250268, 1.204414, 0.045854], [-0.002079, 0.048952, 0.953127]];

#[derive(Clone, Copy, Debug)]
pub struct Vc {
    pub white: V3,
    pub la: f64,
    /// relative background luminance Y_b / 100 ... given relative to 1.0 (0.2 = 20 %)
    pub yb: f64,
    /// surround in percent, 0 (dark) .. 10 (dim) .. 20 (average)
    pub surround: f64,
    /// None = default D function
    pub discount: Option<f64>,
}

#[derive(Clone, Copy, Debug)]
pub struct Cam {
    pub j: f64,
    pub c: f64,
    pub h: f64,
    pub q: f64,
    pub m: f64,
    pub s: f64,
}

fn lerp(a: f64, b: f64, t: f64) -> f64 {
    a + (b - a) * t
}

pub fn surround_params(percent: f64) -> (f64, f64, f64) {
    // Table of Li et al. / CIECAM02: average (F, c, Nc) = (1.0, 0.69, 1.0), dim = (0.9, 0.59, 0.9),
    // dark = (0.8, 0.525, 0.8), linearly interpolated in between.
    let p = percent.max(0.0).min(20.0) / 10.0;
    let c = if p >= 1.0 { lerp(0.59, 0.69, p - 1.0) } else { lerp(0.525, 0.59, p) };
    let f = if c >= 0.59 { lerp(0.9, 1.0, (c - 0.59) / 0.1) } else { lerp(0.8, 0.9, (c - 0.525) / 0.065) };
    (f, c, f)
}

fn post_adapt(fl: f64, x: f64) -> f64 {
    let p = (fl * x.abs() / 100.0).powf(0.42);
    400.0 * x.signum() * p / (p + 27.13) + 0.1
}

pub fn forward(xyz: V3, vc: &Vc) -> Cam {
    forward_diag(xyz, vc).0
}

/// forward model plus the two quantities whose sign decides whether the model is defined at all:
/// the achromatic response A and the denominator of t
pub fn forward_diag(xyz: V3, vc: &Vc) -> (Cam, f64, f64) {
    let xyz = [xyz[0] * 100.0, xyz[1] * 100.0, xyz[2] * 100.0];
    let w = [vc.white[0] * 100.0, vc.white[1] * 100.0, vc.white[2] * 100.0];
    let (f, c, nc) = surround_params(vc.surround);
    let rgb_w = mat_vec(&M16, w);
    let d = match vc.discount {
        Some(d) => d,
        None => f * (1.0 - (1.0 / 3.6) * ((-vc.la - 42.0) / 92.0).exp()),
    }
    .max(0.0)
    .min(1.0);
    let yw = w[1];
    let dr: V3 = [d * yw / rgb_w[0] + 1.0 - d, d * yw / rgb_w[1] + 1.0 - d, d * yw / rgb_w[2] + 1.0 - d];
    let k = 1.0 / (5.0 * vc.la + 1.0);
    let k4 = k.powi(4);
    let fl = 0.2 * k4 * (5.0 * vc.la) + 0.1 * (1.0 - k4).powi(2) * (5.0 * vc.la).cbrt();
    let n = vc.yb * 100.0 / yw;
    let z = 1.48 + n.sqrt();
    let nbb = 0.725 * n.powf(-0.2);
    let ncb = nbb;
    let rgb_aw: V3 = [post_adapt(fl, dr[0] * rgb_w[0]), post_adapt(fl, dr[1] * rgb_w[1]), post_adapt(fl, dr[2] * rgb_w[2])];
    let aw = (2.0 * rgb_aw[0] + rgb_aw[1] + rgb_aw[2] / 20.0 - 0.305) * nbb;
    let rgb = mat_vec(&M16, xyz);
    let ra: V3 = [post_adapt(fl, dr[0] * rgb[0]), post_adapt(fl, dr[1] * rgb[1]), post_adapt(fl, dr[2] * rgb[2])];
    let a = ra[0] - 12.0 * ra[1] / 11.0 + ra[2] / 11.0;
    let b = (ra[0] + ra[1] - 2.0 * ra[2]) / 9.0;
    let mut h = b.atan2(a).to_degrees();
    if h < 0.0 {
        h += 360.0;
    }
    let et = 0.25 * ((h.to_radians() + 2.0).cos() + 3.8);
    let big_a = (2.0 * ra[0] + ra[1] + ra[2] / 20.0 - 0.305) * nbb;
    let j = 100.0 * (big_a / aw).powf(c * z);
    let q = (4.0 / c) * (j / 100.0).sqrt() * (aw + 4.0) * fl.powf(0.25);
    let t = (50000.0 / 13.0 * nc * ncb * et * (a * a + b * b).sqrt()) / (ra[0] + ra[1] + 21.0 * ra[2] / 20.0);
    let cc = t.powf(0.9) * (j / 100.0).sqrt() * (1.64 - 0.29f64.powf(n)).powf(0.73);
    let m = cc * fl.powf(0.25);
    let s = 100.0 * (m / q).sqrt();
    (Cam { j, c: cc, h, q, m, s }, big_a, ra[0] + ra[1] + 21.0 * ra[2] / 20.0)
}

/// CAM16-UCS: (J', a', b') and (J', M', h)
pub fn ucs(cam: &Cam) -> (V3, V3) {
    let jp = 1.7 * cam.j / (1.0 + 0.007 * cam.j);
    let mp = (1.0 + 0.0228 * cam.m).ln() / 0.0228;
    let h = cam.h.to_radians();
    ([jp, mp * h.cos(), mp * h.sin()], [jp, mp, cam.h])
}

#[cfg(test)]
mod test {
    use super::*;
    #[test]
    fn worked_example() {
        // Worked example used by the colour-science / colorio test-suites for CAM16 (Li et al. 2017 viewing conditions):
        // XYZ = (19.01, 20.00, 21.78), XYZ_w = (95.05, 100.00, 108.88), L_A = 318.31, Y_b = 20, average surround:
        // J = 41.7312, C = 0.1033, h = 217.0680, Q = 195.3717, M = 0.1074, s = 2.3450
        let vc = Vc { white: [0.9505, 1.0, 1.0888], la: 318.31, yb: 0.2, surround: 20.0, discount: None };
        let c = forward([0.1901, 0.2000, 0.2178], &vc);
        assert!((c.j - 41.7312).abs() < 2e-3, "{:?}", c);
        assert!((c.c - 0.1033).abs() < 2e-3, "{:?}", c);
        assert!((c.h - 217.0680).abs() < 2e-2, "{:?}", c);
        assert!((c.q - 195.3717).abs() < 1e-2, "{:?}", c);
        assert!((c.m - 0.1074).abs() < 2e-3, "{:?}", c);
        assert!((c.s - 2.3450).abs() < 2e-2, "{:?}", c);
        // the adopted white has J = 100
        let w = forward(vc.white, &vc);
        assert!((w.j - 100.0).abs() < 1e-9);
    }
}
