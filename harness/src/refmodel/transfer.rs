//! Transfer functions of the RGB standards, typed from the standards (f64).

#[derive(Clone, Copy, Debug, PartialEq, Eq, Hash)]
pub enum Tf {
    Srgb,
    RecOetf,
    Adobe,
    P3Gamma,
    ProPhoto,
    Linear,
    Gamma22,
}

pub const REC_ALPHA: f64 = 1.09929682680944;
pub const REC_BETA: f64 = 0.018053968510807;

impl Tf {
    pub fn name(self) -> &'static str {
        match self {
            Tf::Srgb => "Srgb",
            Tf::RecOetf => "RecOetf",
            Tf::Adobe => "AdobeRgb",
            Tf::P3Gamma => "P3Gamma",
            Tf::ProPhoto => "ProPhotoRgb",
            Tf::Linear => "LinearFn",
            Tf::Gamma22 => "GammaFn<F2p2>",
        }
    }
    /// linear -> encoded (OETF), defined for x >= 0
    pub fn encode(self, x: f64) -> f64 {
        match self {
            // IEC 61966-2-1
            Tf::Srgb => {
                if x <= 0.0031308 {
                    12.92 * x
                } else {
                    1.055 * x.powf(1.0 / 2.4) - 0.055
                }
            }
            // ITU-R BT.709 / BT.2020 (full precision alpha, beta of BT.2020)
            Tf::RecOetf => {
                if x < REC_BETA {
                    4.5 * x
                } else {
                    REC_ALPHA * x.powf(0.45) - (REC_ALPHA - 1.0)
                }
            }
            // Adobe RGB (1998) 4.3.4.2: gamma 2.19921875 = 563/256
            Tf::Adobe => x.powf(256.0 / 563.0),
            // SMPTE RP 431-2: gamma 2.6
            Tf::P3Gamma => x.powf(1.0 / 2.6),
            // ROMM RGB (ISO 22028-2): Et = 1/512
            Tf::ProPhoto => {
                if x < 1.0 / 512.0 {
                    16.0 * x
                } else {
                    x.powf(1.0 / 1.8)
                }
            }
            Tf::Linear => x,
            // palette documents GammaFn<N> as encoded = V^N (N = 2.2), i.e. the *encoding* gamma
            Tf::Gamma22 => x.powf(2.2),
        }
    }
    /// encoded -> linear
    pub fn decode(self, e: f64) -> f64 {
        match self {
            Tf::Srgb => {
                if e <= 0.04045 {
                    e / 12.92
                } else {
                    ((e + 0.055) / 1.055).powf(2.4)
                }
            }
            Tf::RecOetf => {
                if e < 4.5 * REC_BETA {
                    e / 4.5
                } else {
                    ((e + (REC_ALPHA - 1.0)) / REC_ALPHA).powf(1.0 / 0.45)
                }
            }
            Tf::Adobe => e.powf(563.0 / 256.0),
            Tf::P3Gamma => e.powf(2.6),
            Tf::ProPhoto => {
                if e < 16.0 / 512.0 {
                    e / 16.0
                } else {
                    e.powf(1.8)
                }
            }
            Tf::Linear => e,
            Tf::Gamma22 => e.powf(1.0 / 2.2),
        }
    }
    /// (linear knee, encoded knee) of piecewise curves
    pub fn knee(self) -> Option<(f64, f64)> {
        match self {
            Tf::Srgb => Some((0.0031308, 0.04045)),
            Tf::RecOetf => Some((REC_BETA, 4.5 * REC_BETA)),
            Tf::ProPhoto => Some((1.0 / 512.0, 1.0 / 32.0)),
            _ => None,
        }
    }
    pub fn decode_signed(self, e: f64) -> f64 {
        if e < 0.0 {
            -self.decode(-e)
        } else {
            self.decode(e)
        }
    }
    /// sign-mirrored extension used by colour pipelines for out-of-gamut values
    pub fn encode_signed(self, x: f64) -> f64 {
        if x < 0.0 {
            -self.encode(-x)
        } else {
            self.encode(x)
        }
    }
}

#[cfg(test)]
mod test {
    use super::*;
    #[test]
    fn published_values() {
        // sRGB: 0.5 encoded <-> 0.21404114 linear (IEC table), 1 <-> 1
        assert!((Tf::Srgb.decode(0.5) - 0.214041140482232).abs() < 1e-12);
        assert!((Tf::Srgb.encode(0.214041140482232) - 0.5).abs() < 1e-12);
        assert!((Tf::Srgb.encode(1.0) - 1.0).abs() < 1e-12);
        // Rec.709: L = 0.018 -> V = 0.081
        assert!((Tf::RecOetf.encode(0.018) - 0.081).abs() < 1e-3);
        assert!((Tf::RecOetf.encode(1.0) - 1.0).abs() < 1e-12);
        // Adobe: 0.5^(2.19921875)
        assert!((Tf::Adobe.decode(0.5) - 0.217755528).abs() < 1e-8);
        for tf in [Tf::Srgb, Tf::RecOetf, Tf::Adobe, Tf::P3Gamma, Tf::ProPhoto, Tf::Linear] {
            for i in 0..=1000 {
                let x = i as f64 / 1000.0;
                assert!((tf.decode(tf.encode(x)) - x).abs() < 1e-6, "{:?} {}", tf, x);
            }
        }
    }
}
