//! Colour spaces of the reference model: everything is defined through XYZ relative to the
//! space's own white point (palette never adapts implicitly, so conversions only connect spaces
//! of equal white point). Written from the published definitions; no palette code or constants.

use super::transfer::Tf;
use std::f64::consts::PI;

pub type V3 = [f64; 3];
pub type M3 = [[f64; 3]; 3];

#[derive(Clone, Copy, Debug, PartialEq, Eq, Hash)]
pub enum Wp {
    A,
    B,
    C,
    D50,
    D55,
    D65,
    D75,
    E,
    F2,
    F7,
    F11,
    D50d10,
    D55d10,
    D65d10,
    D75d10,
    Dci,
}

impl Wp {
    /// ASTM E308-01 tristimulus values (Y = 1), as tabulated by Lindbloom; DCI white from its
    /// chromaticity (0.314, 0.351).
    pub fn xyz(self) -> V3 {
        match self {
            Wp::A => [1.09850, 1.0, 0.35585],
            Wp::B => [0.99072, 1.0, 0.85223],
            Wp::C => [0.98074, 1.0, 1.18232],
            Wp::D50 => [0.96422, 1.0, 0.82521],
            Wp::D55 => [0.95682, 1.0, 0.92149],
            Wp::D65 => [0.95047, 1.0, 1.08883],
            Wp::D75 => [0.94972, 1.0, 1.22638],
            Wp::E => [1.0, 1.0, 1.0],
            Wp::F2 => [0.99186, 1.0, 0.67393],
            Wp::F7 => [0.95041, 1.0, 1.08747],
            Wp::F11 => [1.00962, 1.0, 0.64350],
            Wp::D50d10 => [0.9672, 1.0, 0.8143],
            Wp::D55d10 => [0.958, 1.0, 0.9093],
            Wp::D65d10 => [0.9481, 1.0, 1.073],
            Wp::D75d10 => [0.94416, 1.0, 1.2064],
            Wp::Dci => [0.314 / 0.351, 1.0, (1.0 - 0.314 - 0.351) / 0.351],
        }
    }
    pub fn name(self) -> &'static str {
        match self {
            Wp::A => "A",
            Wp::B => "B",
            Wp::C => "C",
            Wp::D50 => "D50",
            Wp::D55 => "D55",
            Wp::D65 => "D65",
            Wp::D75 => "D75",
            Wp::E => "E",
            Wp::F2 => "F2",
            Wp::F7 => "F7",
            Wp::F11 => "F11",
            Wp::D50d10 => "D50Degree10",
            Wp::D55d10 => "D55Degree10",
            Wp::D65d10 => "D65Degree10",
            Wp::D75d10 => "D75Degree10",
            Wp::Dci => "DciP3White",
        }
    }
}

/// primaries + white point of an RGB space
#[derive(Clone, Copy, Debug, PartialEq, Eq, Hash)]
pub enum Prim {
    Srgb,     // = Rec.709
    Adobe,    // Adobe RGB (1998)
    Rec2020,  // BT.2020
    P3,       // DCI-P3 primaries
    P3Plus,   // DCI-P3+
    ProPhoto, // ROMM
}

impl Prim {
    pub fn xy(self) -> [[f64; 2]; 3] {
        match self {
            Prim::Srgb => [[0.64, 0.33], [0.30, 0.60], [0.15, 0.06]],
            Prim::Adobe => [[0.64, 0.33], [0.21, 0.71], [0.15, 0.06]],
            Prim::Rec2020 => [[0.708, 0.292], [0.170, 0.797], [0.131, 0.046]],
            Prim::P3 => [[0.680, 0.320], [0.265, 0.690], [0.150, 0.060]],
            Prim::P3Plus => [[0.740, 0.270], [0.220, 0.780], [0.090, -0.090]],
            Prim::ProPhoto => [[0.7347, 0.2653], [0.1596, 0.8404], [0.0366, 0.0001]],
        }
    }
}

#[derive(Clone, Copy, Debug, PartialEq, Eq, Hash)]
pub struct RgbSpaceM {
    pub prim: Prim,
    pub wp: Wp,
}

#[derive(Clone, Copy, Debug, PartialEq, Eq, Hash)]
pub struct RgbStd {
    pub space: RgbSpaceM,
    pub tf: Tf,
}

pub const SRGB: RgbStd = RgbStd { space: RgbSpaceM { prim: Prim::Srgb, wp: Wp::D65 }, tf: Tf::Srgb };
pub const LIN_SRGB: RgbStd = RgbStd { space: RgbSpaceM { prim: Prim::Srgb, wp: Wp::D65 }, tf: Tf::Linear };
pub const ADOBE: RgbStd = RgbStd { space: RgbSpaceM { prim: Prim::Adobe, wp: Wp::D65 }, tf: Tf::Adobe };
pub const LIN_ADOBE: RgbStd = RgbStd { space: RgbSpaceM { prim: Prim::Adobe, wp: Wp::D65 }, tf: Tf::Linear };
pub const REC709: RgbStd = RgbStd { space: RgbSpaceM { prim: Prim::Srgb, wp: Wp::D65 }, tf: Tf::RecOetf };
pub const REC2020: RgbStd = RgbStd { space: RgbSpaceM { prim: Prim::Rec2020, wp: Wp::D65 }, tf: Tf::RecOetf };
pub const LIN_REC2020: RgbStd = RgbStd { space: RgbSpaceM { prim: Prim::Rec2020, wp: Wp::D65 }, tf: Tf::Linear };
pub const DISPLAY_P3: RgbStd = RgbStd { space: RgbSpaceM { prim: Prim::P3, wp: Wp::D65 }, tf: Tf::Srgb };
pub const LIN_DISPLAY_P3: RgbStd = RgbStd { space: RgbSpaceM { prim: Prim::P3, wp: Wp::D65 }, tf: Tf::Linear };
pub const DCI_P3: RgbStd = RgbStd { space: RgbSpaceM { prim: Prim::P3, wp: Wp::Dci }, tf: Tf::P3Gamma };
pub const LIN_DCI_P3: RgbStd = RgbStd { space: RgbSpaceM { prim: Prim::P3, wp: Wp::Dci }, tf: Tf::Linear };
pub const DCI_P3_PLUS: RgbStd = RgbStd { space: RgbSpaceM { prim: Prim::P3Plus, wp: Wp::Dci }, tf: Tf::P3Gamma };
pub const PROPHOTO: RgbStd = RgbStd { space: RgbSpaceM { prim: Prim::ProPhoto, wp: Wp::D50 }, tf: Tf::ProPhoto };
pub const LIN_PROPHOTO: RgbStd = RgbStd { space: RgbSpaceM { prim: Prim::ProPhoto, wp: Wp::D50 }, tf: Tf::Linear };

pub fn mat_vec(m: &M3, v: V3) -> V3 {
    [m[0][0] * v[0] + m[0][1] * v[1] + m[0][2] * v[2], m[1][0] * v[0] + m[1][1] * v[1] + m[1][2] * v[2], m[2][0] * v[0] + m[2][1] * v[1] + m[2][2] * v[2]]
}
pub fn mat_mul(a: &M3, b: &M3) -> M3 {
    let mut r = [[0.0; 3]; 3];
    for i in 0..3 {
        for j in 0..3 {
            r[i][j] = (0..3).map(|k| a[i][k] * b[k][j]).sum();
        }
    }
    r
}
pub fn mat_inv(m: &M3) -> M3 {
    let det = m[0][0] * (m[1][1] * m[2][2] - m[1][2] * m[2][1]) - m[0][1] * (m[1][0] * m[2][2] - m[1][2] * m[2][0]) + m[0][2] * (m[1][0] * m[2][1] - m[1][1] * m[2][0]);
    let d = 1.0 / det;
    [
        [(m[1][1] * m[2][2] - m[1][2] * m[2][1]) * d, (m[0][2] * m[2][1] - m[0][1] * m[2][2]) * d, (m[0][1] * m[1][2] - m[0][2] * m[1][1]) * d],
        [(m[1][2] * m[2][0] - m[1][0] * m[2][2]) * d, (m[0][0] * m[2][2] - m[0][2] * m[2][0]) * d, (m[0][2] * m[1][0] - m[0][0] * m[1][2]) * d],
        [(m[1][0] * m[2][1] - m[1][1] * m[2][0]) * d, (m[0][1] * m[2][0] - m[0][0] * m[2][1]) * d, (m[0][0] * m[1][1] - m[0][1] * m[1][0]) * d],
    ]
}

impl RgbSpaceM {
    /// Lindbloom's construction of the RGB -> XYZ matrix from primaries and white point.
    pub fn rgb_to_xyz(self) -> M3 {
        let p = self.prim.xy();
        let col = |xy: [f64; 2]| -> V3 { [xy[0] / xy[1], 1.0, (1.0 - xy[0] - xy[1]) / xy[1]] };
        let (r, g, b) = (col(p[0]), col(p[1]), col(p[2]));
        let m = [[r[0], g[0], b[0]], [r[1], g[1], b[1]], [r[2], g[2], b[2]]];
        let s = mat_vec(&mat_inv(&m), self.wp.xyz());
        [[s[0] * r[0], s[1] * g[0], s[2] * b[0]], [s[0] * r[1], s[1] * g[1], s[2] * b[1]], [s[0] * r[2], s[1] * g[2], s[2] * b[2]]]
    }
    pub fn xyz_to_rgb(self) -> M3 {
        mat_inv(&self.rgb_to_xyz())
    }
}

#[derive(Clone, Copy, Debug, PartialEq, Eq, Hash)]
pub enum Space {
    Rgb(RgbStd),
    Luma(Wp, Tf),
    Hsl(RgbStd),
    Hsv(RgbStd),
    Hwb(RgbStd),
    Xyz(Wp),
    Yxy(Wp),
    Lab(Wp),
    Lch(Wp),
    Luv(Wp),
    Lchuv(Wp),
    Hsluv(Wp),
    Oklab,
    Oklch,
    Okhsl,
    Okhsv,
    Okhwb,
}

impl Space {
    pub fn wp(self) -> Wp {
        match self {
            Space::Rgb(s) | Space::Hsl(s) | Space::Hsv(s) | Space::Hwb(s) => s.space.wp,
            Space::Luma(w, _) | Space::Xyz(w) | Space::Yxy(w) | Space::Lab(w) | Space::Lch(w) | Space::Luv(w) | Space::Lchuv(w) | Space::Hsluv(w) => w,
            Space::Oklab | Space::Oklch | Space::Okhsl | Space::Okhsv | Space::Okhwb => Wp::D65,
        }
    }
    /// Is `c` inside the nominal range of the space (hard bounds only: non-negative stimuli,
    /// lightness, chroma and saturation-like components; a*, b*, u*, v* and hue are unbounded)?
    pub fn in_nominal_range(self, c: &V3) -> bool {
        let r = self.ranges();
        let nonneg_only = |k: usize| c[k] >= 0.0;
        let within = |k: usize| c[k] >= r[k].0 && c[k] <= r[k].1;
        match self {
            Space::Rgb(_) => within(0) && within(1) && within(2),
            Space::Luma(..) => within(0),
            Space::Hsl(_) | Space::Hsv(_) | Space::Okhsl | Space::Okhsv | Space::Hsluv(_) => within(1) && within(2),
            Space::Hwb(_) | Space::Okhwb => within(1) && within(2) && c[1] + c[2] <= 1.0,
            Space::Xyz(_) => nonneg_only(0) && nonneg_only(1) && nonneg_only(2),
            Space::Yxy(_) => within(0) && within(1) && nonneg_only(2) && c[0] + c[1] <= 1.0,
            Space::Lab(_) | Space::Luv(_) => within(0),
            Space::Lch(_) | Space::Lchuv(_) => within(0) && nonneg_only(1),
            Space::Oklab => within(0),
            Space::Oklch => within(0) && nonneg_only(1),
        }
    }
    /// The bounds the type documents through its min_*/max_* accessors (None = unbounded on that
    /// side; the hue is never clamped). Typed from the documentation.
    pub fn clamp_bounds(self) -> [(Option<f64>, Option<f64>); 3] {
        let b = |lo: f64, hi: f64| (Some(lo), Some(hi));
        let none = (None, None);
        match self {
            Space::Rgb(_) => [b(0.0, 1.0); 3],
            Space::Luma(..) => [b(0.0, 1.0), none, none],
            Space::Hsl(_) | Space::Hsv(_) | Space::Hwb(_) | Space::Okhsl | Space::Okhsv | Space::Okhwb => [none, b(0.0, 1.0), b(0.0, 1.0)],
            Space::Hsluv(_) => [none, b(0.0, 100.0), b(0.0, 100.0)],
            Space::Xyz(w) => {
                let x = w.xyz();
                [b(0.0, x[0]), b(0.0, x[1]), b(0.0, x[2])]
            }
            Space::Yxy(_) => [b(0.0, 1.0), b(0.0, 1.0), b(0.0, 1.0)],
            Space::Lab(_) => [b(0.0, 100.0), b(-128.0, 127.0), b(-128.0, 127.0)],
            Space::Lch(_) => [b(0.0, 100.0), (Some(0.0), None), none],
            Space::Luv(_) => [b(0.0, 100.0), b(-84.0, 176.0), b(-135.0, 108.0)],
            Space::Lchuv(_) => [b(0.0, 100.0), b(0.0, 180.0), none],
            Space::Oklab => [b(0.0, 1.0), none, none],
            Space::Oklch => [b(0.0, 1.0), (Some(0.0), None), none],
        }
    }
    /// index of the hue component, if any
    pub fn hue_index(self) -> Option<usize> {
        match self {
            Space::Hsl(_) | Space::Hsv(_) | Space::Hwb(_) | Space::Hsluv(_) | Space::Okhsl | Space::Okhsv | Space::Okhwb => Some(0),
            Space::Lch(_) | Space::Lchuv(_) | Space::Oklch => Some(2),
            _ => None,
        }
    }
    /// Nominal component ranges (min, max) as documented by palette's min_*/max_* accessors;
    /// hue given as (0, 360). Unbounded components get a typical range used for generation only.
    pub fn ranges(self) -> [(f64, f64); 3] {
        match self {
            Space::Rgb(_) => [(0.0, 1.0); 3],
            Space::Luma(..) => [(0.0, 1.0), (0.0, 0.0), (0.0, 0.0)],
            Space::Hsl(_) | Space::Hsv(_) | Space::Hwb(_) => [(0.0, 360.0), (0.0, 1.0), (0.0, 1.0)],
            Space::Xyz(w) => {
                let x = w.xyz();
                [(0.0, x[0]), (0.0, x[1]), (0.0, x[2])]
            }
            Space::Yxy(_) => [(0.0, 1.0), (0.0, 1.0), (0.0, 1.0)],
            Space::Lab(_) => [(0.0, 100.0), (-128.0, 127.0), (-128.0, 127.0)],
            Space::Lch(_) => [(0.0, 100.0), (0.0, 128.0), (0.0, 360.0)],
            Space::Luv(_) => [(0.0, 100.0), (-84.0, 176.0), (-135.0, 108.0)],
            Space::Lchuv(_) => [(0.0, 100.0), (0.0, 180.0), (0.0, 360.0)],
            Space::Hsluv(_) => [(0.0, 360.0), (0.0, 100.0), (0.0, 100.0)],
            Space::Oklab => [(0.0, 1.0), (-0.4, 0.4), (-0.4, 0.4)],
            Space::Oklch => [(0.0, 1.0), (0.0, 0.4), (0.0, 360.0)],
            Space::Okhsl | Space::Okhsv | Space::Okhwb => [(0.0, 360.0), (0.0, 1.0), (0.0, 1.0)],
        }
    }

    // -----------------------------------------------------------------------------------------
    pub fn to_xyz(self, c: V3) -> V3 {
        if let Some(a) = self.anchor() {
            return mat_vec(&a.rgb_to_xyz(), self.to_lin(c));
        }
        match self {
            Space::Xyz(_) => c,
            Space::Yxy(w) => yxy_to_xyz(c, w),
            Space::Luma(w, tf) => {
                let y = tf.decode_signed(c[0]);
                let x = w.xyz();
                [x[0] * y, x[1] * y, x[2] * y]
            }
            Space::Lab(w) => lab_to_xyz(c, w),
            Space::Lch(w) => lab_to_xyz(polar_to_rect(c), w),
            Space::Luv(w) => luv_to_xyz(c, w),
            Space::Lchuv(w) => luv_to_xyz(polar_to_rect(c), w),
            Space::Hsluv(w) => luv_to_xyz(polar_to_rect(hsluv_to_lchuv(c)), w),
            _ => unreachable!(),
        }
    }

    pub fn from_xyz(self, x: V3) -> V3 {
        if let Some(a) = self.anchor() {
            return self.from_lin(mat_vec(&a.xyz_to_rgb(), x));
        }
        match self {
            Space::Xyz(_) => x,
            Space::Yxy(w) => xyz_to_yxy(x, w),
            Space::Luma(_, tf) => [tf.encode_signed(x[1]), 0.0, 0.0],
            Space::Lab(w) => xyz_to_lab(x, w),
            Space::Lch(w) => rect_to_polar(xyz_to_lab(x, w)),
            Space::Luv(w) => xyz_to_luv(x, w),
            Space::Lchuv(w) => rect_to_polar(xyz_to_luv(x, w)),
            Space::Hsluv(w) => lchuv_to_hsluv(rect_to_polar(xyz_to_luv(x, w))),
            _ => unreachable!(),
        }
    }

    /// The linear RGB space a space is defined on, if any (hexcone and RGB types: their standard's;
    /// the Ok family: linear sRGB).
    pub fn anchor(self) -> Option<RgbSpaceM> {
        match self {
            Space::Rgb(s) | Space::Hsl(s) | Space::Hsv(s) | Space::Hwb(s) => Some(s.space),
            Space::Oklab | Space::Oklch | Space::Okhsl | Space::Okhsv | Space::Okhwb => Some(LIN_SRGB.space),
            _ => None,
        }
    }
    /// components -> linear RGB of the anchor space (anchored spaces only)
    pub fn to_lin(self, c: V3) -> V3 {
        match self {
            Space::Rgb(s) => [s.tf.decode_signed(c[0]), s.tf.decode_signed(c[1]), s.tf.decode_signed(c[2])],
            Space::Hsl(s) => Space::Rgb(s).to_lin(hsl_to_rgb(c)),
            Space::Hsv(s) => Space::Rgb(s).to_lin(hsv_to_rgb(c)),
            Space::Hwb(s) => Space::Rgb(s).to_lin(hsv_to_rgb(hwb_to_hsv(c))),
            Space::Oklab => super::ok::oklab_to_linear_srgb(c),
            Space::Oklch => super::ok::oklab_to_linear_srgb(polar_to_rect(c)),
            Space::Okhsl => super::ok::okhsl_to_linear_srgb(c),
            Space::Okhsv => super::ok::okhsv_to_linear_srgb(c),
            Space::Okhwb => super::ok::okhsv_to_linear_srgb(super::ok::okhwb_to_okhsv(c)),
            _ => panic!("not anchored"),
        }
    }
    pub fn from_lin(self, lin: V3) -> V3 {
        match self {
            Space::Rgb(s) => [s.tf.encode_signed(lin[0]), s.tf.encode_signed(lin[1]), s.tf.encode_signed(lin[2])],
            Space::Hsl(s) => rgb_to_hsl(Space::Rgb(s).from_lin(lin)),
            Space::Hsv(s) => rgb_to_hsv(Space::Rgb(s).from_lin(lin)),
            Space::Hwb(s) => hsv_to_hwb(rgb_to_hsv(Space::Rgb(s).from_lin(lin))),
            Space::Oklab => super::ok::linear_srgb_to_oklab(lin),
            Space::Oklch => rect_to_polar(super::ok::linear_srgb_to_oklab(lin)),
            Space::Okhsl => super::ok::linear_srgb_to_okhsl(lin),
            Space::Okhsv => super::ok::linear_srgb_to_okhsv(lin),
            Space::Okhwb => super::ok::okhsv_to_okhwb(super::ok::linear_srgb_to_okhsv(lin)),
            _ => panic!("not anchored"),
        }
    }
    /// The model conversion src -> dst: through the shared linear RGB when both spaces are defined
    /// on the same one (no matrix round trip), otherwise through XYZ. Returns (result, intermediate).
    pub fn convert_to(self, dst: Space, c: V3) -> (V3, V3) {
        match (self.anchor(), dst.anchor()) {
            (Some(a), Some(b)) if a == b => {
                let lin = self.to_lin(c);
                (dst.from_lin(lin), lin)
            }
            _ => {
                let xyz = self.to_xyz(c);
                (dst.from_xyz(xyz), xyz)
            }
        }
    }
    /// continue the model conversion from a (perturbed) intermediate
    pub fn from_intermediate(self, src: Space, mid: V3) -> V3 {
        match (src.anchor(), self.anchor()) {
            (Some(a), Some(b)) if a == b => self.from_lin(mid),
            _ => self.from_xyz(mid),
        }
    }

    /// well-conditioned comparison vector: colours are compared as colours. Cylindrical
    /// coordinates go to cartesian form with the *chroma-like* radius, so that hue at the grey axis
    /// and saturation at the tips of the cone / bicone are weighted by how much colour they carry.
    pub fn cmp_vec(self, c: V3) -> [f64; 4] {
        match self {
            Space::Hsl(_) | Space::Okhsl => {
                let h = c[0].to_radians();
                let r = c[1] * (1.0 - (2.0 * c[2] - 1.0).abs());
                [r * h.cos(), r * h.sin(), c[2], 0.0]
            }
            Space::Hsv(_) | Space::Okhsv => {
                let h = c[0].to_radians();
                let r = c[1] * c[2];
                [r * h.cos(), r * h.sin(), c[2], 0.0]
            }
            Space::Hwb(_) | Space::Okhwb => {
                let h = c[0].to_radians();
                let r = 1.0 - c[1] - c[2];
                [r * h.cos(), r * h.sin(), c[1], c[2]]
            }
            Space::Hsluv(_) => {
                let h = c[0].to_radians();
                let r = c[1] * c[2].min(100.0 - c[2]).max(0.0) / 50.0;
                [r * h.cos(), r * h.sin(), c[2], 0.0]
            }
            Space::Lch(_) | Space::Lchuv(_) | Space::Oklch => {
                let h = c[2].to_radians();
                [c[0], c[1] * h.cos(), c[1] * h.sin(), 0.0]
            }
            // chromaticity carries no weight without luminance: compare xyY colours as tristimulus values
            Space::Yxy(w) => {
                let x = yxy_to_xyz(c, w);
                [x[0], x[1], x[2], 0.0]
            }
            _ => [c[0], c[1], c[2], 0.0],
        }
    }
    /// nominal width of the comparison space (for scaling tolerances)
    pub fn scale(self) -> f64 {
        match self {
            Space::Lab(_) | Space::Lch(_) | Space::Luv(_) | Space::Lchuv(_) | Space::Hsluv(_) => 100.0,
            _ => 1.0,
        }
    }
}

pub fn lin_srgb_to_xyz(c: V3) -> V3 {
    mat_vec(&LIN_SRGB.space.rgb_to_xyz(), c)
}
pub fn xyz_to_lin_srgb(x: V3) -> V3 {
    mat_vec(&LIN_SRGB.space.xyz_to_rgb(), x)
}

// ---- xyY (CIE 15) ---------------------------------------------------------------------------
// palette stores Yxy as (x, y, luma)
pub fn xyz_to_yxy(x: V3, w: Wp) -> V3 {
    let s = x[0] + x[1] + x[2];
    if s == 0.0 {
        // chromaticity of black is undefined: palette uses the white point's chromaticity
        let wx = w.xyz();
        let ws = wx[0] + wx[1] + wx[2];
        return [wx[0] / ws, wx[1] / ws, 0.0];
    }
    [x[0] / s, x[1] / s, x[1]]
}
pub fn yxy_to_xyz(c: V3, _w: Wp) -> V3 {
    let (x, y, l) = (c[0], c[1], c[2]);
    if y == 0.0 {
        return [0.0, 0.0, 0.0];
    }
    [x * l / y, l, (1.0 - x - y) * l / y]
}

// ---- CIE L*a*b* (CIE 15:2004, with the exact rational constants) ------------------------------
const LAB_EPS: f64 = 216.0 / 24389.0; // (6/29)^3
const LAB_KAPPA: f64 = 24389.0 / 27.0; // (29/3)^3
fn lab_f(t: f64) -> f64 {
    if t > LAB_EPS {
        t.cbrt()
    } else {
        (LAB_KAPPA * t + 16.0) / 116.0
    }
}
fn lab_finv(f: f64) -> f64 {
    let f3 = f * f * f;
    if f3 > LAB_EPS {
        f3
    } else {
        (116.0 * f - 16.0) / LAB_KAPPA
    }
}
pub fn xyz_to_lab(x: V3, w: Wp) -> V3 {
    let n = w.xyz();
    let (fx, fy, fz) = (lab_f(x[0] / n[0]), lab_f(x[1] / n[1]), lab_f(x[2] / n[2]));
    [116.0 * fy - 16.0, 500.0 * (fx - fy), 200.0 * (fy - fz)]
}
pub fn lab_to_xyz(c: V3, w: Wp) -> V3 {
    let n = w.xyz();
    let fy = (c[0] + 16.0) / 116.0;
    let fx = fy + c[1] / 500.0;
    let fz = fy - c[2] / 200.0;
    [n[0] * lab_finv(fx), n[1] * lab_finv(fy), n[2] * lab_finv(fz)]
}

// ---- CIE L*u*v* -----------------------------------------------------------------------------
fn uv_prime(x: V3) -> (f64, f64) {
    let d = x[0] + 15.0 * x[1] + 3.0 * x[2];
    if d == 0.0 {
        (0.0, 0.0)
    } else {
        (4.0 * x[0] / d, 9.0 * x[1] / d)
    }
}
pub fn xyz_to_luv(x: V3, w: Wp) -> V3 {
    let n = w.xyz();
    let yr = x[1] / n[1];
    let l = if yr > LAB_EPS { 116.0 * yr.cbrt() - 16.0 } else { LAB_KAPPA * yr };
    let (up, vp) = uv_prime(x);
    let (un, vn) = uv_prime(n);
    if x[0] + 15.0 * x[1] + 3.0 * x[2] == 0.0 {
        return [l, 0.0, 0.0];
    }
    [l, 13.0 * l * (up - un), 13.0 * l * (vp - vn)]
}
pub fn luv_to_xyz(c: V3, w: Wp) -> V3 {
    let n = w.xyz();
    let (l, u, v) = (c[0], c[1], c[2]);
    if l == 0.0 {
        return [0.0, 0.0, 0.0];
    }
    let (un, vn) = uv_prime(n);
    let up = u / (13.0 * l) + un;
    let vp = v / (13.0 * l) + vn;
    let y = if l > 8.0 { n[1] * ((l + 16.0) / 116.0).powi(3) } else { n[1] * l / LAB_KAPPA };
    let x = y * 9.0 * up / (4.0 * vp);
    let z = y * (12.0 - 3.0 * up - 20.0 * vp) / (4.0 * vp);
    [x, y, z]
}

// ---- polar forms: (l, a, b) <-> (l, chroma, hue degrees in [0,360)) ---------------------------
pub fn rect_to_polar(c: V3) -> V3 {
    let ch = (c[1] * c[1] + c[2] * c[2]).sqrt();
    let mut h = c[2].atan2(c[1]).to_degrees();
    if h < 0.0 {
        h += 360.0;
    }
    if ch == 0.0 {
        h = 0.0;
    }
    [c[0], ch, h]
}
pub fn polar_to_rect(c: V3) -> V3 {
    let h = c[2].to_radians();
    [c[0], c[1] * h.cos(), c[1] * h.sin()]
}

// ---- hexcone models (Smith 1978; CSS Color 4) on encoded RGB; (h, s, l|v) ---------------------
fn hexcone_hue(r: f64, g: f64, b: f64, max: f64, d: f64) -> f64 {
    if d == 0.0 {
        return 0.0;
    }
    let h = if max == r {
        ((g - b) / d) % 6.0
    } else if max == g {
        (b - r) / d + 2.0
    } else {
        (r - g) / d + 4.0
    };
    let h = h * 60.0;
    if h < 0.0 {
        h + 360.0
    } else {
        h
    }
}
pub fn rgb_to_hsv(c: V3) -> V3 {
    let (r, g, b) = (c[0], c[1], c[2]);
    let max = r.max(g).max(b);
    let min = r.min(g).min(b);
    let d = max - min;
    let s = if max == 0.0 { 0.0 } else { d / max };
    [hexcone_hue(r, g, b, max, d), s, max]
}
pub fn hsv_to_rgb(c: V3) -> V3 {
    let h = c[0].rem_euclid(360.0) / 60.0;
    let (s, v) = (c[1], c[2]);
    let ch = v * s;
    let x = ch * (1.0 - (h % 2.0 - 1.0).abs());
    let m = v - ch;
    let (r, g, b) = match h as i32 {
        0 => (ch, x, 0.0),
        1 => (x, ch, 0.0),
        2 => (0.0, ch, x),
        3 => (0.0, x, ch),
        4 => (x, 0.0, ch),
        _ => (ch, 0.0, x),
    };
    [r + m, g + m, b + m]
}
pub fn rgb_to_hsl(c: V3) -> V3 {
    let (r, g, b) = (c[0], c[1], c[2]);
    let max = r.max(g).max(b);
    let min = r.min(g).min(b);
    let d = max - min;
    let l = (max + min) / 2.0;
    let s = if d == 0.0 {
        0.0
    } else {
        d / (1.0 - (2.0 * l - 1.0).abs())
    };
    [hexcone_hue(r, g, b, max, d), s, l]
}
pub fn hsl_to_rgb(c: V3) -> V3 {
    let h = c[0].rem_euclid(360.0) / 60.0;
    let (s, l) = (c[1], c[2]);
    let ch = (1.0 - (2.0 * l - 1.0).abs()) * s;
    let x = ch * (1.0 - (h % 2.0 - 1.0).abs());
    let m = l - ch / 2.0;
    let (r, g, b) = match h as i32 {
        0 => (ch, x, 0.0),
        1 => (x, ch, 0.0),
        2 => (0.0, ch, x),
        3 => (0.0, x, ch),
        4 => (x, 0.0, ch),
        _ => (ch, 0.0, x),
    };
    [r + m, g + m, b + m]
}
/// HWB (Smith & Lyons 1996): w = (1 - s) v, b = 1 - v
pub fn hsv_to_hwb(c: V3) -> V3 {
    [c[0], (1.0 - c[1]) * c[2], 1.0 - c[2]]
}
pub fn hwb_to_hsv(c: V3) -> V3 {
    let v = 1.0 - c[2];
    let s = if v == 0.0 { 0.0 } else { 1.0 - c[1] / v };
    [c[0], s, v]
}

// ---- Oklab (Ottosson 2020) ---------------------------------------------------------------------
// Since the 2021-01-25 update the authoritative numbers are the linear-sRGB <-> LMS matrices
// (ok.rs); XYZ is reached through the sRGB matrix derived from primaries and white point.
pub fn xyz_to_oklab(x: V3) -> V3 {
    super::ok::linear_srgb_to_oklab(xyz_to_lin_srgb(x))
}
pub fn oklab_to_xyz(c: V3) -> V3 {
    lin_srgb_to_xyz(super::ok::oklab_to_linear_srgb(c))
}

// ---- HSLuv (hsluv.org reference implementation, rev 4) ------------------------------------------
const HSLUV_M: M3 = [[3.240969941904521, -1.537383177570093, -0.498610760293], [-0.96924363628087, 1.87596750150772, 0.041555057407175], [0.055630079696993, -0.20397695888897, 1.056971514242878]];
const HSLUV_KAPPA: f64 = 903.2962962;
const HSLUV_EPS: f64 = 0.0088564516;
pub fn hsluv_bounds(l: f64) -> [(f64, f64); 6] {
    let sub1 = (l + 16.0).powi(3) / 1560896.0;
    let sub2 = if sub1 > HSLUV_EPS { sub1 } else { l / HSLUV_KAPPA };
    let mut out = [(0.0, 0.0); 6];
    for c in 0..3 {
        let (m1, m2, m3) = (HSLUV_M[c][0], HSLUV_M[c][1], HSLUV_M[c][2]);
        for t in 0..2 {
            let tf = t as f64;
            let top1 = (284517.0 * m1 - 94839.0 * m3) * sub2;
            let top2 = (838422.0 * m3 + 769860.0 * m2 + 731718.0 * m1) * l * sub2 - 769860.0 * tf * l;
            let bottom = (632260.0 * m3 - 126452.0 * m2) * sub2 + 126452.0 * tf;
            out[c * 2 + t] = (top1 / bottom, top2 / bottom);
        }
    }
    out
}
pub fn hsluv_max_chroma(l: f64, h: f64) -> f64 {
    let hr = h / 360.0 * 2.0 * PI;
    let mut min = f64::MAX;
    for (slope, intercept) in hsluv_bounds(l) {
        let len = intercept / (hr.sin() - slope * hr.cos());
        if len >= 0.0 {
            min = min.min(len);
        }
    }
    min
}
/// (h, s, l) -> (l, c, h)
pub fn hsluv_to_lchuv(c: V3) -> V3 {
    let (h, s, l) = (c[0], c[1], c[2]);
    if l > 99.9999999 {
        return [100.0, 0.0, h];
    }
    if l < 0.00000001 {
        return [0.0, 0.0, h];
    }
    [l, hsluv_max_chroma(l, h) / 100.0 * s, h]
}
pub fn lchuv_to_hsluv(c: V3) -> V3 {
    let (l, ch, h) = (c[0], c[1], c[2]);
    if l > 99.9999999 {
        return [h, 0.0, 100.0];
    }
    if l < 0.00000001 {
        return [h, 0.0, 0.0];
    }
    [h, ch / hsluv_max_chroma(l, h) * 100.0, l]
}

#[cfg(test)]
mod test {
    use super::*;
    fn close(a: V3, b: V3, e: f64) -> bool {
        (0..3).all(|i| (a[i] - b[i]).abs() <= e)
    }
    #[test]
    fn lindbloom_srgb_matrix() {
        let m = SRGB.space.rgb_to_xyz();
        let l = [[0.4124564, 0.3575761, 0.1804375], [0.2126729, 0.7151522, 0.0721750], [0.0193339, 0.1191920, 0.9503041]];
        for i in 0..3 {
            assert!(close(m[i], l[i], 1e-6), "{:?}", m);
        }
        let a = ADOBE.space.rgb_to_xyz();
        assert!(close(a[0], [0.5767309, 0.1855540, 0.1881852], 1e-6));
        let p = PROPHOTO.space.rgb_to_xyz();
        assert!(close(p[0], [0.7976749, 0.1351917, 0.0313534], 1e-6));
        assert!(close(p[2], [0.0, 0.0, 0.8252100], 1e-6));
    }
    #[test]
    fn lab_reference_values() {
        // sRGB red (Lindbloom calculator, D65): Lab 53.2408, 80.0925, 67.2032
        let xyz = Space::Rgb(SRGB).to_xyz([1.0, 0.0, 0.0]);
        assert!(close(xyz_to_lab(xyz, Wp::D65), [53.2408, 80.0925, 67.2032], 2e-3));
        // Luv of sRGB red: 53.2408, 175.0151, 37.7564
        assert!(close(xyz_to_luv(xyz, Wp::D65), [53.2408, 175.0151, 37.7564], 2e-3));
        let w = Wp::D65.xyz();
        assert!(close(xyz_to_lab(w, Wp::D65), [100.0, 0.0, 0.0], 1e-9));
        assert!(close(lab_to_xyz(xyz_to_lab(xyz, Wp::D65), Wp::D65), xyz, 1e-12));
        assert!(close(luv_to_xyz(xyz_to_luv(xyz, Wp::D65), Wp::D65), xyz, 1e-12));
    }
    #[test]
    fn hexcone() {
        assert!(close(rgb_to_hsv([1.0, 0.5, 0.0]), [30.0, 1.0, 1.0], 1e-12));
        assert!(close(rgb_to_hsl([1.0, 0.5, 0.0]), [30.0, 1.0, 0.5], 1e-12));
        assert!(close(rgb_to_hsl([0.75, 0.25, 0.25]), [0.0, 0.5, 0.5], 1e-12));
        for c in [[0.2, 0.7, 0.4], [0.9, 0.1, 0.95], [0.3, 0.3, 0.3], [0.0, 0.0, 1.0]] {
            assert!(close(hsv_to_rgb(rgb_to_hsv(c)), c, 1e-12));
            assert!(close(hsl_to_rgb(rgb_to_hsl(c)), c, 1e-12));
            assert!(close(hsv_to_rgb(hwb_to_hsv(hsv_to_hwb(rgb_to_hsv(c)))), c, 1e-12));
        }
    }
    #[test]
    fn oklab_reference() {
        // Ottosson's table: XYZ (0.950, 1.000, 1.089) -> (1.000, 0.000, 0.000); (1,0,0) -> (0.450, 1.236, -0.019)
        assert!(close(xyz_to_oklab([0.950, 1.0, 1.089]), [1.0, 0.0, 0.0], 1e-3));
        assert!(close(xyz_to_oklab([1.0, 0.0, 0.0]), [0.450, 1.236, -0.019], 1e-3));
        assert!(close(xyz_to_oklab([0.0, 1.0, 0.0]), [0.922, -0.671, 0.263], 1e-3));
        assert!(close(xyz_to_oklab([0.0, 0.0, 1.0]), [0.153, -1.415, -0.449], 1e-3));
        let x = [0.3, 0.4, 0.2];
        assert!(close(oklab_to_xyz(xyz_to_oklab(x)), x, 1e-7));
    }
    #[test]
    fn hsluv_snapshot() {
        // hsluv.org snapshot rev4: #ff0000 -> hsluv (12.177050630061776, 100.0000000000022, 53.23711559542933)
        let xyz = Space::Rgb(SRGB).to_xyz([1.0, 0.0, 0.0]);
        let hs = Space::Hsluv(Wp::D65).from_xyz(xyz);
        // Lindbloom-matrix red differs from hsluv.org's own sRGB matrix in the 4th digit: 100.02 instead of 100.00
        assert!(close(hs, [12.17705, 100.0, 53.2371], 5e-2), "{:?}", hs);
        let back = Space::Hsluv(Wp::D65).to_xyz(hs);
        assert!(close(back, xyz, 1e-9));
    }
}
