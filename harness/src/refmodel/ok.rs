//! Okhsl / Okhsv / Okhwb: line-by-line port of Björn Ottosson's published reference code
//! ("Okhsv and Okhsl", 2021; ok_color.h). Hue in degrees, other components in [0,1].

use super::space::V3;
use std::f64::consts::PI;

pub fn linear_srgb_to_oklab(c: V3) -> V3 {
    let l = 0.4122214708 * c[0] + 0.5363325363 * c[1] + 0.0514459929 * c[2];
    let m = 0.2119034982 * c[0] + 0.6806995451 * c[1] + 0.1073969566 * c[2];
    let s = 0.0883024619 * c[0] + 0.2817188376 * c[1] + 0.6299787005 * c[2];
    let (l_, m_, s_) = (l.cbrt(), m.cbrt(), s.cbrt());
    [
        0.2104542553 * l_ + 0.7936177850 * m_ - 0.0040720468 * s_,
        1.9779984951 * l_ - 2.4285922050 * m_ + 0.4505937099 * s_,
        0.0259040371 * l_ + 0.7827717662 * m_ - 0.8086757660 * s_,
    ]
}

pub fn oklab_to_linear_srgb(c: V3) -> V3 {
    let l_ = c[0] + 0.3963377774 * c[1] + 0.2158037573 * c[2];
    let m_ = c[0] - 0.1055613458 * c[1] - 0.0638541728 * c[2];
    let s_ = c[0] - 0.0894841775 * c[1] - 1.2914855480 * c[2];
    let (l, m, s) = (l_ * l_ * l_, m_ * m_ * m_, s_ * s_ * s_);
    [
        4.0767416621 * l - 3.3077115913 * m + 0.2309699292 * s,
        -1.2684380046 * l + 2.6097574011 * m - 0.3413193965 * s,
        -0.0041960863 * l - 0.7034186147 * m + 1.7076147010 * s,
    ]
}

const K1: f64 = 0.206;
const K2: f64 = 0.03;
const K3: f64 = (1.0 + K1) / (1.0 + K2);

pub fn toe(x: f64) -> f64 {
    0.5 * (K3 * x - K1 + ((K3 * x - K1) * (K3 * x - K1) + 4.0 * K2 * K3 * x).sqrt())
}
pub fn toe_inv(x: f64) -> f64 {
    (x * x + K1 * x) / (K3 * (x + K2))
}

pub fn compute_max_saturation(a: f64, b: f64) -> f64 {
    let (k0, k1, k2, k3, k4, wl, wm, ws);
    if -1.88170328 * a - 0.80936493 * b > 1.0 {
        k0 = 1.19086277;
        k1 = 1.76576728;
        k2 = 0.59662641;
        k3 = 0.75515197;
        k4 = 0.56771245;
        wl = 4.0767416621;
        wm = -3.3077115913;
        ws = 0.2309699292;
    } else if 1.81444104 * a - 1.19445276 * b > 1.0 {
        k0 = 0.73956515;
        k1 = -0.45954404;
        k2 = 0.08285427;
        k3 = 0.12541070;
        k4 = 0.14503204;
        wl = -1.2684380046;
        wm = 2.6097574011;
        ws = -0.3413193965;
    } else {
        k0 = 1.35733652;
        k1 = -0.00915799;
        k2 = -1.15130210;
        k3 = -0.50559606;
        k4 = 0.00692167;
        wl = -0.0041960863;
        wm = -0.7034186147;
        ws = 1.7076147010;
    }
    let mut s = k0 + k1 * a + k2 * b + k3 * a * a + k4 * a * b;
    let k_l = 0.3963377774 * a + 0.2158037573 * b;
    let k_m = -0.1055613458 * a - 0.0638541728 * b;
    let k_s = -0.0894841775 * a - 1.2914855480 * b;
    {
        let l_ = 1.0 + s * k_l;
        let m_ = 1.0 + s * k_m;
        let s_ = 1.0 + s * k_s;
        let (l, m, ss) = (l_ * l_ * l_, m_ * m_ * m_, s_ * s_ * s_);
        let l_ds = 3.0 * k_l * l_ * l_;
        let m_ds = 3.0 * k_m * m_ * m_;
        let s_ds = 3.0 * k_s * s_ * s_;
        let l_ds2 = 6.0 * k_l * k_l * l_;
        let m_ds2 = 6.0 * k_m * k_m * m_;
        let s_ds2 = 6.0 * k_s * k_s * s_;
        let f = wl * l + wm * m + ws * ss;
        let f1 = wl * l_ds + wm * m_ds + ws * s_ds;
        let f2 = wl * l_ds2 + wm * m_ds2 + ws * s_ds2;
        s = s - f * f1 / (f1 * f1 - 0.5 * f * f2);
    }
    s
}

#[derive(Clone, Copy, Debug)]
pub struct LC {
    pub l: f64,
    pub c: f64,
}

pub fn find_cusp(a: f64, b: f64) -> LC {
    let s_cusp = compute_max_saturation(a, b);
    let rgb = oklab_to_linear_srgb([1.0, s_cusp * a, s_cusp * b]);
    let l_cusp = (1.0 / rgb[0].max(rgb[1]).max(rgb[2])).cbrt();
    LC { l: l_cusp, c: l_cusp * s_cusp }
}

pub fn find_gamut_intersection(a: f64, b: f64, l1: f64, c1: f64, l0: f64, cusp: LC) -> f64 {
    let mut t;
    if (l1 - l0) * cusp.c - (cusp.l - l0) * c1 <= 0.0 {
        t = cusp.c * l0 / (c1 * cusp.l + cusp.c * (l0 - l1));
    } else {
        t = cusp.c * (l0 - 1.0) / (c1 * (cusp.l - 1.0) + cusp.c * (l0 - l1));
        {
            let dl = l1 - l0;
            let dc = c1;
            let k_l = 0.3963377774 * a + 0.2158037573 * b;
            let k_m = -0.1055613458 * a - 0.0638541728 * b;
            let k_s = -0.0894841775 * a - 1.2914855480 * b;
            let l_dt = dl + dc * k_l;
            let m_dt = dl + dc * k_m;
            let s_dt = dl + dc * k_s;
            {
                let l = l0 * (1.0 - t) + t * l1;
                let c = t * c1;
                let l_ = l + c * k_l;
                let m_ = l + c * k_m;
                let s_ = l + c * k_s;
                let (ll, mm, ss) = (l_ * l_ * l_, m_ * m_ * m_, s_ * s_ * s_);
                let ldt = 3.0 * l_dt * l_ * l_;
                let mdt = 3.0 * m_dt * m_ * m_;
                let sdt = 3.0 * s_dt * s_ * s_;
                let ldt2 = 6.0 * l_dt * l_dt * l_;
                let mdt2 = 6.0 * m_dt * m_dt * m_;
                let sdt2 = 6.0 * s_dt * s_dt * s_;
                let r = 4.0767416621 * ll - 3.3077115913 * mm + 0.2309699292 * ss - 1.0;
                let r1 = 4.0767416621 * ldt - 3.3077115913 * mdt + 0.2309699292 * sdt;
                let r2 = 4.0767416621 * ldt2 - 3.3077115913 * mdt2 + 0.2309699292 * sdt2;
                let u_r = r1 / (r1 * r1 - 0.5 * r * r2);
                let mut t_r = -r * u_r;
                let g = -1.2684380046 * ll + 2.6097574011 * mm - 0.3413193965 * ss - 1.0;
                let g1 = -1.2684380046 * ldt + 2.6097574011 * mdt - 0.3413193965 * sdt;
                let g2 = -1.2684380046 * ldt2 + 2.6097574011 * mdt2 - 0.3413193965 * sdt2;
                let u_g = g1 / (g1 * g1 - 0.5 * g * g2);
                let mut t_g = -g * u_g;
                let bb = -0.0041960863 * ll - 0.7034186147 * mm + 1.7076147010 * ss - 1.0;
                let b1 = -0.0041960863 * ldt - 0.7034186147 * mdt + 1.7076147010 * sdt;
                let b2 = -0.0041960863 * ldt2 - 0.7034186147 * mdt2 + 1.7076147010 * sdt2;
                let u_b = b1 / (b1 * b1 - 0.5 * bb * b2);
                let mut t_b = -bb * u_b;
                if !(u_r >= 0.0) {
                    t_r = f64::MAX;
                }
                if !(u_g >= 0.0) {
                    t_g = f64::MAX;
                }
                if !(u_b >= 0.0) {
                    t_b = f64::MAX;
                }
                t += t_r.min(t_g.min(t_b));
            }
        }
    }
    t
}

pub struct ST {
    pub s: f64,
    pub t: f64,
}
pub fn to_st(cusp: LC) -> ST {
    ST { s: cusp.c / cusp.l, t: cusp.c / (1.0 - cusp.l) }
}
pub fn get_st_mid(a_: f64, b_: f64) -> ST {
    let s = 0.11516993 + 1.0 / (7.44778970 + 4.15901240 * b_ + a_ * (-2.19557347 + 1.75198401 * b_ + a_ * (-2.13704948 - 10.02301043 * b_ + a_ * (-4.24894561 + 5.38770819 * b_ + 4.69891013 * a_))));
    let t = 0.11239642 + 1.0 / (1.61320320 - 0.68124379 * b_ + a_ * (0.40370612 + 0.90148123 * b_ + a_ * (-0.27087943 + 0.61223990 * b_ + a_ * (0.00299215 - 0.45399568 * b_ - 0.14661872 * a_))));
    ST { s, t }
}
pub struct Cs {
    pub c_0: f64,
    pub c_mid: f64,
    pub c_max: f64,
}
pub fn get_cs(l: f64, a_: f64, b_: f64) -> Cs {
    let cusp = find_cusp(a_, b_);
    let c_max = find_gamut_intersection(a_, b_, l, 1.0, l, cusp);
    let st_max = to_st(cusp);
    let k = c_max / (l * st_max.s).min((1.0 - l) * st_max.t);
    let c_mid = {
        let st_mid = get_st_mid(a_, b_);
        let c_a = l * st_mid.s;
        let c_b = (1.0 - l) * st_mid.t;
        0.9 * k * (1.0 / (1.0 / (c_a * c_a * c_a * c_a) + 1.0 / (c_b * c_b * c_b * c_b))).sqrt().sqrt()
    };
    let c_0 = {
        let c_a = l * 0.4;
        let c_b = (1.0 - l) * 0.8;
        (1.0 / (1.0 / (c_a * c_a) + 1.0 / (c_b * c_b))).sqrt()
    };
    Cs { c_0, c_mid, c_max }
}

/// (h degrees, s, l) -> linear sRGB
pub fn okhsl_to_linear_srgb(hsl: V3) -> V3 {
    let (h, s, l) = (hsl[0] / 360.0, hsl[1], hsl[2]);
    if l == 1.0 {
        return [1.0, 1.0, 1.0];
    } else if l == 0.0 {
        return [0.0, 0.0, 0.0];
    }
    let a_ = (2.0 * PI * h).cos();
    let b_ = (2.0 * PI * h).sin();
    let ll = toe_inv(l);
    let cs = get_cs(ll, a_, b_);
    let (mid, mid_inv) = (0.8, 1.25);
    let c;
    if s < mid {
        let t = mid_inv * s;
        let k_1 = mid * cs.c_0;
        let k_2 = 1.0 - k_1 / cs.c_mid;
        c = t * k_1 / (1.0 - k_2 * t);
    } else {
        let t = (s - mid) / (1.0 - mid);
        let k_0 = cs.c_mid;
        let k_1 = (1.0 - mid) * cs.c_mid * cs.c_mid * mid_inv * mid_inv / cs.c_0;
        let k_2 = 1.0 - k_1 / (cs.c_max - cs.c_mid);
        c = k_0 + t * k_1 / (1.0 - k_2 * t);
    }
    oklab_to_linear_srgb([ll, c * a_, c * b_])
}

pub fn linear_srgb_to_okhsl(rgb: V3) -> V3 {
    let lab = linear_srgb_to_oklab(rgb);
    let c = (lab[1] * lab[1] + lab[2] * lab[2]).sqrt();
    let ll = lab[0];
    if c == 0.0 || ll == 0.0 || ll >= 1.0 {
        return [0.0, 0.0, toe(ll)];
    }
    let a_ = lab[1] / c;
    let b_ = lab[2] / c;
    let h = 0.5 + 0.5 * (-lab[2]).atan2(-lab[1]) / PI;
    let cs = get_cs(ll, a_, b_);
    let (mid, mid_inv) = (0.8, 1.25);
    let s;
    if c < cs.c_mid {
        let k_1 = mid * cs.c_0;
        let k_2 = 1.0 - k_1 / cs.c_mid;
        let t = c / (k_1 + k_2 * c);
        s = t * mid;
    } else {
        let k_0 = cs.c_mid;
        let k_1 = (1.0 - mid) * cs.c_mid * cs.c_mid * mid_inv * mid_inv / cs.c_0;
        let k_2 = 1.0 - k_1 / (cs.c_max - cs.c_mid);
        let t = (c - k_0) / (k_1 + k_2 * (c - k_0));
        s = mid + (1.0 - mid) * t;
    }
    [h * 360.0, s, toe(ll)]
}

pub fn okhsv_to_linear_srgb(hsv: V3) -> V3 {
    let (h, s, v) = (hsv[0] / 360.0, hsv[1], hsv[2]);
    if v == 0.0 {
        return [0.0, 0.0, 0.0];
    }
    let a_ = (2.0 * PI * h).cos();
    let b_ = (2.0 * PI * h).sin();
    let cusp = find_cusp(a_, b_);
    let st_max = to_st(cusp);
    let (s_max, t_max) = (st_max.s, st_max.t);
    let s_0 = 0.5;
    let k = 1.0 - s_0 / s_max;
    let l_v = 1.0 - s * s_0 / (s_0 + t_max - t_max * k * s);
    let c_v = s * t_max * s_0 / (s_0 + t_max - t_max * k * s);
    let mut l = v * l_v;
    let mut c = v * c_v;
    let l_vt = toe_inv(l_v);
    let c_vt = c_v * l_vt / l_v;
    let l_new = toe_inv(l);
    c = c * l_new / l;
    l = l_new;
    let rgb_scale = oklab_to_linear_srgb([l_vt, a_ * c_vt, b_ * c_vt]);
    let scale_l = (1.0 / rgb_scale[0].max(rgb_scale[1]).max(rgb_scale[2].max(0.0))).cbrt();
    l *= scale_l;
    c *= scale_l;
    oklab_to_linear_srgb([l, c * a_, c * b_])
}

pub fn linear_srgb_to_okhsv(rgb: V3) -> V3 {
    let lab = linear_srgb_to_oklab(rgb);
    let mut c = (lab[1] * lab[1] + lab[2] * lab[2]).sqrt();
    let mut l = lab[0];
    if l == 0.0 {
        return [0.0, 0.0, 0.0];
    }
    if c == 0.0 {
        return [0.0, 0.0, toe(l)];
    }
    let a_ = lab[1] / c;
    let b_ = lab[2] / c;
    let h = 0.5 + 0.5 * (-lab[2]).atan2(-lab[1]) / PI;
    let cusp = find_cusp(a_, b_);
    let st_max = to_st(cusp);
    let (s_max, t_max) = (st_max.s, st_max.t);
    let s_0 = 0.5;
    let k = 1.0 - s_0 / s_max;
    let t = t_max / (c + l * t_max);
    let l_v = t * l;
    let c_v = t * c;
    let l_vt = toe_inv(l_v);
    let c_vt = c_v * l_vt / l_v;
    let rgb_scale = oklab_to_linear_srgb([l_vt, a_ * c_vt, b_ * c_vt]);
    let scale_l = (1.0 / rgb_scale[0].max(rgb_scale[1]).max(rgb_scale[2].max(0.0))).cbrt();
    l /= scale_l;
    c /= scale_l;
    c = c * toe(l) / l;
    l = toe(l);
    let _ = c;
    let v = l / l_v;
    let s = (s_0 + t_max) * c_v / ((t_max * s_0) + t_max * k * c_v);
    [h * 360.0, s, v]
}

/// Okhwb (Ottosson): w = (1 - s) v, b = 1 - v
pub fn okhsv_to_okhwb(c: V3) -> V3 {
    [c[0], (1.0 - c[1]) * c[2], 1.0 - c[2]]
}
pub fn okhwb_to_okhsv(c: V3) -> V3 {
    let v = 1.0 - c[2];
    let s = if v == 0.0 { 0.0 } else { 1.0 - c[1] / v };
    [c[0], s, v]
}

#[cfg(test)]
mod test {
    use super::*;
    #[test]
    fn roundtrips_and_samples() {
        // toe is the inverse of toe_inv; toe(1) = 1
        assert!((toe(1.0) - 1.0).abs() < 1e-12);
        for i in 1..100 {
            let x = i as f64 / 100.0;
            assert!((toe(toe_inv(x)) - x).abs() < 1e-12);
        }
        // pure sRGB red: Oklab (0.62796, 0.22486, 0.12585) (Ottosson / CSS Color 4 sample)
        let lab = linear_srgb_to_oklab([1.0, 0.0, 0.0]);
        assert!((lab[0] - 0.62796).abs() < 1e-4 && (lab[1] - 0.22486).abs() < 1e-4 && (lab[2] - 0.12585).abs() < 1e-4, "{:?}", lab);
        // red is on the gamut boundary: okhsv s = 1, v = 1; okhsl s = 1
        let hsv = linear_srgb_to_okhsv([1.0, 0.0, 0.0]);
        assert!((hsv[1] - 1.0).abs() < 1e-3 && (hsv[2] - 1.0).abs() < 1e-3, "{:?}", hsv);
        let hsl = linear_srgb_to_okhsl([1.0, 0.0, 0.0]);
        assert!((hsl[1] - 1.0).abs() < 2e-3 && (hsl[0] - 29.23).abs() < 0.05, "{:?}", hsl);
        for c in [[0.2, 0.5, 0.7], [0.9, 0.3, 0.1], [0.05, 0.05, 0.9], [0.4, 0.4, 0.39]] {
            let a = okhsl_to_linear_srgb(linear_srgb_to_okhsl(c));
            let b = okhsv_to_linear_srgb(linear_srgb_to_okhsv(c));
            for i in 0..3 {
                assert!((a[i] - c[i]).abs() < 1e-6, "{:?} {:?}", a, c);
                assert!((b[i] - c[i]).abs() < 1e-6, "{:?} {:?}", b, c);
            }
        }
    }
}
