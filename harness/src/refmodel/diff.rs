//! Colour difference formulas, typed from the publications.

use std::f64::consts::PI;

/// CIEDE2000 after Sharma, Wu, Dalal (2005), "The CIEDE2000 color-difference formula:
/// implementation notes...", equations (2)-(22), kL = kC = kH = 1. Returns (dE00, |dh'|, mean-hue case).
pub fn ciede2000(lab1: [f64; 3], lab2: [f64; 3]) -> (f64, f64, u8) {
    let (l1, a1, b1) = (lab1[0], lab1[1], lab1[2]);
    let (l2, a2, b2) = (lab2[0], lab2[1], lab2[2]);
    let c1 = (a1 * a1 + b1 * b1).sqrt();
    let c2 = (a2 * a2 + b2 * b2).sqrt();
    let cbar = (c1 + c2) / 2.0;
    let cbar7 = cbar.powi(7);
    let g = 0.5 * (1.0 - (cbar7 / (cbar7 + 25.0f64.powi(7))).sqrt());
    let a1p = (1.0 + g) * a1;
    let a2p = (1.0 + g) * a2;
    let c1p = (a1p * a1p + b1 * b1).sqrt();
    let c2p = (a2p * a2p + b2 * b2).sqrt();
    let hp = |b: f64, ap: f64| -> f64 {
        if b == 0.0 && ap == 0.0 {
            0.0
        } else {
            let h = b.atan2(ap).to_degrees();
            if h < 0.0 {
                h + 360.0
            } else {
                h
            }
        }
    };
    let h1p = hp(b1, a1p);
    let h2p = hp(b2, a2p);
    let dlp = l2 - l1;
    let dcp = c2p - c1p;
    let diff = h2p - h1p;
    let dhp = if c1p * c2p == 0.0 {
        0.0
    } else if diff.abs() <= 180.0 {
        diff
    } else if diff > 180.0 {
        diff - 360.0
    } else {
        diff + 360.0
    };
    let dbighp = 2.0 * (c1p * c2p).sqrt() * (dhp / 2.0).to_radians().sin();
    let lbarp = (l1 + l2) / 2.0;
    let cbarp = (c1p + c2p) / 2.0;
    let sum = h1p + h2p;
    let (hbarp, case) = if c1p * c2p == 0.0 {
        (sum, 0u8)
    } else if diff.abs() <= 180.0 {
        (sum / 2.0, 1)
    } else if sum < 360.0 {
        ((sum + 360.0) / 2.0, 2)
    } else {
        ((sum - 360.0) / 2.0, 3)
    };
    let t = 1.0 - 0.17 * (hbarp - 30.0).to_radians().cos() + 0.24 * (2.0 * hbarp).to_radians().cos() + 0.32 * (3.0 * hbarp + 6.0).to_radians().cos() - 0.20 * (4.0 * hbarp - 63.0).to_radians().cos();
    let dtheta = 30.0 * (-((hbarp - 275.0) / 25.0).powi(2)).exp();
    let cbarp7 = cbarp.powi(7);
    let rc = 2.0 * (cbarp7 / (cbarp7 + 25.0f64.powi(7))).sqrt();
    let sl = 1.0 + 0.015 * (lbarp - 50.0).powi(2) / (20.0 + (lbarp - 50.0).powi(2)).sqrt();
    let sc = 1.0 + 0.045 * cbarp;
    let sh = 1.0 + 0.015 * cbarp * t;
    let rt = -(2.0 * dtheta).to_radians().sin() * rc;
    let _ = PI;
    let de = ((dlp / sl).powi(2) + (dcp / sc).powi(2) + (dbighp / sh).powi(2) + rt * (dcp / sc) * (dbighp / sh)).sqrt();
    (de, if c1p * c2p == 0.0 { 0.0 } else { diff.abs() }, case)
}

/// CIE76
pub fn delta_e_ab(a: [f64; 3], b: [f64; 3]) -> f64 {
    ((a[0] - b[0]).powi(2) + (a[1] - b[1]).powi(2) + (a[2] - b[2]).powi(2)).sqrt()
}
/// Huang et al. (2015) power functions
pub fn improved_delta_e(de: f64) -> f64 {
    1.26 * de.powf(0.55)
}
/// Huang et al. (2015), CAM02/CAM16-UCS: 1.41 dE'^0.63
pub fn improved_delta_e_cam16ucs(de: f64) -> f64 {
    1.41 * de.powf(0.63)
}
pub fn improved_ciede2000(de: f64) -> f64 {
    1.43 * de.powf(0.7)
}
/// Abasi et al. (2020) HyAB
pub fn hyab(a: [f64; 3], b: [f64; 3]) -> f64 {
    (a[0] - b[0]).abs() + ((a[1] - b[1]).powi(2) + (a[2] - b[2]).powi(2)).sqrt()
}
/// WCAG 2.1 relative luminance of linear sRGB and contrast ratio
pub fn wcag_luminance(lin: [f64; 3]) -> f64 {
    0.2126 * lin[0] + 0.7152 * lin[1] + 0.0722 * lin[2]
}
pub fn wcag_contrast(l1: f64, l2: f64) -> f64 {
    let (hi, lo) = if l1 > l2 { (l1, l2) } else { (l2, l1) };
    (hi + 0.05) / (lo + 0.05)
}

#[cfg(test)]
mod test {
    use super::*;
    #[test]
    fn sharma_table() {
        let txt = include_str!("../../../refdata/sharma_ciede2000.csv");
        let mut n = 0;
        for line in txt.lines().skip(1) {
            let v: Vec<f64> = line.split(',').map(|x| x.trim().parse().unwrap()).collect();
            let (de, _, _) = ciede2000([v[0], v[1], v[2]], [v[3], v[4], v[5]]);
            assert!((de - v[6]).abs() < 1e-4, "{:?} -> {}", v, de);
            let (de2, _, _) = ciede2000([v[3], v[4], v[5]], [v[0], v[1], v[2]]);
            assert!((de - de2).abs() < 1e-12);
            n += 1;
        }
        assert_eq!(n, 34);
    }
}
