//! Independent f64 reference model. Written from the published definitions; shares no code
//! and no constants with palette.
pub mod cam16;
pub mod diff;
pub mod ok;
pub mod space;
pub mod transfer;
