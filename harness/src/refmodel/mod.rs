//! Independent f64 reference model (filled per property).
