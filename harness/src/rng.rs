//! SplitMix64 streams derived from (VERIF_SEED, property, monitor, shard).

#[derive(Clone, Debug)]
pub struct Rng(pub u64);

fn fnv(s: &str) -> u64 {
    let mut h: u64 = 0xcbf29ce484222325;
    for b in s.bytes() {
        h ^= b as u64;
        h = h.wrapping_mul(0x100000001b3);
    }
    h
}

impl Rng {
    pub fn new(seed: u64) -> Self {
        Rng(seed)
    }
    /// Derive an independent stream for a named monitor / shard.
    pub fn derive(seed: u64, name: &str, shard: u64) -> Self {
        let mut r = Rng(seed ^ fnv(name).rotate_left(17) ^ shard.wrapping_mul(0x9E3779B97F4A7C15));
        r.next_u64();
        r.next_u64();
        r
    }
    #[inline]
    pub fn next_u64(&mut self) -> u64 {
        self.0 = self.0.wrapping_add(0x9E3779B97F4A7C15);
        let mut z = self.0;
        z = (z ^ (z >> 30)).wrapping_mul(0xBF58476D1CE4E5B9);
        z = (z ^ (z >> 27)).wrapping_mul(0x94D049BB133111EB);
        z ^ (z >> 31)
    }
    #[inline]
    pub fn next_u32(&mut self) -> u32 {
        (self.next_u64() >> 32) as u32
    }
    /// uniform in [0,1)
    #[inline]
    pub fn unit(&mut self) -> f64 {
        (self.next_u64() >> 11) as f64 * (1.0 / (1u64 << 53) as f64)
    }
    #[inline]
    pub fn range(&mut self, lo: f64, hi: f64) -> f64 {
        lo + (hi - lo) * self.unit()
    }
    #[inline]
    pub fn below(&mut self, n: u64) -> u64 {
        if n == 0 {
            0
        } else {
            ((self.next_u64() as u128 * n as u128) >> 64) as u64
        }
    }
    #[inline]
    pub fn chance(&mut self, p: f64) -> bool {
        self.unit() < p
    }
    pub fn pick<'a, T>(&mut self, xs: &'a [T]) -> &'a T {
        &xs[self.below(xs.len() as u64) as usize]
    }
}

pub fn hash_str(s: &str) -> u64 {
    fnv(s)
}

pub fn mix(a: u64, b: u64) -> u64 {
    let mut r = Rng(a ^ b.rotate_left(29).wrapping_mul(0x9E3779B97F4A7C15));
    r.next_u64()
}
