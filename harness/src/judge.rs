//! Tolerance policy (DESIGN 2.3): comparison in a well-conditioned space with a bound calibrated
//! by the model's own local sensitivity. Nothing here looks at palette's output.

use crate::refmodel::space::{Space, V3};

pub const U32: f64 = 5.960464477539063e-8; // 2^-24
pub const U64: f64 = 1.1102230246251565e-16; // 2^-53
pub const K: f64 = 64.0;
/// f32 chains accumulate several roundings per step and amplify them through every later step
pub const K32: f64 = 512.0;
/// relative accuracy of the hard-coded 7-digit matrices / published short constants
pub const EPS_CONST: f64 = 2e-6;

pub fn dist(a: &[f64; 4], b: &[f64; 4]) -> f64 {
    let mut d: f64 = 0.0;
    for i in 0..4 {
        let x = (a[i] - b[i]).abs();
        if x.is_nan() {
            return f64::NAN;
        }
        d = d.max(x);
    }
    d
}

/// does the path src -> dst touch published short constants (RGB matrices, Ok* matrices)?
pub fn crosses_constants(src: Space, dst: Space) -> bool {
    let rgbish = |s: Space| matches!(s, Space::Rgb(_) | Space::Hsl(_) | Space::Hsv(_) | Space::Hwb(_) | Space::Luma(..) | Space::Oklab | Space::Oklch | Space::Okhsl | Space::Okhsv | Space::Okhwb | Space::Hsluv(_));
    rgbish(src) || rgbish(dst)
}

fn width(space: Space, k: usize) -> f64 {
    if space.hue_index() == Some(k) {
        return 360.0;
    }
    let r = space.ranges()[k];
    (r.1 - r.0).max(1e-3)
}

/// Largest change of the model output (in dst's comparison space) when the input components
/// and the intermediate XYZ are perturbed relatively by eps_in / eps_xyz.
pub fn sensitivity(src: Space, dst: Space, x: &V3, eps_in: f64, eps_mid: f64) -> f64 {
    sensitivity_abs(src, dst, x, eps_in, eps_mid, 0.0)
}

/// `abs_mid`: additional absolute perturbation of the intermediate. CIE L*a*b* / L*u*v* add the
/// chromatic terms to (L* + 16)/116, so near black the tristimulus values carry an absolute error
/// of a few ulp of (16/116)^3 = 2.6e-3, not a relative one.
pub fn sensitivity_abs(src: Space, dst: Space, x: &V3, eps_in: f64, eps_mid: f64, abs_mid: f64) -> f64 {
    let (y, mid) = src.convert_to(dst, *x);
    let base = dst.cmp_vec(y);
    let mut s: f64 = 0.0;
    for k in 0..3 {
        let d = eps_in * x[k].abs().max(1e-3 * width(src, k));
        for sg in [-1.0, 1.0] {
            let mut xp = *x;
            xp[k] += sg * d;
            let v = dst.cmp_vec(src.convert_to(dst, xp).0);
            let dd = dist(&v, &base);
            if dd.is_finite() {
                s = s.max(dd);
            }
        }
    }
    let n = mid[0].abs().max(mid[1].abs()).max(mid[2].abs());
    for k in 0..3 {
        // matrix products mix the components: perturb relative to the largest one
        let d = eps_mid * mid[k].abs().max(0.05 * n).max(1e-12) + abs_mid;
        for sg in [-1.0, 1.0] {
            let mut xp = mid;
            xp[k] += sg * d;
            let v = dst.cmp_vec(dst.from_intermediate(src, xp));
            let dd = dist(&v, &base);
            if dd.is_finite() {
                s = s.max(dd);
            }
        }
    }
    s
}

/// tolerance for comparing palette's src -> dst result with the model, in dst's comparison space
pub fn tolerance(src: Space, dst: Space, x: &V3, is_f32: bool) -> f64 {
    let (u, k) = if is_f32 { (U32, K32) } else { (U64, K) };
    let eps_xyz = k * u + if crosses_constants(src, dst) { EPS_CONST } else { 0.0 };
    let floor = dst.scale() * if is_f32 { 16.0 * U32 } else { 1e-7 };
    let cie = |s: Space| matches!(s, Space::Lab(_) | Space::Lch(_) | Space::Luv(_) | Space::Lchuv(_) | Space::Hsluv(_));
    let abs_mid = if cie(src) || cie(dst) { 16.0 * u * 2.6e-3 } else { 0.0 };
    floor + sensitivity_abs(src, dst, x, k * u, eps_xyz, abs_mid)
}
