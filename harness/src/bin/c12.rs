//! C12 — hex strings, colour names and packed integers round-trip and parse strictly.
//!
//! Oracles: a strict recogniser/evaluator for the grammar `#?[0-9a-fA-F]{n}` (independent of
//! `from_str_radix`), a byte-position model of the channel orders, and the frozen W3C SVG table.

#![allow(clippy::all)]
use palette::cast::Packed;
use palette::rgb::channels::{Abgr, Argb, Bgra, Rgba as RgbaOrder};
use palette::rgb::Rgb;
use palette::{Alpha, Srgb, Srgba};
use pvmon::report::{par, Ctx, Monitor, Report};
use pvmon::{json, Value};
use std::panic::catch_unwind;
use std::str::FromStr;

#[path = "../named_table.rs"]
mod named_table;

type St = palette::encoding::Srgb;

// -------------------------------------------------------------------------------------------
// strict model

fn hexval(b: u8) -> Option<u32> {
    match b {
        b'0'..=b'9' => Some((b - b'0') as u32),
        b'a'..=b'f' => Some((b - b'a' + 10) as u32),
        b'A'..=b'F' => Some((b - b'A' + 10) as u32),
        _ => None,
    }
}

/// strict parse: optional '#', exactly n hex digits, n in `lens`; returns channel values scaled
/// to 32 bit exactly (digit*17 -> u8 -> replicate) and the digits-per-channel class.
fn model_parse(s: &str, channels: usize, lens: &[usize]) -> Option<Vec<u32>> {
    let b = s.as_bytes();
    let b = if b.first() == Some(&b'#') { &b[1..] } else { b };
    if !lens.contains(&b.len()) {
        return None;
    }
    let mut digits = Vec::with_capacity(b.len());
    for &c in b {
        digits.push(hexval(c)?);
    }
    let per = b.len() / channels;
    let mut out = Vec::new();
    for ch in 0..channels {
        let mut v: u32 = 0;
        for d in &digits[ch * per..(ch + 1) * per] {
            v = (v << 4) | d;
        }
        // scale to u32 by bit replication
        let v32 = match per {
            1 => (v * 17) * 0x0101_0101,
            2 => v * 0x0101_0101,
            4 => v * 0x0001_0001,
            8 => v,
            _ => return None,
        };
        out.push(v32);
    }
    Some(out)
}

trait CompK: Copy + Send + Sync + 'static {
    const NAME: &'static str;
    /// does the observed component equal the model value (given as exact u32 replication)?
    fn matches(self, v32: u32) -> bool;
    fn show(self) -> Value;
}
impl CompK for u8 {
    const NAME: &'static str = "u8";
    fn matches(self, v: u32) -> bool {
        self as u32 == v >> 24
    }
    fn show(self) -> Value {
        json!(self)
    }
}
impl CompK for u16 {
    const NAME: &'static str = "u16";
    fn matches(self, v: u32) -> bool {
        self as u32 == v >> 16
    }
    fn show(self) -> Value {
        json!(self)
    }
}
impl CompK for u32 {
    const NAME: &'static str = "u32";
    fn matches(self, v: u32) -> bool {
        self == v
    }
    fn show(self) -> Value {
        json!(self)
    }
}
impl CompK for f32 {
    const NAME: &'static str = "f32";
    fn matches(self, v: u32) -> bool {
        // f32 targets accept at most 16 bits per channel: v is a replication of a u16 (or u8) value
        let want = (v >> 16) as f64 / 65535.0;
        (self as f64 - want).abs() <= 1.2e-7
    }
    fn show(self) -> Value {
        json!(self)
    }
}
impl CompK for f64 {
    const NAME: &'static str = "f64";
    fn matches(self, v: u32) -> bool {
        let want = v as f64 / 4294967295.0;
        (self - want).abs() <= 4.5e-16
    }
    fn show(self) -> Value {
        json!(self)
    }
}

struct Target {
    name: String,
    channels: usize,
    lens: Vec<usize>,
    parse: Box<dyn Fn(&str) -> Option<Vec<bool>> + Send + Sync>, // None = Err; Some(per-channel match flags against model) computed by caller-provided model
    parse_show: Box<dyn Fn(&str) -> Value + Send + Sync>,
}

fn rgb_target<T: CompK>(lens: &[usize]) -> Target
where
    Rgb<St, T>: FromStr,
{
    let l1 = lens.to_vec();
    let l2 = lens.to_vec();
    Target {
        name: format!("Rgb<Srgb,{}>", T::NAME),
        channels: 3,
        lens: lens.to_vec(),
        parse: Box::new(move |s| {
            let r = Rgb::<St, T>::from_str(s).ok()?;
            let model = model_parse(s, 3, &l1);
            Some(match model {
                Some(m) => vec![r.red.matches(m[0]), r.green.matches(m[1]), r.blue.matches(m[2])],
                None => vec![],
            })
        }),
        parse_show: Box::new(move |s| {
            let _ = &l2;
            match Rgb::<St, T>::from_str(s) {
                Ok(r) => json!({"ok": [r.red.show(), r.green.show(), r.blue.show()]}),
                Err(_) => json!("Err"),
            }
        }),
    }
}
fn rgba_target<T: CompK>(lens: &[usize]) -> Target
where
    Alpha<Rgb<St, T>, T>: FromStr,
{
    let l1 = lens.to_vec();
    Target {
        name: format!("Rgba<Srgb,{}>", T::NAME),
        channels: 4,
        lens: lens.to_vec(),
        parse: Box::new(move |s| {
            let r = Alpha::<Rgb<St, T>, T>::from_str(s).ok()?;
            let model = model_parse(s, 4, &l1);
            Some(match model {
                Some(m) => vec![r.color.red.matches(m[0]), r.color.green.matches(m[1]), r.color.blue.matches(m[2]), r.alpha.matches(m[3])],
                None => vec![],
            })
        }),
        parse_show: Box::new(move |s| match Alpha::<Rgb<St, T>, T>::from_str(s) {
            Ok(r) => json!({"ok": [r.color.red.show(), r.color.green.show(), r.color.blue.show(), r.alpha.show()]}),
            Err(_) => json!("Err"),
        }),
    }
}

fn targets() -> Vec<Target> {
    vec![
        rgb_target::<u8>(&[3, 6]),
        rgba_target::<u8>(&[4, 8]),
        rgb_target::<u16>(&[3, 6, 12]),
        rgba_target::<u16>(&[4, 8, 16]),
        rgb_target::<u32>(&[3, 6, 12, 24]),
        rgba_target::<u32>(&[4, 8, 16, 32]),
        rgb_target::<f32>(&[3, 6, 12]),
        rgba_target::<f32>(&[4, 8, 16]),
        rgb_target::<f64>(&[3, 6, 12, 24]),
        rgba_target::<f64>(&[4, 8, 16, 32]),
    ]
}

const ALPHABET: [&str; 11] = ["0", "9", "a", "F", "g", "+", "-", "#", " ", "é", "🎨"];

fn judge_string(m: &mut Monitor, t: &Target, s: &str) {
    m.eval();
    let model = model_parse(s, t.channels, &t.lens);
    let r = catch_unwind(std::panic::AssertUnwindSafe(|| (t.parse)(s)));
    match r {
        Err(_) => {
            m.violate(&t.name, "panic", json!({"string": s, "bytes": s.as_bytes()}), json!("panic"), json!(if model.is_some() { "Ok" } else { "Err" }), "");
        }
        Ok(None) => {
            if model.is_some() {
                m.violate(&t.name, "valid_string_rejected", json!({"string": s, "bytes": s.as_bytes()}), json!("Err"), json!({"channels_u32": model}), "");
            } else {
                m.count("rejected_agree");
            }
        }
        Ok(Some(flags)) => {
            if model.is_none() {
                let class = if s.contains('+') || s.contains('-') { "invalid_string_accepted_sign" } else { "invalid_string_accepted" };
                m.violate(&t.name, class, json!({"string": s, "bytes": s.as_bytes()}), (t.parse_show)(s), json!("Err"), "");
            } else if !flags.iter().all(|f| *f) {
                m.violate(&t.name, "parsed_value_wrong", json!({"string": s, "bytes": s.as_bytes()}), (t.parse_show)(s), json!({"channels_u32": model}), "");
            } else {
                m.count("accepted_agree");
            }
        }
    }
}

fn strict_parsing(ctx: &Ctx, report: &mut Report) {
    let mname = "strict_parsing";
    if !ctx.enabled(mname) {
        return;
    }
    let mon = Monitor::new(
        mname,
        "every string of length <= L over the alphabet {0,9,a,F,g,+,-,#,space,e-acute(2 bytes),palette-emoji(4 bytes)} plus, for every accepted length n, all-hex strings with one alphabet symbol substituted / inserted / a digit deleted at every position, with and without '#', \
         parsed as Rgb/Rgba<u8|u16|u32|f32|f64>; oracle: strict recogniser + evaluator; panics caught; distinct = (type, byte length, accepted/rejected, char-boundary class)",
    );
    let ts = targets();
    let l_max: usize = if ctx.quick() { 7 } else { 9 };
    let replay = ctx.replay.as_ref().filter(|r| r.monitor == mname).map(|r| (r.inst.clone(), r.input["string"].as_str().unwrap().to_string()));
    let res = par(if replay.is_some() { 1 } else { ctx.threads }, |t| {
        let mut m = mon.like();
        if let Some((inst, s)) = &replay {
            for tg in &ts {
                if &tg.name == inst {
                    judge_string(&mut m, tg, s);
                }
            }
            return vec![m];
        }
        // (a) complete enumeration up to l_max, split over threads by the first two symbols
        let mut buf = String::new();
        let mut idx = vec![0usize; l_max];
        for len in 0..=l_max {
            // iterate all index tuples of this length
            let total = 11usize.pow(len as u32);
            let mut k = t;
            while k < total {
                let mut kk = k;
                for i in 0..len {
                    idx[i] = kk % 11;
                    kk /= 11;
                }
                buf.clear();
                for i in 0..len {
                    buf.push_str(ALPHABET[idx[i]]);
                }
                for tg in &ts {
                    judge_string(&mut m, tg, &buf);
                }
                let multibyte = buf.len() != len;
                m.cell(((len as u64) << 8) | ((buf.len() as u64) << 16) | multibyte as u64 | (((buf.starts_with('#')) as u64) << 1));
                k += ctx.threads;
            }
        }
        // (b) near misses around every accepted length
        if t == 0 || true {
            let hexd = ["3", "c", "B", "0", "f", "7", "A", "e"];
            for (ti, tg) in ts.iter().enumerate() {
                if ti % ctx.threads != t % ts.len().max(1) && ctx.threads >= ts.len() {
                    if ti != t % ts.len() {
                        continue;
                    }
                }
                if ctx.threads < ts.len() && ti % ctx.threads != t {
                    continue;
                }
                let mut all_lens: Vec<usize> = vec![3, 4, 6, 8, 12, 16, 24, 32];
                all_lens.extend([1usize, 2, 5, 7, 9, 11, 13, 15, 17, 23, 25, 31, 33, 48, 64]);
                for n in all_lens {
                    let base: String = (0..n).map(|i| hexd[(i * 5 + n) % 8]).collect();
                    for prefix in ["", "#", "##", " #", "+"] {
                        let s = format!("{}{}", prefix, base);
                        judge_string(&mut m, tg, &s);
                        // substitution at each position
                        for pos in 0..n {
                            for sym in ALPHABET.iter() {
                                let mut v: Vec<&str> = (0..n).map(|i| hexd[(i * 5 + n) % 8]).collect();
                                v[pos] = sym;
                                let s = format!("{}{}", prefix, v.concat());
                                judge_string(&mut m, tg, &s);
                                // insertion
                                let mut w: Vec<&str> = (0..n).map(|i| hexd[(i * 5 + n) % 8]).collect();
                                w.insert(pos, sym);
                                let s = format!("{}{}", prefix, w.concat());
                                judge_string(&mut m, tg, &s);
                            }
                        }
                        // trailing garbage
                        for sym in ["\n", "\0", " ", "é", "g"] {
                            let s = format!("{}{}{}", prefix, base, sym);
                            judge_string(&mut m, tg, &s);
                        }
                    }
                    m.cell(0xabc000 + ((ti as u64) << 8) + n as u64);
                }
            }
        }
        vec![m]
    });
    for mut m in res {
        m.tolerance = Some("exact for integer targets; 1 ulp for f32/f64 targets".into());
        m.sample(|| json!({"string": "#aBc", "Rgb<u8>": (ts[0].parse_show)("#aBc"), "Rgba<u8>": (ts[1].parse_show)("#aBc"), "model_rgba": model_parse("#aBc", 4, &[4, 8])}));
        m.sample(|| json!({"string": "+f+f+f", "Rgb<u8>": (ts[0].parse_show)("+f+f+f"), "model": model_parse("+f+f+f", 3, &[3, 6])}));
        if replay.is_none() {
            m.exhaustive = Some(format!("all strings of length <= {} over the 11-symbol alphabet x 10 parsable types", l_max));
        }
        report.add(m);
    }
}

fn hex_roundtrip(ctx: &Ctx, report: &mut Report) {
    let mname = "hex_format_parse_roundtrip";
    if !ctx.enabled(mname) {
        return;
    }
    let mon = Monitor::new(
        mname,
        "format {:x}/{:X} (with and without '#') then parse: all 2^24 Rgb<u8> (quick: stride 13 + corners), seeded Rgba<u8>, Rgb/Rgba<u16|u32>; formatted text also compared with the zero-padded hex of each channel; Luma hex text; distinct = (type, case, prefix, top bits)",
    );
    let replay = ctx.replay_input(mname, "Rgb<Srgb,u8>");
    let res = par(if ctx.replaying() { 1 } else { ctx.threads }, |t| {
        let mut m = mon.like();
        let one8 = |m: &mut Monitor, v: u32| {
            let c = Srgb::<u8>::new((v >> 16) as u8, (v >> 8) as u8, v as u8);
            let lo = format!("{:x}", c);
            let up = format!("{:X}", c);
            let want = format!("{:02x}{:02x}{:02x}", c.red, c.green, c.blue);
            m.evals(5);
            let ok_text = lo == want && up == want.to_uppercase();
            let p1 = Srgb::<u8>::from_str(&lo);
            let p2 = Srgb::<u8>::from_str(&up);
            let p3 = Srgb::<u8>::from_str(&format!("#{}", lo));
            let p4 = Srgb::<u8>::from_str(&format!("#{}", up));
            let ok = [p1, p2, p3, p4].iter().all(|p| p.as_ref().ok() == Some(&c));
            if !ok_text || !ok {
                m.violate("Rgb<Srgb,u8>", if ok_text { "parse_of_formatted" } else { "formatted_text" }, json!({"value": v}), json!({"lower": lo, "upper": up}), json!(want), "");
            }
        };
        if let Some(inp) = &replay {
            one8(&mut m, inp["value"].as_u64().unwrap() as u32);
            return vec![m];
        }
        if ctx.replaying() {
            return vec![m];
        }
        let stride: u32 = if ctx.quick() { 3 } else { 1 };
        let per = (1u32 << 24) / ctx.threads as u32;
        let lo = per * t as u32;
        let hi = if t == ctx.threads - 1 { 1u32 << 24 } else { lo + per };
        let mut v = lo + (ctx.seed % stride as u64) as u32;
        while v < hi {
            one8(&mut m, v);
            if v & 0xfff == 0 || stride > 1 && v % (stride * 512) < stride {
                m.cell((1u64 << 40) | (v >> 12) as u64);
            }
            v += stride;
        }
        let mut rng = ctx.rng(mname, t as u64);
        for i in 0..ctx.n(20_000, 1_000_000) {
            // Rgba<u8>
            let c = Srgba::<u8>::new(rng.below(256) as u8, rng.below(256) as u8, rng.below(256) as u8, rng.below(256) as u8);
            let lo = format!("{:x}", c);
            let up = format!("#{:X}", c);
            let want = format!("{:02x}{:02x}{:02x}{:02x}", c.red, c.green, c.blue, c.alpha);
            m.evals(3);
            if lo != want || Srgba::<u8>::from_str(&lo).ok() != Some(c) || Srgba::<u8>::from_str(&up).ok() != Some(c) {
                m.violate("Rgba<Srgb,u8>", "format_parse_roundtrip", json!({"c": [c.red, c.green, c.blue, c.alpha]}), json!({"lower": lo, "upper": up}), json!(want), "");
            }
            // u16
            let mk16 = |r: &mut pvmon::Rng| match r.below(4) {
                0 => r.below(65536) as u16,
                1 => *r.pick(&[0u16, 1, 15, 16, 255, 256, 0x0fff, 0x1000, 0xfffe, 0xffff]),
                2 => (r.below(256) as u16) * 257,
                _ => r.below(300) as u16,
            };
            let c = Rgb::<St, u16>::new(mk16(&mut rng), mk16(&mut rng), mk16(&mut rng));
            let a = mk16(&mut rng);
            let lo = format!("{:x}", c);
            let want = format!("{:04x}{:04x}{:04x}", c.red, c.green, c.blue);
            m.evals(3);
            if lo != want || Rgb::<St, u16>::from_str(&lo).ok() != Some(c) || Rgb::<St, u16>::from_str(&format!("#{:X}", c)).ok() != Some(c) {
                m.violate("Rgb<Srgb,u16>", "format_parse_roundtrip", json!({"c": [c.red, c.green, c.blue]}), json!({"lower": lo}), json!(want), "");
            }
            let ca = Alpha::<Rgb<St, u16>, u16> { color: c, alpha: a };
            let lo = format!("{:x}", ca);
            let want = format!("{:04x}{:04x}{:04x}{:04x}", c.red, c.green, c.blue, a);
            m.evals(2);
            if lo != want || Alpha::<Rgb<St, u16>, u16>::from_str(&lo).ok() != Some(ca) {
                m.violate("Rgba<Srgb,u16>", "format_parse_roundtrip", json!({"c": [c.red, c.green, c.blue, a]}), json!({"lower": lo}), json!(want), "");
            }
            // u32
            let mk32 = |r: &mut pvmon::Rng| match r.below(4) {
                0 => r.next_u32(),
                1 => *r.pick(&[0u32, 1, 0xff, 0x100, 0xffff, 0x10000, 0x0fff_ffff, 0x1000_0000, 0xffff_fffe, 0xffff_ffff]),
                2 => (r.below(65536) as u32) * 65537,
                _ => r.below(70000) as u32,
            };
            let c = Rgb::<St, u32>::new(mk32(&mut rng), mk32(&mut rng), mk32(&mut rng));
            let a = mk32(&mut rng);
            let up = format!("{:X}", c);
            let want = format!("{:08X}{:08X}{:08X}", c.red, c.green, c.blue);
            m.evals(2);
            if up != want || Rgb::<St, u32>::from_str(&up).ok() != Some(c) {
                m.violate("Rgb<Srgb,u32>", "format_parse_roundtrip", json!({"c": [c.red, c.green, c.blue]}), json!({"upper": up}), json!(want), "");
            }
            let ca = Alpha::<Rgb<St, u32>, u32> { color: c, alpha: a };
            let lo = format!("#{:x}", ca);
            m.evals(1);
            if Alpha::<Rgb<St, u32>, u32>::from_str(&lo).ok() != Some(ca) {
                m.violate("Rgba<Srgb,u32>", "format_parse_roundtrip", json!({"c": [c.red, c.green, c.blue, a]}), json!({"lower": lo}), json!("same colour"), "");
            }
            // luma text
            let l = palette::SrgbLuma::<u8>::new(rng.below(256) as u8);
            let la = palette::SrgbLumaa::<u16>::new(mk16(&mut rng), mk16(&mut rng));
            m.evals(2);
            if format!("{:x}", l) != format!("{:02x}", l.luma) || format!("{:X}", la) != format!("{:04X}{:04X}", la.luma, la.alpha) {
                m.violate("Luma", "formatted_text", json!({"l": l.luma}), json!(format!("{:x}", l)), json!(format!("{:02x}", l.luma)), "");
            }
            if i < 4096 {
                m.cell((2u64 << 40) | i);
            }
        }
        vec![m]
    });
    for mut m in res {
        if !ctx.quick() && !ctx.replaying() {
            m.exhaustive = Some("all 2^24 Rgb<u8> values x {lower, upper} x {with '#', without}".into());
        }
        m.sample(|| json!({"color": [171, 193, 35], "lower": format!("{:x}", Srgb::<u8>::new(171, 193, 35)), "parsed_back": format!("{:?}", Srgb::<u8>::from_str("abc123"))}));
        report.add(m);
    }
}

fn packed(ctx: &Ctx, report: &mut Report) {
    let mname = "packed_channel_orders";
    if !ctx.enabled(mname) {
        return;
    }
    let mon = Monitor::new(
        mname,
        "packed u32 x {RGBA, ARGB, BGRA, ABGR}: unpack puts each channel in the documented byte position (model: big-endian byte positions), pack(unpack(x)) == x, [u8;4] packing, From<u32>/Into<u32> (Rgb -> ARGB with opaque alpha, Rgba -> RGBA), all 2^16 luma La/Al; distinct = (order, top byte)",
    );
    let replay = ctx.replay_input(mname, "u32");
    let res = par(if ctx.replaying() { 1 } else { ctx.threads }, |t| {
        let mut m = mon.like();
        let one = |m: &mut Monitor, x: u32| {
            let b = x.to_be_bytes();
            macro_rules! order {
                ($O:ty, $name:expr, $r:expr, $g:expr, $b:expr, $a:expr) => {{
                    let c = Srgba::<u8>::from_u32::<$O>(x);
                    let back = c.into_u32::<$O>();
                    let p: Packed<$O, u32> = Packed::from(x);
                    let c2: Srgba<u8> = p.into();
                    let p2: Packed<$O, u32> = c.into();
                    let pa: Packed<$O, [u8; 4]> = Packed::pack(c);
                    let ca: Srgba<u8> = pa.unpack();
                    let rgb = Srgb::<u8>::from_u32::<$O>(x);
                    m.evals(6);
                    let ok = [c.red, c.green, c.blue, c.alpha] == [b[$r], b[$g], b[$b], b[$a]] && back == x && c2 == c && p2.color == x && pa.color == b && ca == c && rgb == c.color;
                    if !ok {
                        m.violate("u32", concat!("order_", $name), json!({"x": x}), json!({"unpacked": [c.red, c.green, c.blue, c.alpha], "repacked": back, "array": pa.color}), json!({"rgba": [b[$r], b[$g], b[$b], b[$a]]}), "");
                    }
                    // opaque alpha when packing a plain Rgb
                    let rp = rgb.into_u32::<$O>();
                    let want = u32::from_be_bytes({
                        let mut w = b;
                        w[$a] = 255;
                        w
                    });
                    if rp != want {
                        m.violate("u32", concat!("rgb_into_u32_", $name), json!({"x": x}), json!(rp), json!(want), "");
                    }
                }};
            }
            order!(RgbaOrder, "rgba", 0, 1, 2, 3);
            order!(Argb, "argb", 1, 2, 3, 0);
            order!(Bgra, "bgra", 2, 1, 0, 3);
            order!(Abgr, "abgr", 3, 2, 1, 0);
            // std conversions
            let c: Srgb<u8> = x.into();
            let ca: Srgba<u8> = x.into();
            let u1: u32 = c.into();
            let u2: u32 = ca.into();
            m.evals(4);
            if [c.red, c.green, c.blue] != [b[1], b[2], b[3]] || [ca.red, ca.green, ca.blue, ca.alpha] != b || u1 != (x | 0xff00_0000) || u2 != x {
                m.violate("u32", "from_into_u32", json!({"x": x}), json!({"rgb": [c.red, c.green, c.blue], "rgba": [ca.red, ca.green, ca.blue, ca.alpha], "u1": u1, "u2": u2}), json!("Rgb: ARGB (alpha ignored / opaque), Rgba: RGBA"), "");
            }
        };
        if let Some(inp) = &replay {
            one(&mut m, inp["x"].as_u64().unwrap() as u32);
            return vec![m];
        }
        if ctx.replaying() {
            return vec![m];
        }
        let stride: u64 = if ctx.quick() { 61 } else { 1 };
        let per = (1u64 << 32) / ctx.threads as u64;
        let lo = per * t as u64;
        let hi = if t == ctx.threads - 1 { 1u64 << 32 } else { lo + per };
        let mut x = lo + ctx.seed % stride;
        while x < hi {
            one(&mut m, x as u32);
            x += stride;
        }
        for tb in 0..16u64 {
            m.cell((t as u64) * 16 + tb);
        }
        if t == 0 {
            for bit in 0..32 {
                one(&mut m, 1u32 << bit);
                one(&mut m, !(1u32 << bit));
            }
            // luma, both orders
            use palette::luma::channels::{Al, La};
            for x in 0..=65535u16 {
                let b = x.to_be_bytes();
                let la = palette::SrgbLumaa::<u8>::from_u16::<La>(x);
                let al = palette::SrgbLumaa::<u8>::from_u16::<Al>(x);
                let l = palette::SrgbLuma::<u8>::from_u16::<La>(x);
                m.evals(5);
                if [la.luma, la.alpha] != b || [al.alpha, al.luma] != b || la.into_u16::<La>() != x || al.into_u16::<Al>() != x || l.luma != b[0] || l.into_u16::<La>() != (x | 0x00ff) {
                    m.violate("u16", "luma_orders", json!({"x": x}), json!({"la": [la.luma, la.alpha], "al": [al.luma, al.alpha]}), json!(b), "");
                }
            }
        }
        vec![m]
    });
    for mut m in res {
        if !ctx.quick() && !ctx.replaying() {
            m.exhaustive = Some("all 2^32 packed u32 values x 4 orders; all 2^16 x 2 luma orders".into());
        }
        m.sample(|| {
            let c = Srgba::<u8>::from_u32::<Argb>(0x80112233);
            json!({"x": "0x80112233", "order": "ARGB", "unpacked_rgba": [c.red, c.green, c.blue, c.alpha]})
        });
        report.add(m);
    }
}

fn names(ctx: &Ctx, report: &mut Report) {
    let mname = "named_colors";
    if !ctx.enabled(mname) || ctx.replaying() {
        return;
    }
    let mut m = Monitor::new(
        mname,
        "every constant of palette::named is found under its lower-case name with the value of the W3C SVG table (frozen copy in /verif/refdata); entries()/names()/colors() list exactly the table; case variants, prefixes, suffixes, padded and random non-names are not found; distinct = names and non-names tried",
    );
    let table = named_table::NAMED;
    for (name, konst, rgb) in table {
        m.evals(2);
        let want = Srgb::<u8>::new(rgb[0], rgb[1], rgb[2]);
        let got = palette::named::from_str(name);
        if *konst != want || got != Some(want) {
            m.violate("named", "name_lookup_or_value", json!({"name": name}), json!(format!("{:?} const {:?}", got, konst)), json!(rgb), "");
        }
        m.cell_s(name);
        // non-names derived from the name
        let variants = [
            name.to_uppercase(),
            format!("{}{}", &name[..1].to_uppercase(), &name[1..]),
            format!(" {}", name),
            format!("{} ", name),
            format!("{}\0", name),
            name[..name.len() - 1].to_string(),
            format!("{}s", name),
            format!("{}-", name),
            name.replace('e', "é"),
        ];
        for v in variants {
            if table.iter().any(|(n, _, _)| *n == v) {
                continue;
            }
            m.eval();
            if palette::named::from_str(&v).is_some() {
                m.violate("named", "non_name_found", json!({"name": v}), json!("Some"), json!("None"), "");
            }
            m.cell_s(&v);
        }
    }
    // the map lists exactly the table
    let mut listed: Vec<(String, [u8; 3])> = palette::named::entries().map(|(n, c)| (n.to_string(), [c.red, c.green, c.blue])).collect();
    listed.sort();
    let mut want: Vec<(String, [u8; 3])> = table.iter().map(|(n, _, c)| (n.to_string(), *c)).collect();
    want.sort();
    m.evals(3);
    if listed != want || palette::named::names().count() != table.len() || palette::named::colors().count() != table.len() {
        m.violate("named", "entries_differ_from_table", json!({}), json!(listed.len()), json!(want.len()), "");
    }
    let mut rng = ctx.rng(mname, 0);
    for _ in 0..ctx.n(20_000, 500_000) {
        let len = 1 + rng.below(12) as usize;
        let s: String = (0..len).map(|_| (b'a' + rng.below(26) as u8) as char).collect();
        if table.iter().any(|(n, _, _)| *n == s) {
            continue;
        }
        m.eval();
        if palette::named::from_str(&s).is_some() {
            m.violate("named", "non_name_found", json!({"name": s}), json!("Some"), json!("None"), "");
        }
    }
    for s in ["", "#fff", "ffffff", "rgb(0,0,0)", "transparent", "currentcolor", "grey ", "lightgoldenrodyellow\n"] {
        m.eval();
        if palette::named::from_str(s).is_some() {
            m.violate("named", "non_name_found", json!({"name": s}), json!("Some"), json!("None"), "");
        }
    }
    m.sample(|| json!({"name": "rebeccapurple", "found": format!("{:?}", palette::named::from_str("rebeccapurple")), "table_rows": table.len()}));
    report.add(m);
}

fn main() {
    let ctx = Ctx::from_args("C12");
    let mut report = Report::new(&ctx);
    pvmon::report::quiet_panics();
    strict_parsing(&ctx, &mut report);
    hex_roundtrip(&ctx, &mut report);
    packed(&ctx, &mut report);
    names(&ctx, &mut report);
    report.finish();
}
