//! C14 — white stays white and neutrals stay neutral across spaces and adaptations.

#![allow(deprecated)]
use palette::chromatic_adaptation::{AdaptFromUnclamped, AdaptInto, AdaptIntoUnclamped, Method};
use palette::convert::{Convert, FromColorUnclamped};
use palette::lms::matrix::{Bradford, UnitMatrix, VonKries};
use palette::rgb::{Rgb, RgbSpace};
use palette::white_point as wp;
use palette::white_point::WhitePoint;
use palette::Xyz;
use pvmon::conv_table as ct;
use pvmon::refmodel::cam16 as mcam;
use pvmon::refmodel::space::{mat_inv, mat_mul, mat_vec, Prim, RgbSpaceM, Space, Wp, M3, V3};
use pvmon::report::{fjson, fvec, Ctx, Monitor, Report};
use pvmon::{json, Rng};

fn ok_family(s: Space) -> bool {
    matches!(s, Space::Oklab | Space::Oklch | Space::Okhsl | Space::Okhsv | Space::Okhwb)
}

/// chroma-like magnitude of a colour of `space` (0 for neutrals) in the space's own units, and its lightness
fn chroma_like(space: Space, c: &V3) -> Option<f64> {
    Some(match space {
        Space::Lab(_) | Space::Luv(_) | Space::Oklab => c[1].hypot(c[2]),
        Space::Lch(_) | Space::Lchuv(_) | Space::Oklch => c[1].abs(),
        Space::Hsl(_) | Space::Hsv(_) => c[1].abs(),
        Space::Hwb(_) | Space::Okhwb => (1.0 - c[1] - c[2]).abs(),
        Space::Okhsl | Space::Okhsv => c[1].abs(),
        Space::Hsluv(_) => c[1].abs() * c[2].min(100.0 - c[2]).max(0.0) / 50.0,
        Space::Yxy(_) | Space::Xyz(_) | Space::Rgb(_) | Space::Luma(..) => return None,
    })
}

/// model Oklab lightness of the grey `g` of an RGB space (cube root of the linear value)
fn g_to_l(src: Space, g: f64) -> f64 {
    match src {
        Space::Rgb(st) => st.tf.decode(g).cbrt(),
        Space::Luma(_, tf) => tf.decode(g).cbrt(),
        _ => g,
    }
}

fn whites_and_neutrals(ctx: &Ctx, report: &mut Report) {
    let mname = "white_and_neutrals";
    if !ctx.enabled(mname) {
        return;
    }
    let mut m = Monitor::new(
        mname,
        "every RGB standard and every luma type of the table (sRGB, linear, Adobe, Rec.709/2020, Display P3, DCI-P3, ProPhoto, sRGB primaries with white points E and A; f32/f64): (1,1,1) -> XYZ of the standard's white point, L* = 100 with zero a*, b*, u*, v*, chroma, Oklab (1,0,0); all 256 8-bit grey levels and seeded greys -> zero chroma / saturation in every colorimetric space of the group and back to equal RGB components; CAM16 lightness 100 for the adopted white; \
         distinct = (source standard, target type, clause)",
    );
    let types = ct::types();
    let pairs = ct::pairs();
    let oklab64 = types.iter().position(|t| t.name == "Oklab/f64").unwrap();
    let oklab32 = types.iter().position(|t| t.name == "Oklab/f32").unwrap();
    let replay = ctx.replay.as_ref().filter(|r| r.monitor == mname).map(|r| (r.inst.clone(), r.input["grey"].as_f64().unwrap_or(1.0)));
    let mut rng = ctx.rng(mname, 0);
    let mut greys: Vec<f64> = (0..=255).map(|k| k as f64 / 255.0).collect();
    for _ in 0..ctx.n(200, 100_000) {
        greys.push(rng.unit());
    }
    greys.extend([1e-9, 1e-6, 1.0 - 1e-9, 0.5]);
    for &(i, j) in pairs.iter() {
        // RGB standards and the single-channel luma types (whose direct conversions fill in the white point's chromaticity)
        if types[i].kind != "rgb" && types[i].kind != "luma" {
            continue;
        }
        let src_luma = types[i].kind == "luma";
        let inst = format!("{}->{}", types[i].name, types[j].name);
        if let Some((r, _)) = &replay {
            if *r != inst {
                continue;
            }
        }
        let (src, dst) = (types[i].space, types[j].space);
        let is32 = types[i].is_f32;
        let white = src.wp().xyz();
        let s = dst.scale();
        // 7-digit matrices tint neutrals by ~1e-5 of the range; f32 by a few ulps amplified by the cube root
        let (tol_white, tol_neutral, tol_back) = if is32 { (2e-5 * s, 4e-4 * s, 2e-5) } else { (2e-6 * s, 2e-6 * s, 2e-6) };
        // Ok family reached through XYZ carries the known M1 mismatch (findings C01/C02): judged with its own class
        let ok_via_xyz = ok_family(dst) && src.anchor() != dst.anchor();
        let list: Vec<f64> = match &replay {
            Some((_, g)) => vec![*g],
            None => greys.clone(),
        };
        for &g in &list {
            let g = if is32 { g as f32 as f64 } else { g };
            let x = if src_luma { [g, 0.0, 0.0] } else { [g, g, g] };
            let y = ct::convert(i, j, x).unwrap();
            let inp = || json!({"grey": g, "rgb": fvec(&x)});
            // root cause of the recorded finding: the Oklab chroma of this grey is ~3.9e-5 L instead of 0; Okhsl/Okhsv/Okhwb
            // divide it by a maximum chroma that vanishes towards white and black, so the class is decided on Oklab itself
            let mismatch = ok_via_xyz && {
                let lab = ct::convert(i, if is32 { oklab32 } else { oklab64 }, x).unwrap();
                lab[1].hypot(lab[2]) <= 1e-4 && (lab[0] - g_to_l(src, g)).abs() <= 1e-4
            };
            let amplified = matches!(dst, Space::Okhsl | Space::Okhsv | Space::Okhwb);
            m.eval();
            if g == 1.0 {
                // white
                let bad = match dst {
                    Space::Xyz(_) => (0..3).any(|k| !((y[k] - white[k]).abs() <= tol_white)),
                    Space::Lab(_) | Space::Luv(_) => !((y[0] - 100.0).abs() <= 50.0 * tol_white / s * 100.0 / 100.0 + tol_white) || !(y[1].hypot(y[2]) <= tol_neutral.max(tol_white)),
                    Space::Lch(_) | Space::Lchuv(_) => !((y[0] - 100.0).abs() <= tol_white) || !(y[1].abs() <= tol_neutral.max(tol_white)),
                    Space::Oklab => !((y[0] - 1.0).abs() <= tol_white.max(2e-6)) || !(y[1].hypot(y[2]) <= tol_neutral.max(2e-6)),
                    Space::Oklch => !((y[0] - 1.0).abs() <= tol_white.max(2e-6)) || !(y[1].abs() <= tol_neutral.max(2e-6)),
                    Space::Yxy(w) => {
                        let wx = w.xyz();
                        let sm = wx[0] + wx[1] + wx[2];
                        !((y[0] - wx[0] / sm).abs() <= tol_white) || !((y[1] - wx[1] / sm).abs() <= tol_white) || !((y[2] - 1.0).abs() <= tol_white)
                    }
                    Space::Luma(..) => !((y[0] - 1.0).abs() <= tol_white),
                    Space::Rgb(_) => (0..3).any(|k| !((y[k] - 1.0).abs() <= tol_white.max(4e-6))),
                    _ => false,
                };
                if bad {
                    let class = if mismatch && chroma_like(dst, &y).unwrap_or(1.0).max((y[0] - 1.0).abs()) <= 5e-4 { "white_not_white:oklab_xyz_matrix_white_mismatch" } else { "white_not_white" };
                    m.violate(&inst, class, inp(), fvec(&y), json!({"white_point_xyz": fvec(&white), "target": format!("{:?}", dst)}), "");
                }
            }
            // neutrality of every grey
            if let Some(ch) = chroma_like(dst, &y) {
                m.eval();
                let hsluv_white = matches!(dst, Space::Hsluv(_)) && y[2] > 100.0 - 1e-3;
                // saturation-like quantities are relative: weight them by how much colour a unit of them carries
                let weight = match dst {
                    Space::Hsl(_) | Space::Okhsl => (1.0 - (2.0 * y[2] - 1.0).abs()).max(0.0),
                    Space::Hsv(_) | Space::Okhsv => y[2].abs(),
                    _ => 1.0,
                };
                if !(ch * weight <= tol_neutral) && !hsluv_white {
                    let class = if mismatch && (ch * weight <= 5e-4 || amplified) { "grey_not_neutral:oklab_xyz_matrix_white_mismatch" } else { "grey_not_neutral" };
                    m.violate(&inst, class, inp(), json!({"color": fvec(&y), "chroma_like": fjson(ch)}), json!({"tolerance": tol_neutral}), "");
                }
            }
            // and back to equal RGB components
            if types[j].kind != "luma" {
                if let Some(back) = ct::convert(j, i, y) {
                    m.eval();
                    let spread = if src_luma { 0.0 } else { back[0].max(back[1]).max(back[2]) - back[0].min(back[1]).min(back[2]) };
                    let off = (0..if src_luma { 1 } else { 3 }).map(|k| (back[k] - g).abs()).fold(0.0, f64::max);
                    // the encoded value of a near-black grey amplifies linear error by the slope of the transfer curve
                    let slope = match src {
                        Space::Luma(_, tf) => {
                            let lin = tf.decode(g);
                            let h = (lin * 1e-3).max(1e-9);
                            ((tf.encode(lin + h) - tf.encode(lin)) / h).abs().max(1.0)
                        }
                        Space::Rgb(st) => {
                            let lin = st.tf.decode(g);
                            let h = (lin * 1e-3).max(1e-9);
                            ((st.tf.encode(lin + h) - st.tf.encode(lin)) / h).abs().max(1.0)
                        }
                        _ => 1.0,
                    };
                    if !(spread <= tol_back * slope) || !(off <= 2.0 * tol_back * slope) {
                        let class = if mismatch && (spread <= 1e-3 * slope || (amplified && spread <= 2e-2 * slope)) { "grey_round_trip_not_grey:oklab_xyz_matrix_white_mismatch" } else { "grey_round_trip_not_grey" };
                        m.violate(&inst, class, inp(), json!({"there": fvec(&y), "back": fvec(&back)}), json!({"equal_components": g, "tolerance": tol_back * slope}), "");
                    }
                }
            }
        }
        m.cell_s(&inst);
    }
    // CAM16: the adopted white has lightness 100
    if replay.is_none() && !ctx.replaying() {
        use palette::cam16::{Cam16, Parameters};
        macro_rules! cam_white {
            ($W:ty, $name:expr) => {{
                for la in [0.1f64, 4.0, 40.0, 318.31, 1000.0] {
                    let p = Parameters::<palette::cam16::StaticWp<$W>, f64>::default_static_wp(la);
                    let w: Xyz<$W, f64> = <$W as WhitePoint<f64>>::get_xyz().with_white_point();
                    let c = Cam16::from_xyz(w, p);
                    m.eval();
                    if !((c.lightness - 100.0).abs() <= 1e-9) {
                        m.violate($name, "cam16_adopted_white_lightness", json!({"adapting_luminance": la}), json!(c.lightness), json!(100.0), "");
                    }
                    let p32 = Parameters::<palette::cam16::StaticWp<$W>, f32>::default_static_wp(la as f32);
                    let w32: Xyz<$W, f32> = <$W as WhitePoint<f32>>::get_xyz().with_white_point();
                    let c32 = Cam16::from_xyz(w32, p32);
                    if !((c32.lightness - 100.0).abs() <= 2e-3) {
                        m.violate($name, "cam16_adopted_white_lightness_f32", json!({"adapting_luminance": la}), json!(c32.lightness), json!(100.0), "");
                    }
                    m.cell_s(&format!("cam{}{}", $name, la));
                }
            }};
        }
        cam_white!(wp::D65, "Cam16<D65>");
        cam_white!(wp::D50, "Cam16<D50>");
        cam_white!(wp::E, "Cam16<E>");
        cam_white!(wp::A, "Cam16<A>");
        cam_white!(wp::F11, "Cam16<F11>");
        // dynamic white point
        let mut rng = ctx.rng("camdyn", 0);
        for _ in 0..50 {
            let w = Xyz::<wp::Any, f64>::new(rng.range(0.8, 1.2), 1.0, rng.range(0.3, 1.3));
            let p = Parameters::default_dynamic_wp(w, rng.range(1.0, 500.0));
            let c = Cam16::from_xyz(w, p);
            m.eval();
            if !((c.lightness - 100.0).abs() <= 1e-9) {
                m.violate("Cam16<dynamic>", "cam16_adopted_white_lightness", json!({"white": [w.x, w.y, w.z]}), json!(c.lightness), json!(100.0), "");
            }
        }
        let _ = mcam::M16;
    }
    m.tolerance = Some("white: 2e-6 S (f32 2e-5 S); neutral chroma 2e-6 S (f32 4e-4 S); grey round trip spread 2e-6 x slope of the transfer curve".into());
    m.sample(|| {
        let j = types.iter().position(|t| t.name == "Lab<D50>/f64").unwrap();
        let i = types.iter().position(|t| t.name == "ProPhotoRgb/f64").unwrap();
        json!({"pair": "ProPhotoRgb/f64->Lab<D50>/f64", "rgb": [1.0, 1.0, 1.0], "lab": fvec(&ct::convert(i, j, [1.0, 1.0, 1.0]).unwrap())})
    });
    report.add(m);
}

// --------------------------------------------------------------------------------------------
fn m3_of(a: [f64; 9]) -> M3 {
    [[a[0], a[1], a[2]], [a[3], a[4], a[5]], [a[6], a[7], a[8]]]
}
fn m3_dev(a: &M3, b: &M3) -> f64 {
    let mut d: f64 = 0.0;
    for i in 0..3 {
        for j in 0..3 {
            d = d.max((a[i][j] - b[i][j]).abs());
        }
    }
    d
}
const IDENT: M3 = [[1.0, 0.0, 0.0], [0.0, 1.0, 0.0], [0.0, 0.0, 1.0]];

fn matrices(ctx: &Ctx, report: &mut Report) {
    let mname = "rgb_xyz_matrices";
    if !ctx.enabled(mname) || ctx.replaying() {
        return;
    }
    let mut m = Monitor::new(
        mname,
        "for every RGB space: the hard-coded RGB->XYZ and XYZ->RGB matrices are mutual inverses and equal the matrix derived from primaries and white point by Lindbloom's construction (model, independent); the dynamically derived Matrix3 (matrix_from_rgb / matrix_from_xyz), then(), invert(), identity() and convert agree with it; rows of RGB->XYZ sum to the white point; distinct = (space, clause)",
    );
    let mut rng = ctx.rng(mname, 0);
    macro_rules! space {
        ($Sp:ty, $name:expr, $prim:expr, $wpm:expr) => {{
            let model = RgbSpaceM { prim: $prim, wp: $wpm }.rgb_to_xyz();
            let model_inv = mat_inv(&model);
            let hard = <$Sp as RgbSpace>::rgb_to_xyz_matrix();
            let hard_inv = <$Sp as RgbSpace>::xyz_to_rgb_matrix();
            if let (Some(a), Some(b)) = (hard, hard_inv) {
                let (a, b) = (m3_of(a), m3_of(b));
                m.evals(4);
                let d1 = m3_dev(&a, &model);
                let d2 = m3_dev(&b, &model_inv);
                let d3 = m3_dev(&mat_mul(&a, &b), &IDENT).max(m3_dev(&mat_mul(&b, &a), &IDENT));
                m.dev(d1.max(d2), || json!({"space": $name, "rgb_to_xyz_dev": d1, "xyz_to_rgb_dev": d2, "product_dev": d3}));
                if !(d1 <= 2e-7) {
                    m.violate($name, "hardcoded_rgb_to_xyz_differs_from_derived", json!({}), json!(a), json!(model), "");
                }
                if !(d2 <= 2e-6) {
                    m.violate($name, "hardcoded_xyz_to_rgb_differs_from_derived", json!({}), json!(b), json!(model_inv), "");
                }
                if !(d3 <= 1e-6) {
                    m.violate($name, "hardcoded_matrices_not_mutual_inverses", json!({}), json!(mat_mul(&a, &b)), json!(IDENT), "");
                }
                let w = $wpm.xyz();
                let rows: V3 = [a[0][0] + a[0][1] + a[0][2], a[1][0] + a[1][1] + a[1][2], a[2][0] + a[2][1] + a[2][2]];
                if !(0..3).all(|k| (rows[k] - w[k]).abs() <= 3e-7) {
                    m.violate($name, "matrix_rows_do_not_sum_to_white_point", json!({}), fvec(&rows), fvec(&w), "");
                }
                m.cell_s(concat!($name, "hard"));
            }
            // dynamically derived matrices through the public Matrix3 API
            type L = palette::encoding::Linear<$Sp>;
            type W = <$Sp as RgbSpace>::WhitePoint;
            let fwd = Xyz::<W, f64>::matrix_from_rgb::<L>();
            let inv = Rgb::<L, f64>::matrix_from_xyz();
            let (fa, ia) = (m3_of(fwd.into_array()), m3_of(inv.into_array()));
            m.evals(5);
            // (the built-in spaces return their hard-coded 7-digit constants here)
            if !(m3_dev(&fa, &model) <= 2e-7) || !(m3_dev(&ia, &model_inv) <= 2e-6) {
                m.violate($name, "matrix3_differs_from_derived", json!({}), json!({"from_rgb": fa, "from_xyz": ia}), json!({"from_rgb": model, "from_xyz": model_inv}), "");
            }
            let round = m3_of(fwd.then(inv).into_array());
            let inv2 = m3_of(fwd.invert().into_array());
            if !(m3_dev(&round, &IDENT) <= 1e-6) || !(m3_dev(&inv2, &model_inv) <= 2e-6) || !(m3_dev(&m3_of(palette::convert::Matrix3::<Xyz<W, f64>, Xyz<W, f64>>::identity().into_array()), &IDENT) == 0.0) {
                m.violate($name, "matrix3_then_invert_identity", json!({}), json!({"then": round, "invert": inv2}), json!({"then": IDENT, "invert": model_inv}), "");
            }
            for _ in 0..20 {
                let c = [rng.unit(), rng.unit(), rng.unit()];
                let x = fwd.convert(Rgb::<L, f64>::new(c[0], c[1], c[2]));
                let want = mat_vec(&model, c);
                let direct = Xyz::<W, f64>::from_color_unclamped(Rgb::<L, f64>::new(c[0], c[1], c[2]));
                m.eval();
                if !((x.x - want[0]).abs() <= 2e-6 && (x.y - want[1]).abs() <= 2e-6 && (x.z - want[2]).abs() <= 2e-6) || [x.x, x.y, x.z] != [direct.x, direct.y, direct.z] {
                    m.violate($name, "matrix3_convert", json!({"rgb": c}), json!([x.x, x.y, x.z]), fvec(&want), "");
                }
            }
            m.cell_s(concat!($name, "dyn"));
        }};
    }
    use palette::encoding as e;
    space!(e::Srgb, "Srgb", Prim::Srgb, Wp::D65);
    space!(e::AdobeRgb, "AdobeRgb", Prim::Adobe, Wp::D65);
    space!(e::Rec2020, "Rec2020", Prim::Rec2020, Wp::D65);
    space!(e::DisplayP3, "DisplayP3", Prim::P3, Wp::D65);
    space!(e::DciP3, "DciP3", Prim::P3, Wp::Dci);
    space!(e::DciP3Plus<e::P3Gamma>, "DciP3Plus", Prim::P3Plus, Wp::Dci);
    space!(e::ProPhotoRgb, "ProPhotoRgb", Prim::ProPhoto, Wp::D50);
    space!((e::Srgb, wp::E), "(SrgbPrimaries,E)", Prim::Srgb, Wp::E);
    space!((e::Srgb, wp::A), "(SrgbPrimaries,A)", Prim::Srgb, Wp::A);
    space!((e::Srgb, wp::D50), "(SrgbPrimaries,D50)", Prim::Srgb, Wp::D50);
    space!((e::AdobeRgb, wp::D55), "(AdobePrimaries,D55)", Prim::Adobe, Wp::D55);
    space!((e::Rec2020, wp::F7), "(Rec2020Primaries,F7)", Prim::Rec2020, Wp::F7);
    space!((e::ProPhotoRgb, wp::C), "(ProPhotoPrimaries,C)", Prim::ProPhoto, Wp::C);
    space!((e::DciP3, wp::D75), "(P3Primaries,D75)", Prim::P3, Wp::D75);
    m.tolerance = Some("hard-coded vs derived: 2e-7 (inverse 2e-6: inverting the 7-digit forward matrix amplifies its rounding by the condition number); product vs identity 1e-6".into());
    m.sample(|| json!({"space": "Srgb", "derived_rgb_to_xyz": RgbSpaceM { prim: Prim::Srgb, wp: Wp::D65 }.rgb_to_xyz(), "hard_coded": <e::Srgb as RgbSpace>::rgb_to_xyz_matrix()}));
    report.add(m);
}

// --------------------------------------------------------------------------------------------
const BRADFORD: M3 = [[0.8951, 0.2664, -0.1614], [-0.7502, 1.7135, 0.0367], [0.0389, -0.0685, 1.0296]];
const VON_KRIES: M3 = [[0.40024, 0.70760, -0.08081], [-0.22630, 1.16532, 0.04570], [0.0, 0.0, 0.91822]];

fn model_adapt(cone: &M3, src: V3, dst: V3, x: V3) -> V3 {
    let ls = mat_vec(cone, src);
    let ld = mat_vec(cone, dst);
    let lx = mat_vec(cone, x);
    mat_vec(&mat_inv(cone), [lx[0] * ld[0] / ls[0], lx[1] * ld[1] / ls[1], lx[2] * ld[2] / ls[2]])
}

trait AdFl: pvmon::conv_table::Flt + palette::num::Real + palette::num::Zero + palette::num::Arithmetics + Clone + 'static {
    const NAME: &'static str;
    const TOL: f64;
}
impl AdFl for f32 {
    const NAME: &'static str = "f32";
    const TOL: f64 = 6e-6;
}
impl AdFl for f64 {
    const NAME: &'static str = "f64";
    const TOL: f64 = 2e-6;
}

fn adapt_pair<W1, W2, T>(m: &mut Monitor, ctx: &Ctx, n1: &str, n2: &str, w1: Wp, w2: Wp, rng: &mut Rng)
where
    T: AdFl,
    W1: WhitePoint<T> + palette::xyz::meta::HasXyzMeta<XyzMeta = W1> + 'static,
    W2: WhitePoint<T> + palette::xyz::meta::HasXyzMeta<XyzMeta = W2> + 'static,
    Xyz<W2, T>: AdaptFromUnclamped<Xyz<W1, T>, Scalar = T>,
    Xyz<W1, T>: AdaptFromUnclamped<Xyz<W2, T>, Scalar = T>,
    Bradford: palette::lms::matrix::LmsToXyz<T> + palette::lms::matrix::XyzToLms<T>,
    VonKries: palette::lms::matrix::LmsToXyz<T> + palette::lms::matrix::XyzToLms<T>,
    UnitMatrix: palette::lms::matrix::LmsToXyz<T> + palette::lms::matrix::XyzToLms<T>,
    Method: palette::chromatic_adaptation::TransformMatrix<T>,
{
    let inst = format!("{}->{}/{}", n1, n2, T::NAME);
    if let Some(r) = &ctx.replay {
        if r.inst != inst {
            return;
        }
    }
    let (s, d) = (w1.xyz(), w2.xyz());
    let same_wp = n1 == n2;
    let mk = |v: V3| Xyz::<W1, T>::new(T::f(v[0]), T::f(v[1]), T::f(v[2]));
    let arr = |x: &Xyz<W2, T>| -> V3 { [x.x.d(), x.y.d(), x.z.d()] };
    let arr1 = |x: &Xyz<W1, T>| -> V3 { [x.x.d(), x.y.d(), x.z.d()] };
    let mut colors: Vec<V3> = vec![s, [0.0, 0.0, 0.0], [s[0] * 0.5, 0.5, s[2] * 0.5], [s[0] * 0.18, 0.18, s[2] * 0.18]];
    for _ in 0..ctx.n(6, 400) {
        colors.push([rng.range(0.0, 1.1), rng.range(0.0, 1.0), rng.range(0.0, 1.2)]);
    }
    let ident: M3 = IDENT;
    for (ci, c) in colors.iter().enumerate() {
        let c: V3 = [T::f(c[0]).d(), T::f(c[1]).d(), T::f(c[2]).d()];
        let inp = || json!({"xyz": fvec(&c), "method": "see class"});
        macro_rules! method {
            ($M:ty, $cone:expr, $mname:expr, $dep:expr) => {{
                let got: Xyz<W2, T> = Xyz::<W2, T>::adapt_from_unclamped_with::<$M>(mk(c));
                let into: Xyz<W2, T> = mk(c).adapt_into_unclamped_with::<$M>();
                let back: Xyz<W1, T> = Xyz::<W1, T>::adapt_from_unclamped_with::<$M>(got.clone());
                let want = model_adapt($cone, s, d, c);
                m.evals(4);
                let g = arr(&got);
                let scale = 1.0f64.max(c[0]).max(c[2]);
                let tol = T::TOL * scale;
                if arr(&into) != g {
                    m.violate(&inst, concat!($mname, ":adapt_into_differs_from_adapt_from"), inp(), fvec(&arr(&into)), fvec(&g), "");
                }
                if ci == 0 && !(0..3).all(|k| (g[k] - d[k]).abs() <= tol) {
                    m.violate(&inst, concat!($mname, ":source_white_not_mapped_to_destination_white"), inp(), fvec(&g), fvec(&d), "");
                }
                if !(0..3).all(|k| (g[k] - want[k]).abs() <= tol) {
                    m.violate(&inst, concat!($mname, ":adapted_value_differs_from_model"), inp(), fvec(&g), fvec(&want), "");
                }
                if same_wp && g != c {
                    m.violate(&inst, concat!($mname, ":not_identity_between_equal_white_points"), inp(), fvec(&g), fvec(&c), "");
                }
                let b = arr1(&back);
                if !(0..3).all(|k| (b[k] - c[k]).abs() <= 2.0 * tol) {
                    m.violate(&inst, concat!($mname, ":there_and_back_not_original"), inp(), fvec(&b), fvec(&c), "");
                }
                // deprecated API with the Method enum
                let old: Xyz<W2, T> = AdaptInto::<Xyz<W2, T>, W1, W2, T>::adapt_into_using(mk(c), $dep);
                let o = arr(&old);
                m.eval();
                if !(0..3).all(|k| (o[k] - want[k]).abs() <= tol) || (ci == 0 && !(0..3).all(|k| (o[k] - d[k]).abs() <= tol)) {
                    m.violate(&inst, concat!($mname, ":deprecated_adapt_into_differs"), inp(), fvec(&o), fvec(&want), "");
                }
            }};
        }
        method!(Bradford, &BRADFORD, "bradford", Method::Bradford);
        method!(VonKries, &VON_KRIES, "von_kries", Method::VonKries);
        method!(UnitMatrix, &ident, "xyz_scaling", Method::XyzScaling);
        // default method = Bradford
        let def: Xyz<W2, T> = Xyz::<W2, T>::adapt_from_unclamped(mk(c));
        let br: Xyz<W2, T> = Xyz::<W2, T>::adapt_from_unclamped_with::<Bradford>(mk(c));
        if arr(&def) != arr(&br) {
            m.violate(&inst, "default_method_is_not_bradford", inp(), fvec(&arr(&def)), fvec(&arr(&br)), "");
        }
    }
    m.cell_s(&inst);
}

fn adaptation(ctx: &Ctx, report: &mut Report) {
    let mname = "chromatic_adaptation";
    if !ctx.enabled(mname) {
        return;
    }
    let mut m = Monitor::new(
        mname,
        "all 15 x 15 ordered pairs of white points (A, B, C, D50, D55, D65, D75, E, F2, F7, F11, the four 10-degree ones; the DCI-P3 white through the deprecated API, which is the only one that accepts it) x {Bradford, VonKries, UnitMatrix/XYZ scaling} x f32/f64 through AdaptFromUnclamped / AdaptIntoUnclamped and the deprecated AdaptInto: source white -> destination white, identity (bit-exact) between equal white points, there and back returns the original, value equals the cone-matrix model; on whites, black, greys and seeded XYZ colours; distinct = ordered pairs x float type",
    );
    let mut rng = ctx.rng(mname, 0);
    macro_rules! row {
        ($A:ty, $an:expr, $am:expr; $(($B:ty, $bn:expr, $bm:expr)),+) => {
            $(
                adapt_pair::<$A, $B, f64>(&mut m, ctx, $an, $bn, $am, $bm, &mut rng);
                adapt_pair::<$A, $B, f32>(&mut m, ctx, $an, $bn, $am, $bm, &mut rng);
            )+
        };
    }
    macro_rules! all_rows {
        ($(($A:ty, $an:expr, $am:expr)),+ ; $all:tt) => { $( all_rows!(@one ($A, $an, $am) $all); )+ };
        (@one ($A:ty, $an:expr, $am:expr) [$(($B:ty, $bn:expr, $bm:expr)),+]) => { row!($A, $an, $am; $(($B, $bn, $bm)),+); };
    }
    all_rows!((wp::A, "A", Wp::A), (wp::B, "B", Wp::B), (wp::C, "C", Wp::C), (wp::D50, "D50", Wp::D50), (wp::D55, "D55", Wp::D55), (wp::D65, "D65", Wp::D65), (wp::D75, "D75", Wp::D75), (wp::E, "E", Wp::E),
        (wp::F2, "F2", Wp::F2), (wp::F7, "F7", Wp::F7), (wp::F11, "F11", Wp::F11), (wp::D50Degree10, "D50Degree10", Wp::D50d10), (wp::D55Degree10, "D55Degree10", Wp::D55d10), (wp::D65Degree10, "D65Degree10", Wp::D65d10), (wp::D75Degree10, "D75Degree10", Wp::D75d10);
        [(wp::A, "A", Wp::A), (wp::B, "B", Wp::B), (wp::C, "C", Wp::C), (wp::D50, "D50", Wp::D50), (wp::D55, "D55", Wp::D55), (wp::D65, "D65", Wp::D65), (wp::D75, "D75", Wp::D75), (wp::E, "E", Wp::E),
        (wp::F2, "F2", Wp::F2), (wp::F7, "F7", Wp::F7), (wp::F11, "F11", Wp::F11), (wp::D50Degree10, "D50Degree10", Wp::D50d10), (wp::D55Degree10, "D55Degree10", Wp::D55d10), (wp::D65Degree10, "D65Degree10", Wp::D65d10), (wp::D75Degree10, "D75Degree10", Wp::D75d10)]);
    // the DCI white point implements WhitePoint only: deprecated API
    if !ctx.replaying() {
        type Dci = palette::encoding::DciP3;
        let (s, d) = (Wp::Dci.xyz(), Wp::D65.xyz());
        for (mi, cone, name) in [(0, BRADFORD, "bradford"), (1, VON_KRIES, "von_kries"), (2, IDENT, "xyz_scaling")] {
            let meth = || match mi { 0 => Method::Bradford, 1 => Method::VonKries, _ => Method::XyzScaling };
            let mut cols = vec![s];
            for _ in 0..50 {
                cols.push([rng.unit(), rng.unit(), rng.unit()]);
            }
            for (ci, c) in cols.iter().enumerate() {
                let got: Xyz<wp::D65, f64> = AdaptInto::<Xyz<wp::D65, f64>, Dci, wp::D65, f64>::adapt_into_using(Xyz::<Dci, f64>::new(c[0], c[1], c[2]), meth());
                let back: Xyz<Dci, f64> = AdaptInto::<Xyz<Dci, f64>, wp::D65, Dci, f64>::adapt_into_using(got, meth());
                let want = model_adapt(&cone, s, d, *c);
                let g = [got.x, got.y, got.z];
                let b = [back.x, back.y, back.z];
                m.evals(2);
                if !(0..3).all(|k| (g[k] - want[k]).abs() <= 2e-6) || (ci == 0 && !(0..3).all(|k| (g[k] - d[k]).abs() <= 2e-6)) || !(0..3).all(|k| (b[k] - c[k]).abs() <= 4e-6) {
                    m.violate("DciP3White->D65/f64", &format!("{}:deprecated_adapt_into_differs", name), json!({"xyz": c}), json!({"there": g, "back": b}), fvec(&want), "");
                }
            }
        }
        m.cell_s("DciP3White->D65/f64");
    }
    // dynamic white points through adaptation_matrix (measured whites with Y != 1 are normalised)
    if !ctx.replaying() {
        use palette::chromatic_adaptation::adaptation_matrix;
        macro_rules! dynamic {
            ($M:ty, $cone:expr, $mn:expr) => {{
                for _ in 0..ctx.n(100, 10_000) {
                    let win = [rng.range(0.7, 1.2), rng.range(0.5, 1.5), rng.range(0.3, 1.4)];
                    let wout = [rng.range(0.7, 1.2), rng.range(0.5, 1.5), rng.range(0.3, 1.4)];
                    let (wi, wo) = (Xyz::<wp::D65, f64>::new(win[0], win[1], win[2]), Xyz::<wp::D50, f64>::new(wout[0], wout[1], wout[2]));
                    let mat = adaptation_matrix::<f64, wp::D65, wp::D50, $M>(Some(wi), Some(wo));
                    let back = adaptation_matrix::<f64, wp::D50, wp::D65, $M>(Some(wo), Some(wi));
                    let ident = adaptation_matrix::<f64, wp::D65, wp::D65, $M>(Some(wi), Some(wi));
                    // one side static
                    let to_static = adaptation_matrix::<f64, wp::D65, wp::D50, $M>(Some(wi), None);
                    let from_static = adaptation_matrix::<f64, wp::D50, wp::D65, $M>(None, Some(wi));
                    let nin = [win[0] / win[1], 1.0, win[2] / win[1]];
                    let nout = [wout[0] / wout[1], 1.0, wout[2] / wout[1]];
                    let got = mat.convert(Xyz::<wp::D65, f64>::new(nin[0], nin[1], nin[2]));
                    let c = [rng.unit(), rng.unit(), rng.unit()];
                    let x = Xyz::<wp::D65, f64>::new(c[0], c[1], c[2]);
                    let there = mat.convert(x);
                    let again = back.convert(there);
                    let same = ident.convert(x);
                    let st = to_static.convert(x);
                    let st_back = from_static.convert(st);
                    let want = model_adapt($cone, nin, nout, c);
                    let want_st = model_adapt($cone, nin, Wp::D50.xyz(), c);
                    m.evals(6);
                    let inp = || json!({"white_in": win, "white_out": wout, "xyz": c});
                    // the 7-digit inverse cone matrix leaves M^-1 M - I ~ 1e-7, which the diagonal gains amplify
                    let (ls, ld) = (mat_vec($cone, nin), mat_vec($cone, nout));
                    let amp = (0..3).map(|k| (ld[k] / ls[k]).abs().max((ls[k] / ld[k]).abs())).fold(1.0, f64::max);
                    let near = |a: [f64; 3], b: &[f64; 3], t: f64| (0..3).all(|k| (a[k] - b[k]).abs() <= t * amp);
                    if !near([got.x, got.y, got.z], &nout, 3e-6) {
                        m.violate("dynamic/f64", concat!($mn, ":dynamic_white_not_mapped_to_normalised_destination_white"), inp(), json!([got.x, got.y, got.z]), fvec(&nout), "");
                    }
                    if !near([there.x, there.y, there.z], &want, 3e-6) {
                        m.violate("dynamic/f64", concat!($mn, ":dynamic_adapted_value_differs_from_model"), inp(), json!([there.x, there.y, there.z]), fvec(&want), "");
                    }
                    if !near([again.x, again.y, again.z], &c, 4e-6) {
                        m.violate("dynamic/f64", concat!($mn, ":dynamic_there_and_back"), inp(), json!([again.x, again.y, again.z]), fvec(&c), "");
                    }
                    if !near([same.x, same.y, same.z], &c, 3e-6) {
                        m.violate("dynamic/f64", concat!($mn, ":dynamic_equal_whites_not_identity"), inp(), json!([same.x, same.y, same.z]), fvec(&c), "");
                    }
                    if !near([st.x, st.y, st.z], &want_st, 3e-6) || !near([st_back.x, st_back.y, st_back.z], &c, 4e-6) {
                        m.violate("dynamic/f64", concat!($mn, ":dynamic_to_static_and_back"), inp(), json!({"there": [st.x, st.y, st.z], "back": [st_back.x, st_back.y, st_back.z]}), json!({"there": fvec(&want_st), "back": fvec(&c)}), "");
                    }
                }
                m.cell_s(concat!("dynamic", $mn));
            }};
        }
        dynamic!(Bradford, &BRADFORD, "bradford");
        dynamic!(VonKries, &VON_KRIES, "von_kries");
        dynamic!(UnitMatrix, &IDENT, "xyz_scaling");
    }
    m.tolerance = Some("2e-6 (f32 6e-6) x colour scale (dynamic whites: x the largest cone gain or its reciprocal): the hard-coded 7-digit inverse cone matrices leave M^-1 M - I ~ 1e-7; identity between equal static white points bit-exact".into());
    m.sample(|| {
        let x: Xyz<wp::D50, f64> = Xyz::<wp::D65, f64>::new(0.95047, 1.0, 1.08883).adapt_into_unclamped();
        json!({"from": "D65 white", "to": "D50", "bradford": [x.x, x.y, x.z], "model": fvec(&model_adapt(&BRADFORD, Wp::D65.xyz(), Wp::D50.xyz(), Wp::D65.xyz()))})
    });
    report.add(m);
}

fn main() {
    let ctx = Ctx::from_args("C14");
    let mut report = Report::new(&ctx);
    whites_and_neutrals(&ctx, &mut report);
    matrices(&ctx, &mut report);
    adaptation(&ctx, &mut report);
    report.finish();
}
