//! C09 — colour difference measures satisfy their defining formulas and metric laws.

#![allow(deprecated)]
use palette::cam16::{Cam16UcsJab, Cam16UcsJmh};
use palette::color_difference::{Ciede2000, ColorDifference, DeltaE, EuclideanDistance, HyAb, ImprovedCiede2000, ImprovedDeltaE, Wcag21RelativeContrast};
use palette::white_point::D65;
use palette::convert::FromColorUnclamped;
use palette::{FromColor, Lab, Lch, LinSrgb, Luv, Oklab, Srgb, Xyz};
use pvmon::refmodel::diff;
use pvmon::report::{bits64, fjson, fvec, par, parse_bits64, Ctx, Monitor, Report};
use pvmon::{json, Rng};

type P = ([f64; 3], [f64; 3]);

fn lab_pairs(ctx: &Ctx, rng: &mut Rng, n: u64) -> Vec<P> {
    let mut v: Vec<P> = Vec::new();
    // Sharma's 34 pairs
    for line in include_str!("../../../refdata/sharma_ciede2000.csv").lines().skip(1) {
        let x: Vec<f64> = line.split(',').map(|s| s.trim().parse().unwrap()).collect();
        v.push(([x[0], x[1], x[2]], [x[3], x[4], x[5]]));
    }
    let pol = |l: f64, c: f64, h: f64| [l, c * h.to_radians().cos(), c * h.to_radians().sin()];
    let _ = ctx;
    for _ in 0..n {
        let l1 = rng.range(0.0, 100.0);
        let l2 = if rng.chance(0.3) { l1 } else { rng.range(0.0, 100.0) };
        let p = match rng.below(12) {
            // general
            0 | 1 | 2 => ([l1, rng.range(-128.0, 127.0), rng.range(-128.0, 127.0)], [l2, rng.range(-128.0, 127.0), rng.range(-128.0, 127.0)]),
            // hues straddling 0/360 with the sum on both sides of 360, |dh| on both sides of 180
            3 => {
                let h1 = rng.range(0.0, 60.0);
                let h2 = rng.range(300.0, 360.0);
                (pol(l1, rng.range(1.0, 100.0), h1), pol(l2, rng.range(1.0, 100.0), h2))
            }
            4 => {
                let h1 = rng.range(170.0, 360.0);
                let h2 = (h1 + 180.0 + rng.range(-30.0, 30.0)) % 360.0;
                (pol(l1, rng.range(1.0, 100.0), h1), pol(l2, rng.range(1.0, 100.0), h2))
            }
            5 => {
                // mean hue around 275 (R_T bump), large chroma
                let hm = 275.0 + rng.range(-30.0, 30.0);
                let d = rng.range(0.0, 60.0);
                (pol(l1, rng.range(20.0, 120.0), hm - d), pol(l2, rng.range(20.0, 120.0), hm + d))
            }
            // one or both chromas exactly zero
            6 => ([l1, 0.0, 0.0], [l2, rng.range(-100.0, 100.0), rng.range(-100.0, 100.0)]),
            7 => ([l1, 0.0, 0.0], [l2, 0.0, 0.0]),
            // C-bar around 25 (G term), L-bar around 50
            8 => (pol(50.0 + rng.range(-2.0, 2.0), 25.0 + rng.range(-3.0, 3.0), rng.range(0.0, 360.0)), pol(50.0 + rng.range(-2.0, 2.0), 25.0 + rng.range(-3.0, 3.0), rng.range(0.0, 360.0))),
            // nearly identical colours (cancellation)
            9 => {
                let c = rng.range(0.0, 128.0);
                let h = rng.range(0.0, 360.0);
                (pol(l1, c, h), pol(l1 + rng.range(-1e-3, 1e-3) * rng.unit(), c * (1.0 + rng.range(-1e-5, 1e-5)), h + rng.range(-1e-3, 1e-3) * rng.unit()))
            }
            10 => {
                let c = rng.range(10.0, 128.0);
                let h = rng.range(0.0, 360.0);
                (pol(l1, c, h), pol(l1, c + rng.range(-1e-6, 1e-6) * c, h))
            }
            // wide hue separation straddling, hue of b = 0 axis
            _ => {
                let c1 = rng.range(0.0, 100.0);
                ([l1, c1, 0.0], [l2, -rng.range(0.0, 100.0), *rng.pick(&[0.0, 1e-12, -1e-12])])
            }
        };
        v.push(p);
    }
    v
}

fn main() {
    let ctx = Ctx::from_args("C09");
    let mut report = Report::new(&ctx);

    // -----------------------------------------------------------------------------------------
    let mname = "ciede2000";
    if ctx.enabled(mname) {
        let mon = Monitor::new(
            mname,
            "CIEDE2000 of Lab and Lch (f32/f64, trait Ciede2000 and the deprecated ColorDifference) against the Sharma/Wu/Dalal reference (four-way mean hue) on Sharma's 34 pairs, hue-straddling families (sum on both sides of 360, |dh'| on both sides of 180), zero chromas, C-bar near 25, L-bar near 50, mean hue near 275, near-identical and seeded pairs; pairs with |dh'| within 1e-9(1+C) of 180 are excluded; plus symmetry, identity, non-negativity, Lch == Lab form, improved variant = 1.43 dE^0.7; \
             distinct = (dh'/mean-hue case, lightness cell, float type)",
        );
        let replay = ctx.replay_input(mname, "Lab");
        let res = par(if ctx.replaying() { 1 } else { ctx.threads }, |t| {
            let mut m = mon.like();
            let mut rng = ctx.rng(mname, t as u64);
            let pairs: Vec<P> = match &replay {
                Some(inp) => {
                    let b = parse_bits64(&inp["bits"]);
                    vec![([b[0], b[1], b[2]], [b[3], b[4], b[5]])]
                }
                None if ctx.replaying() => vec![],
                None => lab_pairs(&ctx, &mut rng, ctx.n(60_000, 6_000_000) / ctx.threads as u64),
            };
            for (a, b) in pairs {
                let (want, dh, case) = diff::ciede2000(a, b);
                let cmax = (a[1].hypot(a[2])).max(b[1].hypot(b[2]));
                if (dh - 180.0).abs() <= 1e-9 * (1.0 + cmax) {
                    m.count("excluded_dh_180");
                    continue;
                }
                let inp = || json!({"bits": bits64(&[a[0], a[1], a[2], b[0], b[1], b[2]]), "lab1": fvec(&a), "lab2": fvec(&b), "case": case});
                // f64
                let (la, lb) = (Lab::<D65, f64>::new(a[0], a[1], a[2]), Lab::<D65, f64>::new(b[0], b[1], b[2]));
                let d = la.difference(lb);
                let dr = lb.difference(la);
                let dold = la.get_color_difference(lb);
                let dimp = la.improved_difference(lb);
                m.evals(6);
                let dev = (d - want).abs();
                m.dev(dev, || json!({"lab1": fvec(&a), "lab2": fvec(&b), "palette": d, "sharma": want, "case": case}));
                let tol = 1e-9 + 1e-11 * want;
                if !(dev <= tol) {
                    m.violate("Lab", &format!("ciede2000_value_f64:mean_hue_case_{}", case), inp(), fjson(d), fjson(want), "");
                }
                if !((d - dr).abs() <= 1e-12 * (1.0 + d.abs())) {
                    m.violate("Lab", "ciede2000_asymmetric", inp(), json!({"ab": d, "ba": dr}), json!("symmetric"), "");
                }
                if !(d >= 0.0) || !d.is_finite() {
                    m.violate("Lab", "ciede2000_negative_or_nonfinite", inp(), fjson(d), json!(">= 0"), "");
                }
                if dold.to_bits() != d.to_bits() {
                    m.violate("Lab", "deprecated_color_difference_differs", inp(), fjson(dold), fjson(d), "");
                }
                if !((dimp - diff::improved_ciede2000(want)).abs() <= 1e-8 + 1e-9 * want) {
                    m.violate("Lab", "improved_ciede2000", inp(), fjson(dimp), fjson(diff::improved_ciede2000(want)), "");
                }
                if la.difference(la) != 0.0 || lb.difference(lb) != 0.0 {
                    m.violate("Lab", "ciede2000_identity", inp(), json!([la.difference(la), lb.difference(lb)]), json!(0.0), "");
                }
                // Lch form: the polar type must give what the rectangular one gives for the same colours
                let (ca, cb) = (Lch::from_color_unclamped(la), Lch::from_color_unclamped(lb));
                let dl = ca.difference(cb);
                let back = Lab::from_color_unclamped(ca).difference(Lab::from_color_unclamped(cb));
                m.evals(2);
                if !((dl - back).abs() <= 1e-9 * (1.0 + back)) || !(dl >= 0.0) {
                    m.violate("Lch", "ciede2000_polar_vs_rect", inp(), fjson(dl), fjson(back), "");
                }
                // every other form on the polar type: reversed arguments, the deprecated trait, the improved variant; and the
                // same set on f32 Lch against f32 Lab
                let (dlr, dlold, dlimp) = (cb.difference(ca), ca.get_color_difference(cb), ca.improved_difference(cb));
                m.evals(3);
                if !((dlr - dl).abs() <= 1e-12 * (1.0 + dl)) || dlold.to_bits() != dl.to_bits() || !((dlimp - diff::improved_ciede2000(dl)).abs() <= 1e-9 * (1.0 + dl)) {
                    m.violate("Lch", "ciede2000_polar_forms", inp(), json!({"ab": dl, "ba": dlr, "deprecated": dlold, "improved": dlimp}), json!({"improved": diff::improved_ciede2000(dl)}), "");
                }
                {
                    let (fa, fb) = (Lab::<D65, f32>::new(a[0] as f32, a[1] as f32, a[2] as f32), Lab::<D65, f32>::new(b[0] as f32, b[1] as f32, b[2] as f32));
                    let (ca32, cb32) = (Lch::from_color_unclamped(fa), Lch::from_color_unclamped(fb));
                    let (p, pi, li) = (ca32.difference(cb32) as f64, ca32.improved_difference(cb32) as f64, fa.improved_difference(fb) as f64);
                    let l = fa.difference(fb) as f64;
                    m.evals(3);
                    if !((pi - diff::improved_ciede2000(p)).abs() <= 1e-4 * (1.0 + p)) || !((li - diff::improved_ciede2000(l)).abs() <= 1e-4 * (1.0 + l)) {
                        m.violate("Lch/f32", "improved_ciede2000_f32", inp(), json!({"lch": pi, "lab": li}), json!({"lch": diff::improved_ciede2000(p), "lab": diff::improved_ciede2000(l)}), "");
                    }
                }
                // f32: judged against the reference evaluated on the f32-rounded inputs
                let a32 = [a[0] as f32, a[1] as f32, a[2] as f32];
                let b32 = [b[0] as f32, b[1] as f32, b[2] as f32];
                let (w32, dh32, _) = diff::ciede2000([a32[0] as f64, a32[1] as f64, a32[2] as f64], [b32[0] as f64, b32[1] as f64, b32[2] as f64]);
                if (dh32 - 180.0).abs() > 1e-3 {
                    let (fa, fb) = (Lab::<D65, f32>::new(a32[0], a32[1], a32[2]), Lab::<D65, f32>::new(b32[0], b32[1], b32[2]));
                    let d32 = fa.difference(fb);
                    let r32 = fb.difference(fa);
                    m.evals(3);
                    // f32 arithmetic: cancellation in the differences limits accuracy to ~1e-4 absolute; hue of near-grey colours is noise
                    let cmin = (a32[1].hypot(a32[2])).min(b32[1].hypot(b32[2])) as f64;
                    let tol32 = 2e-3 + 2e-4 * w32 + if cmin < 1e-2 { 0.05 } else { 0.0 };
                    if !((d32 as f64 - w32).abs() <= tol32) {
                        m.violate("Lab", "ciede2000_value_f32", inp(), fjson(d32 as f64), fjson(w32), "");
                    }
                    if !((d32 - r32).abs() <= 1e-5 * (1.0 + d32.abs())) || !(d32 >= 0.0) {
                        m.violate("Lab", "ciede2000_f32_asymmetric_or_negative", inp(), json!({"ab": d32, "ba": r32}), json!("symmetric, >= 0"), "");
                    }
                    if fa.difference(fa) != 0.0 {
                        m.violate("Lab", "ciede2000_identity_f32", inp(), fjson(fa.difference(fa) as f64), json!(0.0), "");
                    }
                }
                m.cell(((case as u64) << 8) | ((a[0] / 12.5) as u64 & 7) | (((dh / 45.0) as u64 & 7) << 4));
            }
            vec![m]
        });
        for mut m in res {
            m.tolerance = Some("f64: 1e-9 + 1e-11 dE; f32: 2e-3 + 2e-4 dE (0.05 when a chroma is below 0.01); symmetry 1e-12 relative".into());
            m.sample(|| {
                let (a, b) = ([50.0, 2.5, 0.0], [73.0, 25.0, -18.0]);
                json!({"lab1": a, "lab2": b, "palette": Lab::<D65, f64>::new(50.0, 2.5, 0.0).difference(Lab::new(73.0, 25.0, -18.0)), "sharma": diff::ciede2000(a, b).0})
            });
            report.add(m);
        }
    }

    // -----------------------------------------------------------------------------------------
    let mname = "delta_e_hyab_euclid";
    if ctx.enabled(mname) {
        let mon = Monitor::new(
            mname,
            "Delta E, improved Delta E (1.26 dE^0.55), HyAB and Euclidean distance for Lab, Lch, Luv (two white points), Oklab, Xyz, Yxy, Lms, Luma, Rgb, Cam16UcsJab, Cam16UcsJmh (f32/f64) against their closed forms; polar forms against rectangular ones; symmetry, identity, non-negativity and finiteness, including nearly identical saturated pairs; distinct = (measure, type, pair family)",
        );
        let replay = ctx.replay_input(mname, "triples");
        let res = par(if ctx.replaying() { 1 } else { ctx.threads }, |t| {
            let mut m = mon.like();
            let mut rng = ctx.rng(mname, t as u64);
            let pairs: Vec<P> = match &replay {
                Some(inp) => {
                    let b = parse_bits64(&inp["bits"]);
                    vec![([b[0], b[1], b[2]], [b[3], b[4], b[5]])]
                }
                None if ctx.replaying() => vec![],
                None => lab_pairs(&ctx, &mut rng, ctx.n(40_000, 4_000_000) / ctx.threads as u64),
            };
            for (fam, (a, b)) in pairs.into_iter().enumerate() {
                let inp = || json!({"bits": bits64(&[a[0], a[1], a[2], b[0], b[1], b[2]]), "c1": fvec(&a), "c2": fvec(&b)});
                let de = diff::delta_e_ab(a, b);
                let hy = diff::hyab(a, b);
                macro_rules! rect {
                    ($name:expr, $A:expr, $B:expr, $tol:expr, hyab) => {{
                        rect!($name, $A, $B, $tol);
                        let h = $A.hybrid_distance($B) as f64;
                        let hr = $B.hybrid_distance($A) as f64;
                        m.evals(2);
                        if !((h - hy).abs() <= $tol * (1.0 + hy)) || !((h - hr).abs() <= $tol * (1.0 + hy)) || !(h >= 0.0) {
                            m.violate($name, "hyab", inp(), json!({"ab": h, "ba": hr}), fjson(hy), "");
                        }
                    }};
                    ($name:expr, $A:expr, $B:expr, $tol:expr) => {{
                        let d2 = $A.distance_squared($B) as f64;
                        let d = $A.distance($B) as f64;
                        let dr = $B.distance($A) as f64;
                        m.evals(3);
                        if !((d - de).abs() <= $tol * (1.0 + de)) || !((d2 - de * de).abs() <= $tol * (1.0 + de * de)) || !((d - dr).abs() <= $tol * (1.0 + de)) || !(d >= 0.0) || !(d2 >= 0.0) {
                            m.violate($name, "euclidean_distance", inp(), json!({"d": fjson(d), "d2": fjson(d2), "ba": fjson(dr)}), fjson(de), "");
                        }
                        if $A.distance($A) != 0.0 {
                            m.violate($name, "distance_identity", inp(), json!($A.distance($A) as f64), json!(0.0), "");
                        }
                    }};
                }
                macro_rules! de_check {
                    ($name:expr, $A:expr, $B:expr, $tol:expr, $abs:expr) => {
                        de_check!($name, $A, $B, $tol, $abs, diff::improved_delta_e)
                    };
                    ($name:expr, $A:expr, $B:expr, $tol:expr, $abs:expr, $improved:expr) => {{
                        let d = $A.delta_e($B) as f64;
                        let dr = $B.delta_e($A) as f64;
                        let di = $A.improved_delta_e($B) as f64;
                        m.evals(3);
                        if !((d - de).abs() <= $tol * (1.0 + de) + $abs) || !(d >= 0.0) || !((d - dr).abs() <= $tol * (1.0 + de) + $abs) {
                            m.violate($name, "delta_e", inp(), json!({"ab": fjson(d), "ba": fjson(dr)}), fjson(de), "");
                        }
                        let wi = $improved(de);
                        // the power law amplifies absolute errors of tiny differences: judge it on the measure's own dE
                        let wi2 = $improved(d.max(0.0));
                        if !((di - wi).abs() <= 10.0 * $tol * (1.0 + wi) + $abs || (di - wi2).abs() <= 10.0 * $tol * (1.0 + wi2)) || !(di >= 0.0) {
                            m.violate($name, "improved_delta_e", inp(), fjson(di), fjson(wi), "");
                        }
                        if $A.delta_e($A) != 0.0 || $A.improved_delta_e($A) != 0.0 {
                            m.violate($name, "delta_e_identity", inp(), json!([$A.delta_e($A) as f64, $A.improved_delta_e($A) as f64]), json!(0.0), "");
                        }
                    }};
                }
                // f64 rectangular types carrying the triple as their components
                let (la, lb) = (Lab::<D65, f64>::new(a[0], a[1], a[2]), Lab::<D65, f64>::new(b[0], b[1], b[2]));
                rect!("Lab/f64", la, lb, 1e-12, hyab);
                de_check!("Lab/f64", la, lb, 1e-12, 0.0);
                let (ua, ub) = (Luv::<D65, f64>::new(a[0], a[1], a[2]), Luv::<D65, f64>::new(b[0], b[1], b[2]));
                rect!("Luv/f64", ua, ub, 1e-12, hyab);
                let (oa, ob) = (Oklab::<f64>::new(a[0], a[1], a[2]), Oklab::<f64>::new(b[0], b[1], b[2]));
                rect!("Oklab/f64", oa, ob, 1e-12, hyab);
                let (ja, jb) = (Cam16UcsJab::<f64>::new(a[0], a[1], a[2]), Cam16UcsJab::<f64>::new(b[0], b[1], b[2]));
                rect!("Cam16UcsJab/f64", ja, jb, 1e-12, hyab);
                de_check!("Cam16UcsJab/f64", ja, jb, 1e-12, 0.0, diff::improved_delta_e_cam16ucs);
                let (xa, xb) = (Xyz::<D65, f64>::new(a[0], a[1], a[2]), Xyz::<D65, f64>::new(b[0], b[1], b[2]));
                rect!("Xyz/f64", xa, xb, 1e-12);
                let (ra, rb) = (LinSrgb::<f64>::new(a[0], a[1], a[2]), LinSrgb::<f64>::new(b[0], b[1], b[2]));
                rect!("Rgb/f64", ra, rb, 1e-12);
                {
                    // the remaining impl_euclidean_distance! invocations: Yxy, Lms, Luv with another white point, f32 Lms;
                    // single-channel luma has a one-component distance of its own
                    let (ya, yb) = (palette::Yxy::<D65, f64>::new(a[0], a[1], a[2]), palette::Yxy::<D65, f64>::new(b[0], b[1], b[2]));
                    rect!("Yxy/f64", ya, yb, 1e-12);
                    let (ma, mb) = (palette::lms::VonKriesLms::<D65, f64>::new(a[0], a[1], a[2]), palette::lms::VonKriesLms::<D65, f64>::new(b[0], b[1], b[2]));
                    rect!("Lms/f64", ma, mb, 1e-12);
                    let (ua5, ub5) = (Luv::<palette::white_point::D50, f64>::new(a[0], a[1], a[2]), Luv::<palette::white_point::D50, f64>::new(b[0], b[1], b[2]));
                    rect!("Luv<D50>/f64", ua5, ub5, 1e-12, hyab);
                    let (l1, l2) = (palette::SrgbLuma::<f64>::new(a[0]), palette::SrgbLuma::<f64>::new(b[0]));
                    let (d, dr, d2) = (l1.distance(l2), l2.distance(l1), l1.distance_squared(l2));
                    m.evals(3);
                    let want = (a[0] - b[0]).abs();
                    if !((d - want).abs() <= 1e-12 * (1.0 + want)) || d != dr || !((d2 - want * want).abs() <= 1e-12 * (1.0 + want * want)) || l1.distance(l1) != 0.0 {
                        m.violate("Luma/f64", "euclidean_distance", inp(), json!({"d": fjson(d), "d2": fjson(d2), "ba": fjson(dr)}), fjson(want), "");
                    }
                }
                // polar forms: same colours expressed in polar coordinates. Cancellation in a polar formula shows
                // for nearly identical saturated colours, so the bound is absolute in the rectangular dE.
                let (ca, cb) = (Lch::from_color_unclamped(la), Lch::from_color_unclamped(lb));
                let back = diff::delta_e_ab(pvmon::refmodel::space::polar_to_rect([ca.l, ca.chroma, ca.hue.into_raw_degrees()]), pvmon::refmodel::space::polar_to_rect([cb.l, cb.chroma, cb.hue.into_raw_degrees()]));
                {
                    let d = ca.delta_e(cb);
                    let dr = cb.delta_e(ca);
                    let di = ca.improved_delta_e(cb);
                    m.evals(3);
                    if !((d - back).abs() <= 1e-10 * (1.0 + back)) || !((d - dr).abs() <= 1e-10 * (1.0 + back)) || !(d >= 0.0) {
                        m.violate("Lch/f64", "delta_e_polar_vs_rect", inp(), json!({"ab": fjson(d), "ba": fjson(dr)}), fjson(back), "");
                    }
                    let wi = diff::improved_delta_e(d.max(0.0));
                    if !((di - wi).abs() <= 1e-9 * (1.0 + wi)) || !(di >= 0.0) {
                        m.violate("Lch/f64", "improved_delta_e_polar", inp(), fjson(di), fjson(wi), "");
                    }
                    if ca.delta_e(ca) != 0.0 {
                        m.violate("Lch/f64", "delta_e_identity", inp(), json!(ca.delta_e(ca)), json!(0.0), "");
                    }
                }
                let (ma, mb) = (Cam16UcsJmh::from_color_unclamped(ja), Cam16UcsJmh::from_color_unclamped(jb));
                {
                    let backj = diff::delta_e_ab(
                        pvmon::refmodel::space::polar_to_rect([ma.lightness, ma.colorfulness, ma.hue.into_raw_degrees()]),
                        pvmon::refmodel::space::polar_to_rect([mb.lightness, mb.colorfulness, mb.hue.into_raw_degrees()]),
                    );
                    let d = ma.delta_e(mb);
                    let dr = mb.delta_e(ma);
                    let di = ma.improved_delta_e(mb);
                    m.evals(3);
                    if !((d - backj).abs() <= 1e-10 * (1.0 + backj)) || !((d - dr).abs() <= 1e-10 * (1.0 + backj)) || !(d >= 0.0) {
                        m.violate("Cam16UcsJmh/f64", "delta_e_polar_vs_rect", inp(), json!({"ab": fjson(d), "ba": fjson(dr)}), fjson(backj), "");
                    }
                    let wi = diff::improved_delta_e_cam16ucs(d.max(0.0));
                    if !((di - wi).abs() <= 1e-9 * (1.0 + wi)) || !(di >= 0.0) {
                        m.violate("Cam16UcsJmh/f64", "improved_delta_e_polar", inp(), fjson(di), fjson(wi), "");
                    }
                }
                // f32 instantiations (same formulas in single precision)
                let f = |v: [f64; 3]| [v[0] as f32, v[1] as f32, v[2] as f32];
                let (a3, b3) = (f(a), f(b));
                let de32 = diff::delta_e_ab([a3[0] as f64, a3[1] as f64, a3[2] as f64], [b3[0] as f64, b3[1] as f64, b3[2] as f64]);
                {
                    let (la, lb) = (Lab::<D65, f32>::new(a3[0], a3[1], a3[2]), Lab::<D65, f32>::new(b3[0], b3[1], b3[2]));
                    let d = la.delta_e(lb) as f64;
                    let h = la.hybrid_distance(lb) as f64;
                    let e = la.distance(lb) as f64;
                    m.evals(3);
                    let hy32 = diff::hyab([a3[0] as f64, a3[1] as f64, a3[2] as f64], [b3[0] as f64, b3[1] as f64, b3[2] as f64]);
                    if !((d - de32).abs() <= 1e-5 * (1.0 + de32)) || !((e - de32).abs() <= 1e-5 * (1.0 + de32)) || !((h - hy32).abs() <= 1e-5 * (1.0 + hy32)) || !(d >= 0.0) {
                        m.violate("Lab/f32", "delta_e_f32", inp(), json!({"delta_e": fjson(d), "hyab": fjson(h), "euclid": fjson(e)}), json!({"delta_e": de32, "hyab": hy32}), "");
                    }
                    let (ca, cb) = (Lch::from_color_unclamped(la), Lch::from_color_unclamped(lb));
                    let dp = ca.delta_e(cb);
                    let dip = ca.improved_delta_e(cb);
                    let backp = diff::delta_e_ab(
                        pvmon::refmodel::space::polar_to_rect([ca.l as f64, ca.chroma as f64, ca.hue.into_raw_degrees() as f64]),
                        pvmon::refmodel::space::polar_to_rect([cb.l as f64, cb.chroma as f64, cb.hue.into_raw_degrees() as f64]),
                    );
                    m.evals(2);
                    // single precision: trigonometric round trip of a chroma up to ~180 costs ~1e-4 absolute
                    if !(dp >= 0.0) || !dip.is_finite() || !(dip >= 0.0) || !((dp as f64 - backp).abs() <= 2e-4 + 1e-5 * backp) {
                        m.violate("Lch/f32", "delta_e_polar_vs_rect_f32", inp(), json!({"delta_e": fjson(dp as f64), "improved": fjson(dip as f64)}), fjson(backp), "");
                    }
                }
                m.cell(((fam % 12) as u64) << 8 | ((a[0] / 12.5) as u64 & 7));
            }
            vec![m]
        });
        for mut m in res {
            m.tolerance = Some("f64 closed forms 1e-12 relative; polar vs rectangular 1e-10 relative (f32: 2e-4 absolute + 1e-5 relative)".into());
            m.sample(|| json!({"lab1": [50.0, 10.0, -20.0], "lab2": [60.0, -5.0, 3.0], "delta_e": Lab::<D65, f64>::new(50.0, 10.0, -20.0).delta_e(Lab::new(60.0, -5.0, 3.0)), "hyab": Lab::<D65, f64>::new(50.0, 10.0, -20.0).hybrid_distance(Lab::new(60.0, -5.0, 3.0))}));
            report.add(m);
        }
    }

    // -----------------------------------------------------------------------------------------
    let mname = "wcag_contrast";
    if ctx.enabled(mname) {
        let mon = Monitor::new(
            mname,
            "WCAG 2.1 relative contrast for Srgb / LinSrgb / Luma (f32/f64; trait Wcag21RelativeContrast and the deprecated RelativeContrast) and the deprecated RelativeContrast of Lab, Lch, Luv, Lchuv, Xyz, Yxy, Hsl, Hsv, Hwb, Hsluv, Oklab, Oklch, Okhsl, Okhwb on the same colours: equals (L1+0.05)/(L2+0.05) of the linear luminances, symmetric, within [1, 21] for in-gamut colours, threshold predicates agree with the ratio (points straddling 3, 4.5 and 7, and all pairs of linear luma on the 1/1000 grid, which contain ratios exactly on a threshold); distinct = (type, ratio bucket)",
        );
        let replay = ctx.replay_input(mname, "Srgb");
        let res = par(if ctx.replaying() { 1 } else { ctx.threads }, |t| {
            let mut m = mon.like();
            let mut rng = ctx.rng(mname, t as u64);
            let n = if replay.is_some() { 1 } else if ctx.replaying() { 0 } else { ctx.n(40_000, 4_000_000) / ctx.threads as u64 };
            for q in 0..n {
                let (a, b): ([f64; 3], [f64; 3]) = match &replay {
                    Some(inp) => {
                        let v = parse_bits64(&inp["bits"]);
                        ([v[0], v[1], v[2]], [v[3], v[4], v[5]])
                    }
                    None => {
                        let g = |r: &mut Rng| match r.below(6) {
                            0 => [0.0, 0.0, 0.0],
                            1 => [1.0, 1.0, 1.0],
                            2 => {
                                let x = r.unit();
                                [x, x, x]
                            }
                            _ => [r.unit(), r.unit(), r.unit()],
                        };
                        let a = g(&mut rng);
                        let mut b = g(&mut rng);
                        if q % 5 == 0 {
                            // aim at a threshold: grey b with luminance giving ratio k against a
                            let la = diff::wcag_luminance([pvmon::refmodel::transfer::Tf::Srgb.decode(a[0]), pvmon::refmodel::transfer::Tf::Srgb.decode(a[1]), pvmon::refmodel::transfer::Tf::Srgb.decode(a[2])]);
                            let k = *rng.pick(&[3.0, 4.5, 7.0]) * (1.0 + rng.range(-1e-3, 1e-3));
                            let lb = (la + 0.05) / k - 0.05;
                            if lb >= 0.0 {
                                let e = pvmon::refmodel::transfer::Tf::Srgb.encode(lb);
                                b = [e, e, e];
                            }
                        }
                        (a, b)
                    }
                };
                let inp = || json!({"bits": bits64(&[a[0], a[1], a[2], b[0], b[1], b[2]]), "srgb1": fvec(&a), "srgb2": fvec(&b)});
                let tf = pvmon::refmodel::transfer::Tf::Srgb;
                // relative luminance = Y of the colour (luminance row of the sRGB matrix derived from primaries and white;
                // WCAG's 0.2126/0.7152/0.0722 are that row rounded to four digits)
                let row = pvmon::refmodel::space::SRGB.space.rgb_to_xyz()[1];
                let lum = |c: [f64; 3]| row[0] * tf.decode(c[0]) + row[1] * tf.decode(c[1]) + row[2] * tf.decode(c[2]);
                let (la, lb) = (lum(a), lum(b));
                let want = diff::wcag_contrast(la, lb);
                let (sa, sb) = (Srgb::<f64>::new(a[0], a[1], a[2]), Srgb::<f64>::new(b[0], b[1], b[2]));
                let r = sa.relative_contrast(sb);
                let rr = sb.relative_contrast(sa);
                let rold = palette::RelativeContrast::get_contrast_ratio(sa, sb);
                let lin = sa.into_linear().relative_contrast(sb.into_linear());
                m.evals(5);
                m.dev((r - want).abs(), || json!({"srgb1": fvec(&a), "srgb2": fvec(&b), "palette": r, "wcag": want}));
                // palette uses the luminance row of its sRGB matrix (0.2126729, 0.7151522, 0.0721750): 7e-5 relative to WCAG's rounded weights
                if !((r - want).abs() <= 2e-6 * want) || !(r >= 1.0 - 1e-12 && r <= 21.0 + 1e-9) {
                    m.violate("Srgb", "contrast_value_or_range", inp(), fjson(r), fjson(want), "");
                }
                if r.to_bits() != rr.to_bits() {
                    m.violate("Srgb", "contrast_asymmetric", inp(), json!({"ab": r, "ba": rr}), json!("identical"), "");
                }
                if !((rold - r).abs() <= 1e-12 * r) || !((lin - r).abs() <= 1e-9 * r) {
                    m.violate("Srgb", "contrast_variants_disagree", inp(), json!({"deprecated": rold, "linear": lin}), fjson(r), "");
                }
                let preds = [
                    (sa.has_min_contrast_text(sb), 4.5, "min_text"),
                    (sa.has_min_contrast_large_text(sb), 3.0, "min_large_text"),
                    (sa.has_enhanced_contrast_text(sb), 7.0, "enhanced_text"),
                    (sa.has_enhanced_contrast_large_text(sb), 4.5, "enhanced_large_text"),
                    (sa.has_min_contrast_graphics(sb), 3.0, "min_graphics"),
                ];
                for (p, k, name) in preds {
                    m.eval();
                    if p != (r >= k) {
                        m.violate("Srgb", &format!("predicate_{}", name), inp(), json!(p), json!({"ratio": r, "threshold": k}), "");
                    }
                }
                // f32 and luma
                let (fa, fb) = (Srgb::<f32>::new(a[0] as f32, a[1] as f32, a[2] as f32), Srgb::<f32>::new(b[0] as f32, b[1] as f32, b[2] as f32));
                let r32 = fa.relative_contrast(fb);
                let ya = palette::SrgbLuma::<f64>::from_color(sa);
                let yb = palette::SrgbLuma::<f64>::from_color(sb);
                let rl = ya.relative_contrast(yb);
                m.evals(2);
                if !((r32 as f64 - want).abs() <= 2e-5 * want) || r32.to_bits() != fb.relative_contrast(fa).to_bits() || fa.has_min_contrast_text(fb) != (r32 >= 4.5) {
                    m.violate("Srgb/f32", "contrast_f32", inp(), fjson(r32 as f64), fjson(want), "");
                }
                // the deprecated RelativeContrast exists for many more types (through their Xyz luminance): same ratio, symmetric,
                // within [1, 21], predicates agree with the type's own ratio
                if q % 4 == 0 {
                    macro_rules! old_api {
                        ($name:expr, $C:ty, $F:ty, $tol:expr) => {{
                            let (ca, cb): ($C, $C) = (<$C>::from_color_unclamped(Srgb::<$F>::new(a[0] as $F, a[1] as $F, a[2] as $F)), <$C>::from_color_unclamped(Srgb::<$F>::new(b[0] as $F, b[1] as $F, b[2] as $F)));
                            let ro = palette::RelativeContrast::get_contrast_ratio(ca, cb);
                            let rb = palette::RelativeContrast::get_contrast_ratio(cb, ca);
                            let ps = [
                                (palette::RelativeContrast::has_min_contrast_text(ca, cb), 4.5),
                                (palette::RelativeContrast::has_min_contrast_large_text(ca, cb), 3.0),
                                (palette::RelativeContrast::has_enhanced_contrast_text(ca, cb), 7.0),
                                (palette::RelativeContrast::has_enhanced_contrast_large_text(ca, cb), 4.5),
                                (palette::RelativeContrast::has_min_contrast_graphics(ca, cb), 3.0),
                            ];
                            m.evals(3);
                            // near black the luminance of a colour that went through a cylindrical / CIE type carries that type's own
                            // absolute rounding: compare the ratio through (L + 0.05), which is what it is made of
                            let t = $tol * want + $tol * 21.0 * want;
                            if !(((ro as f64) - want).abs() <= t) || ro.to_bits() != rb.to_bits() || !((ro as f64) >= 1.0 - 1e-6 && (ro as f64) <= 21.0 * (1.0 + $tol)) || ps.iter().any(|(p, k)| *p != (ro >= *k as $F)) {
                                m.violate($name, "deprecated_relative_contrast", inp(), json!({"ab": ro as f64, "ba": rb as f64, "predicates": ps.iter().map(|p| p.0).collect::<Vec<_>>()}), fjson(want), "");
                            }
                        }};
                    }
                    use palette::white_point::D65 as W;
                    use palette::encoding::Srgb as S;
                    old_api!("Lab/f64", palette::Lab<W, f64>, f64, 1e-6);
                    old_api!("Lch/f64", palette::Lch<W, f64>, f64, 1e-6);
                    old_api!("Luv/f64", palette::Luv<W, f64>, f64, 1e-6);
                    old_api!("Lchuv/f64", palette::Lchuv<W, f64>, f64, 1e-6);
                    old_api!("Xyz/f64", palette::Xyz<W, f64>, f64, 1e-6);
                    old_api!("Yxy/f64", palette::Yxy<W, f64>, f64, 1e-6);
                    old_api!("Hsl/f64", palette::Hsl<S, f64>, f64, 1e-6);
                    old_api!("Hsv/f64", palette::Hsv<S, f64>, f64, 1e-6);
                    old_api!("Hwb/f64", palette::Hwb<S, f64>, f64, 1e-6);
                    old_api!("Hsluv/f64", palette::Hsluv<W, f64>, f64, 1e-6);
                    old_api!("Oklab/f64", palette::Oklab<f64>, f64, 1e-4);
                    old_api!("Oklch/f64", palette::Oklch<f64>, f64, 1e-4);
                    old_api!("Okhsl/f64", palette::Okhsl<f64>, f64, 1e-4);
                    old_api!("Okhwb/f64", palette::Okhwb<f64>, f64, 1e-4);
                    old_api!("Lab/f32", palette::Lab<W, f32>, f32, 2e-4);
                    old_api!("Hsv/f32", palette::Hsv<S, f32>, f32, 2e-4);
                    old_api!("Lchuv/f32", palette::Lchuv<W, f32>, f32, 2e-4);
                }
                // Rgb -> Luma encodes and decodes the luminance: at the sRGB knee the two published constants leave a step < 1e-6
                if !((rl - r).abs() <= 1e-6 * r) {
                    m.violate("Luma", "contrast_luma_vs_rgb", inp(), fjson(rl), fjson(r), "");
                }
                m.cell(((r * 2.0) as u64).min(63));
            }
            vec![m]
        });
        // ratios that hit a threshold bit-exactly: linear luma on a decimal grid (0.0 vs 0.1 -> 3.0, 0.0 vs 0.175 -> 4.5, ...)
        let mut res = res;
        if !ctx.replaying() {
            let m = res.iter_mut().find(|m| m.name == mname).unwrap();
            let mut exact = 0u64;
            macro_rules! grid {
                ($T:ty, $name:expr) => {{
                    for i in 0..=1000u32 {
                        for j in i..=1000u32 {
                            let (la, lb) = (i as $T / 1000.0, j as $T / 1000.0);
                            let (a, b) = (palette::LinLuma::<palette::white_point::D65, $T>::new(la), palette::LinLuma::<palette::white_point::D65, $T>::new(lb));
                            let r = a.relative_contrast(b);
                            let preds = [
                                (a.has_min_contrast_text(b), 4.5, "min_text"),
                                (a.has_min_contrast_large_text(b), 3.0, "min_large_text"),
                                (a.has_enhanced_contrast_text(b), 7.0, "enhanced_text"),
                                (a.has_enhanced_contrast_large_text(b), 4.5, "enhanced_large_text"),
                                (a.has_min_contrast_graphics(b), 3.0, "min_graphics"),
                            ];
                            m.eval();
                            for (p, k, name) in preds {
                                if r == k {
                                    exact += 1;
                                }
                                if p != (r >= k) {
                                    m.violate($name, &format!("predicate_{}", name), json!({"bits": null, "linear_luma1": la as f64, "linear_luma2": lb as f64}), json!(p), json!({"ratio": r as f64, "threshold": k as f64}), "a ratio equal to the threshold meets it");
                                }
                            }
                        }
                    }
                }};
            }
            grid!(f32, "LinLuma/f32");
            grid!(f64, "LinLuma/f64");
            m.counters.insert("ratios_exactly_on_a_threshold".into(), exact);
            m.cell(1000);
        }
        for mut m in res {
            m.tolerance = Some("2e-6 relative (f32 2e-5) to (L1+0.05)/(L2+0.05) with L = luminance row of the derived sRGB matrix; symmetry and predicates exact".into());
            m.sample(|| json!({"a": [1.0, 1.0, 1.0], "b": [0.0, 0.0, 0.0], "ratio": Srgb::<f64>::new(1.0, 1.0, 1.0).relative_contrast(Srgb::new(0.0, 0.0, 0.0))}));
            report.add(m);
        }
    }
    report.finish();
}
