//! C13 — in-place conversion equals out-of-place conversion and guards restore on drop.
//!
//! Oracle: a shadow buffer maintained with the ordinary (out-of-place) conversions; the same
//! logical program (convert, write through the guard, chain, restore / drop / forget) is applied
//! to both and compared after every step, together with address / length / capacity. The same
//! driver runs natively (ub_checks), under Miri and under ASan. `map_vec_in_place` and
//! `map_slice_box_in_place` are additionally driven with a drop-counting component type and a
//! closure that panics at every step k.

#![allow(clippy::all)]
use palette::cast::{self, ArrayCast};
use palette::convert::{FromColorMut, FromColorMutGuard, FromColorUnclampedMut, FromColorUnclampedMutGuard};
use palette::rgb::Rgb;
use palette::*;
use pvmon::report::{Ctx, Monitor, Report};
use pvmon::{json, Rng, Value};
use std::cell::RefCell;
use std::panic::{catch_unwind, AssertUnwindSafe};
use std::rc::Rc;

type A3 = [f32; 3];

fn beq(a: &A3, b: &A3) -> bool {
    (0..3).all(|i| a[i].to_bits() == b[i].to_bits() || (a[i].is_nan() && b[i].is_nan()))
}
fn bv(a: &A3) -> Value {
    json!(a.iter().map(|x| format!("{:#010x}", x.to_bits())).collect::<Vec<_>>())
}
fn arrs<X: ArrayCast<Array = A3> + Clone>(xs: &[X]) -> Vec<A3> {
    xs.iter().map(|x| cast::into_array(x.clone())).collect()
}
fn all_eq(a: &[A3], b: &[A3]) -> bool {
    a.len() == b.len() && a.iter().zip(b).all(|(x, y)| beq(x, y))
}

trait Col: ArrayCast<Array = A3> + Clone + 'static {}
impl<X: ArrayCast<Array = A3> + Clone + 'static> Col for X {}

/// Either kind of guard over the same buffer.
enum G<'a, X, U>
where
    X: FromColorMut<U> + FromColorUnclampedMut<U> + ?Sized,
    U: FromColorMut<X> + FromColorUnclampedMut<X> + ?Sized,
{
    C(FromColorMutGuard<'a, X, U>),
    Un(FromColorUnclampedMutGuard<'a, X, U>),
}

struct Obs<'a> {
    m: &'a mut Monitor,
    inst: String,
    ops: Vec<String>,
    input: Vec<A3>,
    failed: bool,
    lean: bool,
    rng_state: u64,
}
impl<'a> Obs<'a> {
    fn check(&mut self, cond: bool, class: &str, detail: impl FnOnce() -> Value) {
        self.m.eval();
        if !cond && !self.failed {
            self.failed = true;
            let d = detail();
            self.m.violate(&self.inst, class, json!({"rng_state": format!("{:#018x}", self.rng_state), "len": self.input.len(), "input": self.input.iter().map(bv).collect::<Vec<_>>(), "program": self.ops}), d, json!("equal to the out-of-place shadow"), "");
        }
    }
}

#[derive(Clone, Copy, Debug)]
struct Plan {
    first_clamped: bool,
    switch1: bool,
    step2_clamped: bool,
    step3_clamped: bool,
    write_at: [Option<usize>; 3],
    end: u8, // 0 drop, 1 restore, 2 forget
}

fn plan(rng: &mut Rng, len: usize) -> Plan {
    let mut w = [None; 3];
    for s in w.iter_mut() {
        if len > 0 && rng.chance(0.6) {
            *s = Some(rng.below(len as u64) as usize);
        }
    }
    Plan { first_clamped: rng.chance(0.5), switch1: rng.chance(0.3), step2_clamped: rng.chance(0.5), step3_clamped: rng.chance(0.5), write_at: w, end: rng.below(3) as u8 }
}

fn newval(rng: &mut Rng) -> A3 {
    [rng.range(-0.25, 1.25) as f32, rng.range(-0.25, 1.25) as f32, rng.range(0.0, 1.0) as f32]
}

macro_rules! conv {
    ($To:ty, $clamped:expr, $x:expr) => {
        if $clamped {
            cast::into_array(<$To as FromColor<_>>::from_color($x))
        } else {
            cast::into_array(<$To as convert::FromColorUnclamped<_>>::from_color_unclamped($x))
        }
    };
}

/// program over a slice buffer: U --(T)--> [--(C)--> [--(D)]] then end.
fn run_slice<U, T, C, D>(o: &mut Obs, depth: usize, init: &[A3], p: Plan, rng: &mut Rng)
where
    U: Col + FromColor<T> + FromColor<C> + FromColor<D> + convert::FromColorUnclamped<T> + convert::FromColorUnclamped<C> + convert::FromColorUnclamped<D>,
    T: Col + FromColor<U> + FromColor<C> + convert::FromColorUnclamped<U> + convert::FromColorUnclamped<C>,
    C: Col + FromColor<U> + FromColor<T> + FromColor<D> + convert::FromColorUnclamped<U> + convert::FromColorUnclamped<T> + convert::FromColorUnclamped<D>,
    D: Col + FromColor<U> + FromColor<C> + convert::FromColorUnclamped<U> + convert::FromColorUnclamped<C>,
{
    let mut buf: Vec<U> = init.iter().map(|a| cast::from_array::<U>(*a)).collect();
    let (ptr, len, cap) = (buf.as_ptr() as usize, buf.len(), buf.capacity());
    let mut shadow: Vec<A3> = init.to_vec();
    // kind of the last conversion decides how the end converts back? No: drop/restore of a
    // clamped guard converts back with from_color, of an unclamped guard with from_color_unclamped.
    let mut cur_clamped;
    {
        // step 1
        o.ops.push(format!("from_color{}_mut", if p.first_clamped { "" } else { "_unclamped" }));
        let mut g1: G<[T], [U]> = if p.first_clamped { G::C(<[T]>::from_color_mut(&mut buf[..])) } else { G::Un(<[T]>::from_color_unclamped_mut(&mut buf[..])) };
        cur_clamped = p.first_clamped;
        for s in shadow.iter_mut() {
            *s = conv!(T, p.first_clamped, cast::from_array::<U>(*s));
        }
        {
            let view: &[T] = match &g1 {
                G::C(g) => &**g,
                G::Un(g) => &**g,
            };
            o.check(view.as_ptr() as usize == ptr && view.len() == len, "guard_same_memory", || json!({"step": 1}));
            o.check(all_eq(&arrs(view), &shadow), "guard_holds_converted", || json!({"step": 1, "got": arrs(view).iter().map(bv).collect::<Vec<_>>(), "want": shadow.iter().map(bv).collect::<Vec<_>>()}));
        }
        if let Some(i) = p.write_at[0] {
            let v = newval(rng);
            o.ops.push(format!("write[{}]", i));
            match &mut g1 {
                G::C(g) => g[i] = cast::from_array::<T>(v),
                G::Un(g) => g[i] = cast::from_array::<T>(v),
            }
            shadow[i] = v;
        }
        if p.switch1 {
            o.ops.push("switch_guard_kind".into());
            g1 = match g1 {
                G::C(g) => G::Un(g.into_unclamped_guard()),
                G::Un(g) => G::C(g.into_clamped_guard()),
            };
            cur_clamped = !cur_clamped;
        }
        if depth == 1 {
            end_guard::<T, U>(o, g1, &mut shadow, cur_clamped, p.end);
        } else {
            // step 2
            o.ops.push(format!("then_into_color{}_mut", if p.step2_clamped { "" } else { "_unclamped" }));
            let mut g2: G<[C], [U]> = match (g1, p.step2_clamped) {
                (G::C(g), true) => G::C(g.then_into_color_mut::<[C]>()),
                (G::C(g), false) => G::Un(g.then_into_color_unclamped_mut::<[C]>()),
                (G::Un(g), true) => G::C(g.then_into_color_mut::<[C]>()),
                (G::Un(g), false) => G::Un(g.then_into_color_unclamped_mut::<[C]>()),
            };
            cur_clamped = p.step2_clamped;
            for s in shadow.iter_mut() {
                *s = conv!(C, p.step2_clamped, cast::from_array::<T>(*s));
            }
            {
                let view: &[C] = match &g2 {
                    G::C(g) => &**g,
                    G::Un(g) => &**g,
                };
                o.check(view.as_ptr() as usize == ptr && view.len() == len, "guard_same_memory", || json!({"step": 2}));
                o.check(all_eq(&arrs(view), &shadow), "guard_holds_converted", || json!({"step": 2, "got": arrs(view).iter().map(bv).collect::<Vec<_>>(), "want": shadow.iter().map(bv).collect::<Vec<_>>()}));
            }
            if let Some(i) = p.write_at[1] {
                let v = newval(rng);
                o.ops.push(format!("write[{}]", i));
                match &mut g2 {
                    G::C(g) => g[i] = cast::from_array::<C>(v),
                    G::Un(g) => g[i] = cast::from_array::<C>(v),
                }
                shadow[i] = v;
            }
            if depth == 2 {
                end_guard::<C, U>(o, g2, &mut shadow, cur_clamped, p.end);
            } else {
                o.ops.push(format!("then_into_color{}_mut", if p.step3_clamped { "" } else { "_unclamped" }));
                let mut g3: G<[D], [U]> = match (g2, p.step3_clamped) {
                    (G::C(g), true) => G::C(g.then_into_color_mut::<[D]>()),
                    (G::C(g), false) => G::Un(g.then_into_color_unclamped_mut::<[D]>()),
                    (G::Un(g), true) => G::C(g.then_into_color_mut::<[D]>()),
                    (G::Un(g), false) => G::Un(g.then_into_color_unclamped_mut::<[D]>()),
                };
                cur_clamped = p.step3_clamped;
                for s in shadow.iter_mut() {
                    *s = conv!(D, p.step3_clamped, cast::from_array::<C>(*s));
                }
                {
                    let view: &[D] = match &g3 {
                        G::C(g) => &**g,
                        G::Un(g) => &**g,
                    };
                    o.check(all_eq(&arrs(view), &shadow), "guard_holds_converted", || json!({"step": 3, "got": arrs(view).iter().map(bv).collect::<Vec<_>>(), "want": shadow.iter().map(bv).collect::<Vec<_>>()}));
                }
                if let Some(i) = p.write_at[2] {
                    let v = newval(rng);
                    o.ops.push(format!("write[{}]", i));
                    match &mut g3 {
                        G::C(g) => g[i] = cast::from_array::<D>(v),
                        G::Un(g) => g[i] = cast::from_array::<D>(v),
                    }
                    shadow[i] = v;
                }
                end_guard::<D, U>(o, g3, &mut shadow, cur_clamped, p.end);
            }
        }
    }
    o.check(buf.as_ptr() as usize == ptr && buf.len() == len && buf.capacity() == cap, "buffer_same_address_len_cap", || json!({"len": buf.len(), "cap": buf.capacity()}));
    o.check(all_eq(&arrs(&buf), &shadow), "buffer_after_end", || json!({"end": p.end, "got": arrs(&buf).iter().map(bv).collect::<Vec<_>>(), "want": shadow.iter().map(bv).collect::<Vec<_>>()}));
}

/// End a guard over [X] with original [U]; updates the shadow accordingly.
fn end_guard<X, U>(o: &mut Obs, g: G<[X], [U]>, shadow: &mut Vec<A3>, clamped: bool, end: u8)
where
    X: Col + FromColor<U> + convert::FromColorUnclamped<U>,
    U: Col + FromColor<X> + convert::FromColorUnclamped<X>,
{
    match end {
        0 => {
            o.ops.push("drop".into());
            drop(g);
            for s in shadow.iter_mut() {
                *s = conv!(U, clamped, cast::from_array::<X>(*s));
            }
            o.m.count("guard_drops");
        }
        1 => {
            o.ops.push("restore".into());
            for s in shadow.iter_mut() {
                *s = conv!(U, clamped, cast::from_array::<X>(*s));
            }
            let r: &mut [U] = match g {
                G::C(g) => g.restore(),
                G::Un(g) => g.restore(),
            };
            let got = arrs(r);
            o.check(all_eq(&got, shadow), "restore_returns_original_type_values", || json!({"got": got.iter().map(bv).collect::<Vec<_>>(), "want": shadow.iter().map(bv).collect::<Vec<_>>()}));
            o.m.count("guard_restores");
        }
        _ => {
            o.ops.push("forget".into());
            core::mem::forget(g);
            // the buffer keeps the bits of the converted state
            o.m.count("guard_forgets");
        }
    }
}

/// single value, Vec and Box forms for one ordered pair
fn run_pair_forms<U, T>(o: &mut Obs, init: &[A3], rng: &mut Rng)
where
    U: Col + FromColor<T> + convert::FromColorUnclamped<T>,
    T: Col + FromColor<U> + convert::FromColorUnclamped<U>,
    // stated explicitly so that they are resolved on the concrete types at each instantiation
    // (a change of the bounds of these impls must not stop the harness from compiling)
    Vec<T>: FromColor<Vec<U>> + convert::FromColorUnclamped<Vec<U>>,
    Vec<U>: FromColor<Vec<T>> + convert::FromColorUnclamped<Vec<T>>,
    Box<[T]>: FromColor<Box<[U]>> + convert::FromColorUnclamped<Box<[U]>>,
    T: FromColorMut<U> + FromColorUnclampedMut<U>,
    U: FromColorMut<T> + FromColorUnclampedMut<T>,
{
    // ---- single value through IntoColorMut ----
    if let Some(a) = init.first() {
        for clamped in [true, false] {
            let mut u: U = cast::from_array(*a);
            let p0 = &u as *const U as usize;
            let want = conv!(T, clamped, cast::from_array::<U>(*a));
            let wv = newval(rng);
            let end = rng.below(3);
            o.ops.push(format!("single clamped={} end={}", clamped, end));
            if clamped {
                let mut g = <T as FromColorMut<U>>::from_color_mut(&mut u);
                o.check(&*g as *const T as usize == p0 && beq(&cast::into_array((*g).clone()), &want), "single_guard_value", || json!({"got": bv(&cast::into_array((*g).clone())), "want": bv(&want)}));
                *g = cast::from_array(wv);
                match end {
                    0 => drop(g),
                    1 => {
                        let r = g.restore();
                        o.check(r as *mut U as usize == p0, "single_restore_same_memory", || json!({}));
                    }
                    _ => core::mem::forget(g),
                }
            } else {
                let mut g = <T as FromColorUnclampedMut<U>>::from_color_unclamped_mut(&mut u);
                o.check(&*g as *const T as usize == p0 && beq(&cast::into_array((*g).clone()), &want), "single_guard_value", || json!({"got": bv(&cast::into_array((*g).clone())), "want": bv(&want)}));
                *g = cast::from_array(wv);
                match end {
                    0 => drop(g),
                    1 => {
                        let r = g.restore();
                        o.check(r as *mut U as usize == p0, "single_restore_same_memory", || json!({}));
                    }
                    _ => core::mem::forget(g),
                }
            }
            let want_end = if end == 2 { wv } else { conv!(U, clamped, cast::from_array::<T>(wv)) };
            o.check(beq(&cast::into_array(u.clone()), &want_end), "single_after_end", || json!({"end": end, "clamped": clamped, "got": bv(&cast::into_array(u.clone())), "want": bv(&want_end)}));
        }
    }
    // ---- Vec and Box<[T]> (by value, in place) ----
    for clamped in [true, false] {
        let extra = rng.below(3) as usize;
        let mut v: Vec<U> = Vec::with_capacity(init.len() + extra);
        v.extend(init.iter().map(|a| cast::from_array::<U>(*a)));
        let (p, l, c) = (v.as_ptr() as usize, v.len(), v.capacity());
        let want: Vec<A3> = init.iter().map(|a| conv!(T, clamped, cast::from_array::<U>(*a))).collect();
        o.ops.push(format!("vec clamped={}", clamped));
        let tv: Vec<T> = if clamped { <Vec<T> as FromColor<Vec<U>>>::from_color(v) } else { <Vec<T> as convert::FromColorUnclamped<Vec<U>>>::from_color_unclamped(v) };
        o.check(tv.as_ptr() as usize == p && tv.len() == l && tv.capacity() == c, "vec_same_address_len_cap", || json!({"len": tv.len(), "cap": tv.capacity(), "want_len": l, "want_cap": c}));
        o.check(all_eq(&arrs(&tv), &want), "vec_values", || json!({"got": arrs(&tv).iter().map(bv).collect::<Vec<_>>(), "want": want.iter().map(bv).collect::<Vec<_>>()}));
        // and back, chaining a second in-place conversion on the same allocation
        let want2: Vec<A3> = want.iter().map(|a| conv!(U, clamped, cast::from_array::<T>(*a))).collect();
        let uv: Vec<U> = if clamped { <Vec<U> as FromColor<Vec<T>>>::from_color(tv) } else { <Vec<U> as convert::FromColorUnclamped<Vec<T>>>::from_color_unclamped(tv) };
        o.check(uv.as_ptr() as usize == p && uv.len() == l && uv.capacity() == c && all_eq(&arrs(&uv), &want2), "vec_chain_back", || json!({}));
        let b: Box<[U]> = init.iter().map(|a| cast::from_array::<U>(*a)).collect::<Vec<U>>().into_boxed_slice();
        let (p, l) = (b.as_ptr() as usize, b.len());
        o.ops.push(format!("box clamped={}", clamped));
        let tb: Box<[T]> = if clamped { <Box<[T]> as FromColor<Box<[U]>>>::from_color(b) } else { <Box<[T]> as convert::FromColorUnclamped<Box<[U]>>>::from_color_unclamped(b) };
        o.check((l == 0 || tb.as_ptr() as usize == p) && tb.len() == l, "box_same_address_len", || json!({"len": tb.len()}));
        o.check(all_eq(&arrs(&tb), &want), "box_values", || json!({"got": arrs(&tb).iter().map(bv).collect::<Vec<_>>(), "want": want.iter().map(bv).collect::<Vec<_>>()}));
    }
}

fn gen_input(rng: &mut Rng, len: usize, scale: f32) -> Vec<A3> {
    (0..len)
        .map(|_| match rng.below(4) {
            0 => [0.0, 0.0, 0.0],
            1 => [rng.unit() as f32 * scale, rng.unit() as f32 * scale, rng.unit() as f32 * scale],
            2 => [rng.range(-0.3, 1.3) as f32 * scale, rng.range(-0.3, 1.3) as f32 * scale, rng.range(-0.3, 1.3) as f32 * scale],
            _ => [scale * *rng.pick(&[0.0f32, 1.0, 0.5]), scale * *rng.pick(&[0.0f32, 1.0, 0.5]), scale * *rng.pick(&[0.0f32, 1.0, 0.25])],
        })
        .collect()
}

fn driver<U, T, C, D>(m: &mut Monitor, ctx: &Ctx, name: &'static str, depth: usize, scale: f32)
where
    U: Col + FromColor<T> + FromColor<C> + FromColor<D> + convert::FromColorUnclamped<T> + convert::FromColorUnclamped<C> + convert::FromColorUnclamped<D>,
    T: Col + FromColor<U> + FromColor<C> + convert::FromColorUnclamped<U> + convert::FromColorUnclamped<C>,
    C: Col + FromColor<U> + FromColor<T> + FromColor<D> + convert::FromColorUnclamped<U> + convert::FromColorUnclamped<T> + convert::FromColorUnclamped<D>,
    D: Col + FromColor<U> + FromColor<C> + convert::FromColorUnclamped<U> + convert::FromColorUnclamped<C>,
    Vec<T>: FromColor<Vec<U>> + convert::FromColorUnclamped<Vec<U>>,
    Vec<U>: FromColor<Vec<T>> + convert::FromColorUnclamped<Vec<T>>,
    Box<[T]>: FromColor<Box<[U]>> + convert::FromColorUnclamped<Box<[U]>>,
    T: FromColorMut<U> + FromColorUnclampedMut<U>,
    U: FromColorMut<T> + FromColorUnclampedMut<T>,
{
    let replay = ctx.replay_input("inplace_programs", name);
    if ctx.replaying() && replay.is_none() {
        return;
    }
    if ctx.nshards > 1 && pvmon::rng::hash_str(name) % ctx.nshards != ctx.shard {
        return;
    }
    let lean = ctx.mode != "native" && ctx.mode != "native-dev";
    let mut rng = ctx.rng(&format!("inplace{}", name), 0);
    let nprog = if ctx.is_miri() { ctx.n(2, 24) } else if lean { ctx.n(40, 2000) } else { ctx.n(400, 8000) };
    m.count("chains");
    for k in 0..nprog {
        let mut len = if ctx.is_miri() { [0usize, 1, 3, 2, 5][(k % 5) as usize] } else { (k % 10) as usize };
        if let Some(inp) = &replay {
            rng = Rng(u64::from_str_radix(inp["rng_state"].as_str().unwrap().trim_start_matches("0x"), 16).unwrap());
            len = inp["len"].as_u64().unwrap() as usize;
        }
        let state0 = rng.0;
        let init = gen_input(&mut rng, len, scale);
        let p = plan(&mut rng, len);
        let mut o = Obs { m: &mut *m, inst: name.to_string(), ops: vec![], input: init.clone(), failed: false, lean, rng_state: state0 };
        run_slice::<U, T, C, D>(&mut o, depth, &init, p, &mut rng);
        if depth == 1 {
            run_pair_forms::<U, T>(&mut o, &init, &mut rng);
        }
        if !lean {
            let cellk = (p.first_clamped as u64) | (p.switch1 as u64) << 1 | (p.step2_clamped as u64) << 2 | (p.step3_clamped as u64) << 3 | (p.end as u64) << 4 | (len as u64) << 6 | (p.write_at.iter().filter(|w| w.is_some()).count() as u64) << 10;
            o.m.cell(pvmon::rng::mix(pvmon::rng::hash_str(name), cellk));
            if k == 1 {
                let ops = o.ops.clone();
                o.m.sample(|| json!({"chain": name, "len": len, "program": ops}));
            }
        } else {
            o.m.cell(pvmon::rng::mix(pvmon::rng::hash_str(name), k));
        }
        o.m.count("programs");
        if replay.is_some() {
            break;
        }
    }
}

// ------------------------------------------------------------------------------------------
// map_vec_in_place / map_slice_box_in_place with an owning component and a panicking closure

#[derive(Clone)]
struct Tok {
    id: usize,
    table: Rc<RefCell<Vec<u8>>>,
    heap: Box<u32>,
}
impl Drop for Tok {
    fn drop(&mut self) {
        self.table.borrow_mut()[self.id] += 1;
        assert_eq!(*self.heap, self.id as u32 ^ 0x5a5a);
    }
}
#[repr(C)]
struct PairA {
    x: Tok,
    y: Tok,
}
#[repr(C)]
struct PairB {
    p: Tok,
    q: Tok,
}
unsafe impl ArrayCast for PairA {
    type Array = [Tok; 2];
}
unsafe impl ArrayCast for PairB {
    type Array = [Tok; 2];
}

fn map_in_place(m: &mut Monitor, ctx: &Ctx) {
    if ctx.replaying() && ctx.replay_input("map_in_place_drops", "tokens").is_none() {
        return;
    }
    if ctx.nshards > 1 && ctx.shard != 0 {
        return;
    }
    let maxlen = if ctx.is_miri() { 3 } else { 6 };
    for boxed in [false, true] {
        for len in 0..=maxlen {
            for panic_at in (0..=len).map(Some).chain([None]) {
                // panic_at == Some(k): the closure panics when called for element k (k == len: never)
                let table = Rc::new(RefCell::new(vec![0u8; 2 * len + 2]));
                let mk = |i: usize| Tok { id: i, table: table.clone(), heap: Box::new(i as u32 ^ 0x5a5a) };
                let items: Vec<PairA> = (0..len).map(|e| PairA { x: mk(2 * e), y: mk(2 * e + 1) }).collect();
                let t2 = table.clone();
                let r = catch_unwind(AssertUnwindSafe(|| {
                    let mut calls = 0usize;
                    let f = |a: PairA| -> PairB {
                        if Some(calls) == panic_at {
                            panic!("injected fault in user closure at element {}", calls);
                        }
                        calls += 1;
                        // swap the two tokens so that the write-back is observable
                        PairB { p: a.y, q: a.x }
                    };
                    if boxed {
                        let out: Box<[PairB]> = cast::map_slice_box_in_place(items.into_boxed_slice(), f);
                        let ids: Vec<(usize, usize)> = out.iter().map(|b| (b.p.id, b.q.id)).collect();
                        let live_before_drop = t2.borrow().iter().map(|c| *c as usize).sum::<usize>();
                        drop(out);
                        (ids, live_before_drop)
                    } else {
                        let out: Vec<PairB> = cast::map_vec_in_place(items, f);
                        let ids: Vec<(usize, usize)> = out.iter().map(|b| (b.p.id, b.q.id)).collect();
                        let live_before_drop = t2.borrow().iter().map(|c| *c as usize).sum::<usize>();
                        drop(out);
                        (ids, live_before_drop)
                    }
                }));
                m.eval();
                m.count(if boxed { "box_runs" } else { "vec_runs" });
                let counts: Vec<u8> = table.borrow()[..2 * len].to_vec();
                let double = counts.iter().any(|c| *c > 1);
                let inst = "tokens";
                let input = json!({"boxed": boxed, "len": len, "panic_at": panic_at});
                if double {
                    m.violate(inst, "double_drop", input.clone(), json!(counts), json!("every token dropped at most once"), "");
                }
                match (r, panic_at) {
                    (Ok((ids, early)), pa) if pa.map_or(true, |k| k >= len) => {
                        let want: Vec<(usize, usize)> = (0..len).map(|e| (2 * e + 1, 2 * e)).collect();
                        if ids != want || early != 0 || counts.iter().any(|c| *c != 1) {
                            m.violate(inst, "map_result_or_drop_count", input, json!({"ids": ids, "dropped_before_result_drop": early, "final_counts": counts}), json!({"ids": want}), "");
                        }
                    }
                    (Err(_), Some(k)) if k < len => {
                        m.count("panic_points_injected");
                        // documented: nothing else is dropped on panic (leak), the element given to the closure is
                        // owned by it and dropped during unwinding. No token may be dropped twice (checked above).
                        let elem_dropped = counts[2 * k] == 1 && counts[2 * k + 1] == 1;
                        if !elem_dropped {
                            m.violate(inst, "panic_path_element_not_dropped_once", input, json!(counts), json!("the element owned by the panicking closure is dropped exactly once"), "");
                        }
                    }
                    (r, _) => {
                        m.violate(inst, "unexpected_panic_or_completion", input, json!(r.is_ok()), json!("panic iff injected"), "");
                    }
                }
                m.cell(((boxed as u64) << 20) | ((len as u64) << 8) | panic_at.map_or(255, |k| k as u64));
            }
        }
    }
    m.sample(|| json!({"what": "map_vec_in_place with drop-counting tokens, closure panics at element k", "lens": format!("0..={}", maxlen)}));
}

type St = palette::encoding::Srgb;
type Lin = palette::encoding::Linear<St>;
type Wp = palette::white_point::D65;

fn main() {
    let ctx = Ctx::from_args("C13");
    let mut report = Report::new(&ctx);
    pvmon::report::quiet_panics();
    let mut m = Monitor::new(
        "inplace_programs",
        "typed programs over layout-compatible colour types (3 x f32): from_color_mut / from_color_unclamped_mut on slices (lengths 0..=9) with optional write through the guard, guard-kind switch, up to two further then_into_* steps, ended by drop / restore / mem::forget; \
         single values, Vec and Box<[T]> in-place forms; every step compared bit-exactly with a shadow buffer converted out of place, plus address/len/capacity; distinct = (chain, plan flags, length, writes) cells",
    );
    m.tolerance = Some("bit-exact (NaN == NaN)".into());
    m.min_events = 200;
    // all ordered pairs of the 16 Srgb-family types (generated list; equal pairs excluded at compile time)
    driver::<Rgb<St, f32>, Hsl<St, f32>, Xyz<Wp, f32>, Xyz<Wp, f32>>(&mut m, &ctx, "Srgb->Hsl", 1, 1.0);
    driver::<Rgb<St, f32>, Hsv<St, f32>, Xyz<Wp, f32>, Xyz<Wp, f32>>(&mut m, &ctx, "Srgb->Hsv", 1, 1.0);
    driver::<Rgb<St, f32>, Hwb<St, f32>, Xyz<Wp, f32>, Xyz<Wp, f32>>(&mut m, &ctx, "Srgb->Hwb", 1, 1.0);
    driver::<Rgb<St, f32>, Lab<Wp, f32>, Xyz<Wp, f32>, Xyz<Wp, f32>>(&mut m, &ctx, "Srgb->Lab", 1, 1.0);
    driver::<Rgb<St, f32>, Lch<Wp, f32>, Xyz<Wp, f32>, Xyz<Wp, f32>>(&mut m, &ctx, "Srgb->Lch", 1, 1.0);
    driver::<Rgb<St, f32>, Luv<Wp, f32>, Xyz<Wp, f32>, Xyz<Wp, f32>>(&mut m, &ctx, "Srgb->Luv", 1, 1.0);
    driver::<Rgb<St, f32>, Lchuv<Wp, f32>, Xyz<Wp, f32>, Xyz<Wp, f32>>(&mut m, &ctx, "Srgb->Lchuv", 1, 1.0);
    driver::<Rgb<St, f32>, Hsluv<Wp, f32>, Xyz<Wp, f32>, Xyz<Wp, f32>>(&mut m, &ctx, "Srgb->Hsluv", 1, 1.0);
    driver::<Rgb<St, f32>, Xyz<Wp, f32>, Xyz<Wp, f32>, Xyz<Wp, f32>>(&mut m, &ctx, "Srgb->Xyz", 1, 1.0);
    driver::<Rgb<St, f32>, Yxy<Wp, f32>, Xyz<Wp, f32>, Xyz<Wp, f32>>(&mut m, &ctx, "Srgb->Yxy", 1, 1.0);
    driver::<Rgb<St, f32>, Oklab<f32>, Xyz<Wp, f32>, Xyz<Wp, f32>>(&mut m, &ctx, "Srgb->Oklab", 1, 1.0);
    driver::<Rgb<St, f32>, Oklch<f32>, Xyz<Wp, f32>, Xyz<Wp, f32>>(&mut m, &ctx, "Srgb->Oklch", 1, 1.0);
    driver::<Rgb<St, f32>, Okhsl<f32>, Xyz<Wp, f32>, Xyz<Wp, f32>>(&mut m, &ctx, "Srgb->Okhsl", 1, 1.0);
    driver::<Rgb<St, f32>, Okhsv<f32>, Xyz<Wp, f32>, Xyz<Wp, f32>>(&mut m, &ctx, "Srgb->Okhsv", 1, 1.0);
    driver::<Rgb<St, f32>, Okhwb<f32>, Xyz<Wp, f32>, Xyz<Wp, f32>>(&mut m, &ctx, "Srgb->Okhwb", 1, 1.0);
    driver::<Hsl<St, f32>, Rgb<St, f32>, Xyz<Wp, f32>, Xyz<Wp, f32>>(&mut m, &ctx, "Hsl->Srgb", 1, 1.0);
    driver::<Hsl<St, f32>, Hsv<St, f32>, Xyz<Wp, f32>, Xyz<Wp, f32>>(&mut m, &ctx, "Hsl->Hsv", 1, 1.0);
    driver::<Hsl<St, f32>, Hwb<St, f32>, Xyz<Wp, f32>, Xyz<Wp, f32>>(&mut m, &ctx, "Hsl->Hwb", 1, 1.0);
    driver::<Hsl<St, f32>, Lab<Wp, f32>, Xyz<Wp, f32>, Xyz<Wp, f32>>(&mut m, &ctx, "Hsl->Lab", 1, 1.0);
    driver::<Hsl<St, f32>, Lch<Wp, f32>, Xyz<Wp, f32>, Xyz<Wp, f32>>(&mut m, &ctx, "Hsl->Lch", 1, 1.0);
    driver::<Hsl<St, f32>, Luv<Wp, f32>, Xyz<Wp, f32>, Xyz<Wp, f32>>(&mut m, &ctx, "Hsl->Luv", 1, 1.0);
    driver::<Hsl<St, f32>, Lchuv<Wp, f32>, Xyz<Wp, f32>, Xyz<Wp, f32>>(&mut m, &ctx, "Hsl->Lchuv", 1, 1.0);
    driver::<Hsl<St, f32>, Hsluv<Wp, f32>, Xyz<Wp, f32>, Xyz<Wp, f32>>(&mut m, &ctx, "Hsl->Hsluv", 1, 1.0);
    driver::<Hsl<St, f32>, Xyz<Wp, f32>, Xyz<Wp, f32>, Xyz<Wp, f32>>(&mut m, &ctx, "Hsl->Xyz", 1, 1.0);
    driver::<Hsl<St, f32>, Yxy<Wp, f32>, Xyz<Wp, f32>, Xyz<Wp, f32>>(&mut m, &ctx, "Hsl->Yxy", 1, 1.0);
    driver::<Hsl<St, f32>, Oklab<f32>, Xyz<Wp, f32>, Xyz<Wp, f32>>(&mut m, &ctx, "Hsl->Oklab", 1, 1.0);
    driver::<Hsl<St, f32>, Oklch<f32>, Xyz<Wp, f32>, Xyz<Wp, f32>>(&mut m, &ctx, "Hsl->Oklch", 1, 1.0);
    driver::<Hsl<St, f32>, Okhsl<f32>, Xyz<Wp, f32>, Xyz<Wp, f32>>(&mut m, &ctx, "Hsl->Okhsl", 1, 1.0);
    driver::<Hsl<St, f32>, Okhsv<f32>, Xyz<Wp, f32>, Xyz<Wp, f32>>(&mut m, &ctx, "Hsl->Okhsv", 1, 1.0);
    driver::<Hsl<St, f32>, Okhwb<f32>, Xyz<Wp, f32>, Xyz<Wp, f32>>(&mut m, &ctx, "Hsl->Okhwb", 1, 1.0);
    driver::<Hsv<St, f32>, Rgb<St, f32>, Xyz<Wp, f32>, Xyz<Wp, f32>>(&mut m, &ctx, "Hsv->Srgb", 1, 1.0);
    driver::<Hsv<St, f32>, Hsl<St, f32>, Xyz<Wp, f32>, Xyz<Wp, f32>>(&mut m, &ctx, "Hsv->Hsl", 1, 1.0);
    driver::<Hsv<St, f32>, Hwb<St, f32>, Xyz<Wp, f32>, Xyz<Wp, f32>>(&mut m, &ctx, "Hsv->Hwb", 1, 1.0);
    driver::<Hsv<St, f32>, Lab<Wp, f32>, Xyz<Wp, f32>, Xyz<Wp, f32>>(&mut m, &ctx, "Hsv->Lab", 1, 1.0);
    driver::<Hsv<St, f32>, Lch<Wp, f32>, Xyz<Wp, f32>, Xyz<Wp, f32>>(&mut m, &ctx, "Hsv->Lch", 1, 1.0);
    driver::<Hsv<St, f32>, Luv<Wp, f32>, Xyz<Wp, f32>, Xyz<Wp, f32>>(&mut m, &ctx, "Hsv->Luv", 1, 1.0);
    driver::<Hsv<St, f32>, Lchuv<Wp, f32>, Xyz<Wp, f32>, Xyz<Wp, f32>>(&mut m, &ctx, "Hsv->Lchuv", 1, 1.0);
    driver::<Hsv<St, f32>, Hsluv<Wp, f32>, Xyz<Wp, f32>, Xyz<Wp, f32>>(&mut m, &ctx, "Hsv->Hsluv", 1, 1.0);
    driver::<Hsv<St, f32>, Xyz<Wp, f32>, Xyz<Wp, f32>, Xyz<Wp, f32>>(&mut m, &ctx, "Hsv->Xyz", 1, 1.0);
    driver::<Hsv<St, f32>, Yxy<Wp, f32>, Xyz<Wp, f32>, Xyz<Wp, f32>>(&mut m, &ctx, "Hsv->Yxy", 1, 1.0);
    driver::<Hsv<St, f32>, Oklab<f32>, Xyz<Wp, f32>, Xyz<Wp, f32>>(&mut m, &ctx, "Hsv->Oklab", 1, 1.0);
    driver::<Hsv<St, f32>, Oklch<f32>, Xyz<Wp, f32>, Xyz<Wp, f32>>(&mut m, &ctx, "Hsv->Oklch", 1, 1.0);
    driver::<Hsv<St, f32>, Okhsl<f32>, Xyz<Wp, f32>, Xyz<Wp, f32>>(&mut m, &ctx, "Hsv->Okhsl", 1, 1.0);
    driver::<Hsv<St, f32>, Okhsv<f32>, Xyz<Wp, f32>, Xyz<Wp, f32>>(&mut m, &ctx, "Hsv->Okhsv", 1, 1.0);
    driver::<Hsv<St, f32>, Okhwb<f32>, Xyz<Wp, f32>, Xyz<Wp, f32>>(&mut m, &ctx, "Hsv->Okhwb", 1, 1.0);
    driver::<Hwb<St, f32>, Rgb<St, f32>, Xyz<Wp, f32>, Xyz<Wp, f32>>(&mut m, &ctx, "Hwb->Srgb", 1, 1.0);
    driver::<Hwb<St, f32>, Hsl<St, f32>, Xyz<Wp, f32>, Xyz<Wp, f32>>(&mut m, &ctx, "Hwb->Hsl", 1, 1.0);
    driver::<Hwb<St, f32>, Hsv<St, f32>, Xyz<Wp, f32>, Xyz<Wp, f32>>(&mut m, &ctx, "Hwb->Hsv", 1, 1.0);
    driver::<Hwb<St, f32>, Lab<Wp, f32>, Xyz<Wp, f32>, Xyz<Wp, f32>>(&mut m, &ctx, "Hwb->Lab", 1, 1.0);
    driver::<Hwb<St, f32>, Lch<Wp, f32>, Xyz<Wp, f32>, Xyz<Wp, f32>>(&mut m, &ctx, "Hwb->Lch", 1, 1.0);
    driver::<Hwb<St, f32>, Luv<Wp, f32>, Xyz<Wp, f32>, Xyz<Wp, f32>>(&mut m, &ctx, "Hwb->Luv", 1, 1.0);
    driver::<Hwb<St, f32>, Lchuv<Wp, f32>, Xyz<Wp, f32>, Xyz<Wp, f32>>(&mut m, &ctx, "Hwb->Lchuv", 1, 1.0);
    driver::<Hwb<St, f32>, Hsluv<Wp, f32>, Xyz<Wp, f32>, Xyz<Wp, f32>>(&mut m, &ctx, "Hwb->Hsluv", 1, 1.0);
    driver::<Hwb<St, f32>, Xyz<Wp, f32>, Xyz<Wp, f32>, Xyz<Wp, f32>>(&mut m, &ctx, "Hwb->Xyz", 1, 1.0);
    driver::<Hwb<St, f32>, Yxy<Wp, f32>, Xyz<Wp, f32>, Xyz<Wp, f32>>(&mut m, &ctx, "Hwb->Yxy", 1, 1.0);
    driver::<Hwb<St, f32>, Oklab<f32>, Xyz<Wp, f32>, Xyz<Wp, f32>>(&mut m, &ctx, "Hwb->Oklab", 1, 1.0);
    driver::<Hwb<St, f32>, Oklch<f32>, Xyz<Wp, f32>, Xyz<Wp, f32>>(&mut m, &ctx, "Hwb->Oklch", 1, 1.0);
    driver::<Hwb<St, f32>, Okhsl<f32>, Xyz<Wp, f32>, Xyz<Wp, f32>>(&mut m, &ctx, "Hwb->Okhsl", 1, 1.0);
    driver::<Hwb<St, f32>, Okhsv<f32>, Xyz<Wp, f32>, Xyz<Wp, f32>>(&mut m, &ctx, "Hwb->Okhsv", 1, 1.0);
    driver::<Hwb<St, f32>, Okhwb<f32>, Xyz<Wp, f32>, Xyz<Wp, f32>>(&mut m, &ctx, "Hwb->Okhwb", 1, 1.0);
    driver::<Lab<Wp, f32>, Rgb<St, f32>, Xyz<Wp, f32>, Xyz<Wp, f32>>(&mut m, &ctx, "Lab->Srgb", 1, 60.0);
    driver::<Lab<Wp, f32>, Hsl<St, f32>, Xyz<Wp, f32>, Xyz<Wp, f32>>(&mut m, &ctx, "Lab->Hsl", 1, 60.0);
    driver::<Lab<Wp, f32>, Hsv<St, f32>, Xyz<Wp, f32>, Xyz<Wp, f32>>(&mut m, &ctx, "Lab->Hsv", 1, 60.0);
    driver::<Lab<Wp, f32>, Hwb<St, f32>, Xyz<Wp, f32>, Xyz<Wp, f32>>(&mut m, &ctx, "Lab->Hwb", 1, 60.0);
    driver::<Lab<Wp, f32>, Lch<Wp, f32>, Xyz<Wp, f32>, Xyz<Wp, f32>>(&mut m, &ctx, "Lab->Lch", 1, 60.0);
    driver::<Lab<Wp, f32>, Luv<Wp, f32>, Xyz<Wp, f32>, Xyz<Wp, f32>>(&mut m, &ctx, "Lab->Luv", 1, 60.0);
    driver::<Lab<Wp, f32>, Lchuv<Wp, f32>, Xyz<Wp, f32>, Xyz<Wp, f32>>(&mut m, &ctx, "Lab->Lchuv", 1, 60.0);
    driver::<Lab<Wp, f32>, Hsluv<Wp, f32>, Xyz<Wp, f32>, Xyz<Wp, f32>>(&mut m, &ctx, "Lab->Hsluv", 1, 60.0);
    driver::<Lab<Wp, f32>, Xyz<Wp, f32>, Xyz<Wp, f32>, Xyz<Wp, f32>>(&mut m, &ctx, "Lab->Xyz", 1, 60.0);
    driver::<Lab<Wp, f32>, Yxy<Wp, f32>, Xyz<Wp, f32>, Xyz<Wp, f32>>(&mut m, &ctx, "Lab->Yxy", 1, 60.0);
    driver::<Lab<Wp, f32>, Oklab<f32>, Xyz<Wp, f32>, Xyz<Wp, f32>>(&mut m, &ctx, "Lab->Oklab", 1, 60.0);
    driver::<Lab<Wp, f32>, Oklch<f32>, Xyz<Wp, f32>, Xyz<Wp, f32>>(&mut m, &ctx, "Lab->Oklch", 1, 60.0);
    driver::<Lab<Wp, f32>, Okhsl<f32>, Xyz<Wp, f32>, Xyz<Wp, f32>>(&mut m, &ctx, "Lab->Okhsl", 1, 60.0);
    driver::<Lab<Wp, f32>, Okhsv<f32>, Xyz<Wp, f32>, Xyz<Wp, f32>>(&mut m, &ctx, "Lab->Okhsv", 1, 60.0);
    driver::<Lab<Wp, f32>, Okhwb<f32>, Xyz<Wp, f32>, Xyz<Wp, f32>>(&mut m, &ctx, "Lab->Okhwb", 1, 60.0);
    driver::<Lch<Wp, f32>, Rgb<St, f32>, Xyz<Wp, f32>, Xyz<Wp, f32>>(&mut m, &ctx, "Lch->Srgb", 1, 60.0);
    driver::<Lch<Wp, f32>, Hsl<St, f32>, Xyz<Wp, f32>, Xyz<Wp, f32>>(&mut m, &ctx, "Lch->Hsl", 1, 60.0);
    driver::<Lch<Wp, f32>, Hsv<St, f32>, Xyz<Wp, f32>, Xyz<Wp, f32>>(&mut m, &ctx, "Lch->Hsv", 1, 60.0);
    driver::<Lch<Wp, f32>, Hwb<St, f32>, Xyz<Wp, f32>, Xyz<Wp, f32>>(&mut m, &ctx, "Lch->Hwb", 1, 60.0);
    driver::<Lch<Wp, f32>, Lab<Wp, f32>, Xyz<Wp, f32>, Xyz<Wp, f32>>(&mut m, &ctx, "Lch->Lab", 1, 60.0);
    driver::<Lch<Wp, f32>, Luv<Wp, f32>, Xyz<Wp, f32>, Xyz<Wp, f32>>(&mut m, &ctx, "Lch->Luv", 1, 60.0);
    driver::<Lch<Wp, f32>, Lchuv<Wp, f32>, Xyz<Wp, f32>, Xyz<Wp, f32>>(&mut m, &ctx, "Lch->Lchuv", 1, 60.0);
    driver::<Lch<Wp, f32>, Hsluv<Wp, f32>, Xyz<Wp, f32>, Xyz<Wp, f32>>(&mut m, &ctx, "Lch->Hsluv", 1, 60.0);
    driver::<Lch<Wp, f32>, Xyz<Wp, f32>, Xyz<Wp, f32>, Xyz<Wp, f32>>(&mut m, &ctx, "Lch->Xyz", 1, 60.0);
    driver::<Lch<Wp, f32>, Yxy<Wp, f32>, Xyz<Wp, f32>, Xyz<Wp, f32>>(&mut m, &ctx, "Lch->Yxy", 1, 60.0);
    driver::<Lch<Wp, f32>, Oklab<f32>, Xyz<Wp, f32>, Xyz<Wp, f32>>(&mut m, &ctx, "Lch->Oklab", 1, 60.0);
    driver::<Lch<Wp, f32>, Oklch<f32>, Xyz<Wp, f32>, Xyz<Wp, f32>>(&mut m, &ctx, "Lch->Oklch", 1, 60.0);
    driver::<Lch<Wp, f32>, Okhsl<f32>, Xyz<Wp, f32>, Xyz<Wp, f32>>(&mut m, &ctx, "Lch->Okhsl", 1, 60.0);
    driver::<Lch<Wp, f32>, Okhsv<f32>, Xyz<Wp, f32>, Xyz<Wp, f32>>(&mut m, &ctx, "Lch->Okhsv", 1, 60.0);
    driver::<Lch<Wp, f32>, Okhwb<f32>, Xyz<Wp, f32>, Xyz<Wp, f32>>(&mut m, &ctx, "Lch->Okhwb", 1, 60.0);
    driver::<Luv<Wp, f32>, Rgb<St, f32>, Xyz<Wp, f32>, Xyz<Wp, f32>>(&mut m, &ctx, "Luv->Srgb", 1, 60.0);
    driver::<Luv<Wp, f32>, Hsl<St, f32>, Xyz<Wp, f32>, Xyz<Wp, f32>>(&mut m, &ctx, "Luv->Hsl", 1, 60.0);
    driver::<Luv<Wp, f32>, Hsv<St, f32>, Xyz<Wp, f32>, Xyz<Wp, f32>>(&mut m, &ctx, "Luv->Hsv", 1, 60.0);
    driver::<Luv<Wp, f32>, Hwb<St, f32>, Xyz<Wp, f32>, Xyz<Wp, f32>>(&mut m, &ctx, "Luv->Hwb", 1, 60.0);
    driver::<Luv<Wp, f32>, Lab<Wp, f32>, Xyz<Wp, f32>, Xyz<Wp, f32>>(&mut m, &ctx, "Luv->Lab", 1, 60.0);
    driver::<Luv<Wp, f32>, Lch<Wp, f32>, Xyz<Wp, f32>, Xyz<Wp, f32>>(&mut m, &ctx, "Luv->Lch", 1, 60.0);
    driver::<Luv<Wp, f32>, Lchuv<Wp, f32>, Xyz<Wp, f32>, Xyz<Wp, f32>>(&mut m, &ctx, "Luv->Lchuv", 1, 60.0);
    driver::<Luv<Wp, f32>, Hsluv<Wp, f32>, Xyz<Wp, f32>, Xyz<Wp, f32>>(&mut m, &ctx, "Luv->Hsluv", 1, 60.0);
    driver::<Luv<Wp, f32>, Xyz<Wp, f32>, Xyz<Wp, f32>, Xyz<Wp, f32>>(&mut m, &ctx, "Luv->Xyz", 1, 60.0);
    driver::<Luv<Wp, f32>, Yxy<Wp, f32>, Xyz<Wp, f32>, Xyz<Wp, f32>>(&mut m, &ctx, "Luv->Yxy", 1, 60.0);
    driver::<Luv<Wp, f32>, Oklab<f32>, Xyz<Wp, f32>, Xyz<Wp, f32>>(&mut m, &ctx, "Luv->Oklab", 1, 60.0);
    driver::<Luv<Wp, f32>, Oklch<f32>, Xyz<Wp, f32>, Xyz<Wp, f32>>(&mut m, &ctx, "Luv->Oklch", 1, 60.0);
    driver::<Luv<Wp, f32>, Okhsl<f32>, Xyz<Wp, f32>, Xyz<Wp, f32>>(&mut m, &ctx, "Luv->Okhsl", 1, 60.0);
    driver::<Luv<Wp, f32>, Okhsv<f32>, Xyz<Wp, f32>, Xyz<Wp, f32>>(&mut m, &ctx, "Luv->Okhsv", 1, 60.0);
    driver::<Luv<Wp, f32>, Okhwb<f32>, Xyz<Wp, f32>, Xyz<Wp, f32>>(&mut m, &ctx, "Luv->Okhwb", 1, 60.0);
    driver::<Lchuv<Wp, f32>, Rgb<St, f32>, Xyz<Wp, f32>, Xyz<Wp, f32>>(&mut m, &ctx, "Lchuv->Srgb", 1, 60.0);
    driver::<Lchuv<Wp, f32>, Hsl<St, f32>, Xyz<Wp, f32>, Xyz<Wp, f32>>(&mut m, &ctx, "Lchuv->Hsl", 1, 60.0);
    driver::<Lchuv<Wp, f32>, Hsv<St, f32>, Xyz<Wp, f32>, Xyz<Wp, f32>>(&mut m, &ctx, "Lchuv->Hsv", 1, 60.0);
    driver::<Lchuv<Wp, f32>, Hwb<St, f32>, Xyz<Wp, f32>, Xyz<Wp, f32>>(&mut m, &ctx, "Lchuv->Hwb", 1, 60.0);
    driver::<Lchuv<Wp, f32>, Lab<Wp, f32>, Xyz<Wp, f32>, Xyz<Wp, f32>>(&mut m, &ctx, "Lchuv->Lab", 1, 60.0);
    driver::<Lchuv<Wp, f32>, Lch<Wp, f32>, Xyz<Wp, f32>, Xyz<Wp, f32>>(&mut m, &ctx, "Lchuv->Lch", 1, 60.0);
    driver::<Lchuv<Wp, f32>, Luv<Wp, f32>, Xyz<Wp, f32>, Xyz<Wp, f32>>(&mut m, &ctx, "Lchuv->Luv", 1, 60.0);
    driver::<Lchuv<Wp, f32>, Hsluv<Wp, f32>, Xyz<Wp, f32>, Xyz<Wp, f32>>(&mut m, &ctx, "Lchuv->Hsluv", 1, 60.0);
    driver::<Lchuv<Wp, f32>, Xyz<Wp, f32>, Xyz<Wp, f32>, Xyz<Wp, f32>>(&mut m, &ctx, "Lchuv->Xyz", 1, 60.0);
    driver::<Lchuv<Wp, f32>, Yxy<Wp, f32>, Xyz<Wp, f32>, Xyz<Wp, f32>>(&mut m, &ctx, "Lchuv->Yxy", 1, 60.0);
    driver::<Lchuv<Wp, f32>, Oklab<f32>, Xyz<Wp, f32>, Xyz<Wp, f32>>(&mut m, &ctx, "Lchuv->Oklab", 1, 60.0);
    driver::<Lchuv<Wp, f32>, Oklch<f32>, Xyz<Wp, f32>, Xyz<Wp, f32>>(&mut m, &ctx, "Lchuv->Oklch", 1, 60.0);
    driver::<Lchuv<Wp, f32>, Okhsl<f32>, Xyz<Wp, f32>, Xyz<Wp, f32>>(&mut m, &ctx, "Lchuv->Okhsl", 1, 60.0);
    driver::<Lchuv<Wp, f32>, Okhsv<f32>, Xyz<Wp, f32>, Xyz<Wp, f32>>(&mut m, &ctx, "Lchuv->Okhsv", 1, 60.0);
    driver::<Lchuv<Wp, f32>, Okhwb<f32>, Xyz<Wp, f32>, Xyz<Wp, f32>>(&mut m, &ctx, "Lchuv->Okhwb", 1, 60.0);
    driver::<Hsluv<Wp, f32>, Rgb<St, f32>, Xyz<Wp, f32>, Xyz<Wp, f32>>(&mut m, &ctx, "Hsluv->Srgb", 1, 60.0);
    driver::<Hsluv<Wp, f32>, Hsl<St, f32>, Xyz<Wp, f32>, Xyz<Wp, f32>>(&mut m, &ctx, "Hsluv->Hsl", 1, 60.0);
    driver::<Hsluv<Wp, f32>, Hsv<St, f32>, Xyz<Wp, f32>, Xyz<Wp, f32>>(&mut m, &ctx, "Hsluv->Hsv", 1, 60.0);
    driver::<Hsluv<Wp, f32>, Hwb<St, f32>, Xyz<Wp, f32>, Xyz<Wp, f32>>(&mut m, &ctx, "Hsluv->Hwb", 1, 60.0);
    driver::<Hsluv<Wp, f32>, Lab<Wp, f32>, Xyz<Wp, f32>, Xyz<Wp, f32>>(&mut m, &ctx, "Hsluv->Lab", 1, 60.0);
    driver::<Hsluv<Wp, f32>, Lch<Wp, f32>, Xyz<Wp, f32>, Xyz<Wp, f32>>(&mut m, &ctx, "Hsluv->Lch", 1, 60.0);
    driver::<Hsluv<Wp, f32>, Luv<Wp, f32>, Xyz<Wp, f32>, Xyz<Wp, f32>>(&mut m, &ctx, "Hsluv->Luv", 1, 60.0);
    driver::<Hsluv<Wp, f32>, Lchuv<Wp, f32>, Xyz<Wp, f32>, Xyz<Wp, f32>>(&mut m, &ctx, "Hsluv->Lchuv", 1, 60.0);
    driver::<Hsluv<Wp, f32>, Xyz<Wp, f32>, Xyz<Wp, f32>, Xyz<Wp, f32>>(&mut m, &ctx, "Hsluv->Xyz", 1, 60.0);
    driver::<Hsluv<Wp, f32>, Yxy<Wp, f32>, Xyz<Wp, f32>, Xyz<Wp, f32>>(&mut m, &ctx, "Hsluv->Yxy", 1, 60.0);
    driver::<Hsluv<Wp, f32>, Oklab<f32>, Xyz<Wp, f32>, Xyz<Wp, f32>>(&mut m, &ctx, "Hsluv->Oklab", 1, 60.0);
    driver::<Hsluv<Wp, f32>, Oklch<f32>, Xyz<Wp, f32>, Xyz<Wp, f32>>(&mut m, &ctx, "Hsluv->Oklch", 1, 60.0);
    driver::<Hsluv<Wp, f32>, Okhsl<f32>, Xyz<Wp, f32>, Xyz<Wp, f32>>(&mut m, &ctx, "Hsluv->Okhsl", 1, 60.0);
    driver::<Hsluv<Wp, f32>, Okhsv<f32>, Xyz<Wp, f32>, Xyz<Wp, f32>>(&mut m, &ctx, "Hsluv->Okhsv", 1, 60.0);
    driver::<Hsluv<Wp, f32>, Okhwb<f32>, Xyz<Wp, f32>, Xyz<Wp, f32>>(&mut m, &ctx, "Hsluv->Okhwb", 1, 60.0);
    driver::<Xyz<Wp, f32>, Rgb<St, f32>, Xyz<Wp, f32>, Xyz<Wp, f32>>(&mut m, &ctx, "Xyz->Srgb", 1, 1.0);
    driver::<Xyz<Wp, f32>, Hsl<St, f32>, Xyz<Wp, f32>, Xyz<Wp, f32>>(&mut m, &ctx, "Xyz->Hsl", 1, 1.0);
    driver::<Xyz<Wp, f32>, Hsv<St, f32>, Xyz<Wp, f32>, Xyz<Wp, f32>>(&mut m, &ctx, "Xyz->Hsv", 1, 1.0);
    driver::<Xyz<Wp, f32>, Hwb<St, f32>, Xyz<Wp, f32>, Xyz<Wp, f32>>(&mut m, &ctx, "Xyz->Hwb", 1, 1.0);
    driver::<Xyz<Wp, f32>, Lab<Wp, f32>, Xyz<Wp, f32>, Xyz<Wp, f32>>(&mut m, &ctx, "Xyz->Lab", 1, 1.0);
    driver::<Xyz<Wp, f32>, Lch<Wp, f32>, Xyz<Wp, f32>, Xyz<Wp, f32>>(&mut m, &ctx, "Xyz->Lch", 1, 1.0);
    driver::<Xyz<Wp, f32>, Luv<Wp, f32>, Xyz<Wp, f32>, Xyz<Wp, f32>>(&mut m, &ctx, "Xyz->Luv", 1, 1.0);
    driver::<Xyz<Wp, f32>, Lchuv<Wp, f32>, Xyz<Wp, f32>, Xyz<Wp, f32>>(&mut m, &ctx, "Xyz->Lchuv", 1, 1.0);
    driver::<Xyz<Wp, f32>, Hsluv<Wp, f32>, Xyz<Wp, f32>, Xyz<Wp, f32>>(&mut m, &ctx, "Xyz->Hsluv", 1, 1.0);
    driver::<Xyz<Wp, f32>, Yxy<Wp, f32>, Xyz<Wp, f32>, Xyz<Wp, f32>>(&mut m, &ctx, "Xyz->Yxy", 1, 1.0);
    driver::<Xyz<Wp, f32>, Oklab<f32>, Xyz<Wp, f32>, Xyz<Wp, f32>>(&mut m, &ctx, "Xyz->Oklab", 1, 1.0);
    driver::<Xyz<Wp, f32>, Oklch<f32>, Xyz<Wp, f32>, Xyz<Wp, f32>>(&mut m, &ctx, "Xyz->Oklch", 1, 1.0);
    driver::<Xyz<Wp, f32>, Okhsl<f32>, Xyz<Wp, f32>, Xyz<Wp, f32>>(&mut m, &ctx, "Xyz->Okhsl", 1, 1.0);
    driver::<Xyz<Wp, f32>, Okhsv<f32>, Xyz<Wp, f32>, Xyz<Wp, f32>>(&mut m, &ctx, "Xyz->Okhsv", 1, 1.0);
    driver::<Xyz<Wp, f32>, Okhwb<f32>, Xyz<Wp, f32>, Xyz<Wp, f32>>(&mut m, &ctx, "Xyz->Okhwb", 1, 1.0);
    driver::<Yxy<Wp, f32>, Rgb<St, f32>, Xyz<Wp, f32>, Xyz<Wp, f32>>(&mut m, &ctx, "Yxy->Srgb", 1, 1.0);
    driver::<Yxy<Wp, f32>, Hsl<St, f32>, Xyz<Wp, f32>, Xyz<Wp, f32>>(&mut m, &ctx, "Yxy->Hsl", 1, 1.0);
    driver::<Yxy<Wp, f32>, Hsv<St, f32>, Xyz<Wp, f32>, Xyz<Wp, f32>>(&mut m, &ctx, "Yxy->Hsv", 1, 1.0);
    driver::<Yxy<Wp, f32>, Hwb<St, f32>, Xyz<Wp, f32>, Xyz<Wp, f32>>(&mut m, &ctx, "Yxy->Hwb", 1, 1.0);
    driver::<Yxy<Wp, f32>, Lab<Wp, f32>, Xyz<Wp, f32>, Xyz<Wp, f32>>(&mut m, &ctx, "Yxy->Lab", 1, 1.0);
    driver::<Yxy<Wp, f32>, Lch<Wp, f32>, Xyz<Wp, f32>, Xyz<Wp, f32>>(&mut m, &ctx, "Yxy->Lch", 1, 1.0);
    driver::<Yxy<Wp, f32>, Luv<Wp, f32>, Xyz<Wp, f32>, Xyz<Wp, f32>>(&mut m, &ctx, "Yxy->Luv", 1, 1.0);
    driver::<Yxy<Wp, f32>, Lchuv<Wp, f32>, Xyz<Wp, f32>, Xyz<Wp, f32>>(&mut m, &ctx, "Yxy->Lchuv", 1, 1.0);
    driver::<Yxy<Wp, f32>, Hsluv<Wp, f32>, Xyz<Wp, f32>, Xyz<Wp, f32>>(&mut m, &ctx, "Yxy->Hsluv", 1, 1.0);
    driver::<Yxy<Wp, f32>, Xyz<Wp, f32>, Xyz<Wp, f32>, Xyz<Wp, f32>>(&mut m, &ctx, "Yxy->Xyz", 1, 1.0);
    driver::<Yxy<Wp, f32>, Oklab<f32>, Xyz<Wp, f32>, Xyz<Wp, f32>>(&mut m, &ctx, "Yxy->Oklab", 1, 1.0);
    driver::<Yxy<Wp, f32>, Oklch<f32>, Xyz<Wp, f32>, Xyz<Wp, f32>>(&mut m, &ctx, "Yxy->Oklch", 1, 1.0);
    driver::<Yxy<Wp, f32>, Okhsl<f32>, Xyz<Wp, f32>, Xyz<Wp, f32>>(&mut m, &ctx, "Yxy->Okhsl", 1, 1.0);
    driver::<Yxy<Wp, f32>, Okhsv<f32>, Xyz<Wp, f32>, Xyz<Wp, f32>>(&mut m, &ctx, "Yxy->Okhsv", 1, 1.0);
    driver::<Yxy<Wp, f32>, Okhwb<f32>, Xyz<Wp, f32>, Xyz<Wp, f32>>(&mut m, &ctx, "Yxy->Okhwb", 1, 1.0);
    driver::<Oklab<f32>, Rgb<St, f32>, Xyz<Wp, f32>, Xyz<Wp, f32>>(&mut m, &ctx, "Oklab->Srgb", 1, 1.0);
    driver::<Oklab<f32>, Hsl<St, f32>, Xyz<Wp, f32>, Xyz<Wp, f32>>(&mut m, &ctx, "Oklab->Hsl", 1, 1.0);
    driver::<Oklab<f32>, Hsv<St, f32>, Xyz<Wp, f32>, Xyz<Wp, f32>>(&mut m, &ctx, "Oklab->Hsv", 1, 1.0);
    driver::<Oklab<f32>, Hwb<St, f32>, Xyz<Wp, f32>, Xyz<Wp, f32>>(&mut m, &ctx, "Oklab->Hwb", 1, 1.0);
    driver::<Oklab<f32>, Lab<Wp, f32>, Xyz<Wp, f32>, Xyz<Wp, f32>>(&mut m, &ctx, "Oklab->Lab", 1, 1.0);
    driver::<Oklab<f32>, Lch<Wp, f32>, Xyz<Wp, f32>, Xyz<Wp, f32>>(&mut m, &ctx, "Oklab->Lch", 1, 1.0);
    driver::<Oklab<f32>, Luv<Wp, f32>, Xyz<Wp, f32>, Xyz<Wp, f32>>(&mut m, &ctx, "Oklab->Luv", 1, 1.0);
    driver::<Oklab<f32>, Lchuv<Wp, f32>, Xyz<Wp, f32>, Xyz<Wp, f32>>(&mut m, &ctx, "Oklab->Lchuv", 1, 1.0);
    driver::<Oklab<f32>, Hsluv<Wp, f32>, Xyz<Wp, f32>, Xyz<Wp, f32>>(&mut m, &ctx, "Oklab->Hsluv", 1, 1.0);
    driver::<Oklab<f32>, Xyz<Wp, f32>, Xyz<Wp, f32>, Xyz<Wp, f32>>(&mut m, &ctx, "Oklab->Xyz", 1, 1.0);
    driver::<Oklab<f32>, Yxy<Wp, f32>, Xyz<Wp, f32>, Xyz<Wp, f32>>(&mut m, &ctx, "Oklab->Yxy", 1, 1.0);
    driver::<Oklab<f32>, Oklch<f32>, Xyz<Wp, f32>, Xyz<Wp, f32>>(&mut m, &ctx, "Oklab->Oklch", 1, 1.0);
    driver::<Oklab<f32>, Okhsl<f32>, Xyz<Wp, f32>, Xyz<Wp, f32>>(&mut m, &ctx, "Oklab->Okhsl", 1, 1.0);
    driver::<Oklab<f32>, Okhsv<f32>, Xyz<Wp, f32>, Xyz<Wp, f32>>(&mut m, &ctx, "Oklab->Okhsv", 1, 1.0);
    driver::<Oklab<f32>, Okhwb<f32>, Xyz<Wp, f32>, Xyz<Wp, f32>>(&mut m, &ctx, "Oklab->Okhwb", 1, 1.0);
    driver::<Oklch<f32>, Rgb<St, f32>, Xyz<Wp, f32>, Xyz<Wp, f32>>(&mut m, &ctx, "Oklch->Srgb", 1, 1.0);
    driver::<Oklch<f32>, Hsl<St, f32>, Xyz<Wp, f32>, Xyz<Wp, f32>>(&mut m, &ctx, "Oklch->Hsl", 1, 1.0);
    driver::<Oklch<f32>, Hsv<St, f32>, Xyz<Wp, f32>, Xyz<Wp, f32>>(&mut m, &ctx, "Oklch->Hsv", 1, 1.0);
    driver::<Oklch<f32>, Hwb<St, f32>, Xyz<Wp, f32>, Xyz<Wp, f32>>(&mut m, &ctx, "Oklch->Hwb", 1, 1.0);
    driver::<Oklch<f32>, Lab<Wp, f32>, Xyz<Wp, f32>, Xyz<Wp, f32>>(&mut m, &ctx, "Oklch->Lab", 1, 1.0);
    driver::<Oklch<f32>, Lch<Wp, f32>, Xyz<Wp, f32>, Xyz<Wp, f32>>(&mut m, &ctx, "Oklch->Lch", 1, 1.0);
    driver::<Oklch<f32>, Luv<Wp, f32>, Xyz<Wp, f32>, Xyz<Wp, f32>>(&mut m, &ctx, "Oklch->Luv", 1, 1.0);
    driver::<Oklch<f32>, Lchuv<Wp, f32>, Xyz<Wp, f32>, Xyz<Wp, f32>>(&mut m, &ctx, "Oklch->Lchuv", 1, 1.0);
    driver::<Oklch<f32>, Hsluv<Wp, f32>, Xyz<Wp, f32>, Xyz<Wp, f32>>(&mut m, &ctx, "Oklch->Hsluv", 1, 1.0);
    driver::<Oklch<f32>, Xyz<Wp, f32>, Xyz<Wp, f32>, Xyz<Wp, f32>>(&mut m, &ctx, "Oklch->Xyz", 1, 1.0);
    driver::<Oklch<f32>, Yxy<Wp, f32>, Xyz<Wp, f32>, Xyz<Wp, f32>>(&mut m, &ctx, "Oklch->Yxy", 1, 1.0);
    driver::<Oklch<f32>, Oklab<f32>, Xyz<Wp, f32>, Xyz<Wp, f32>>(&mut m, &ctx, "Oklch->Oklab", 1, 1.0);
    driver::<Oklch<f32>, Okhsl<f32>, Xyz<Wp, f32>, Xyz<Wp, f32>>(&mut m, &ctx, "Oklch->Okhsl", 1, 1.0);
    driver::<Oklch<f32>, Okhsv<f32>, Xyz<Wp, f32>, Xyz<Wp, f32>>(&mut m, &ctx, "Oklch->Okhsv", 1, 1.0);
    driver::<Oklch<f32>, Okhwb<f32>, Xyz<Wp, f32>, Xyz<Wp, f32>>(&mut m, &ctx, "Oklch->Okhwb", 1, 1.0);
    driver::<Okhsl<f32>, Rgb<St, f32>, Xyz<Wp, f32>, Xyz<Wp, f32>>(&mut m, &ctx, "Okhsl->Srgb", 1, 1.0);
    driver::<Okhsl<f32>, Hsl<St, f32>, Xyz<Wp, f32>, Xyz<Wp, f32>>(&mut m, &ctx, "Okhsl->Hsl", 1, 1.0);
    driver::<Okhsl<f32>, Hsv<St, f32>, Xyz<Wp, f32>, Xyz<Wp, f32>>(&mut m, &ctx, "Okhsl->Hsv", 1, 1.0);
    driver::<Okhsl<f32>, Hwb<St, f32>, Xyz<Wp, f32>, Xyz<Wp, f32>>(&mut m, &ctx, "Okhsl->Hwb", 1, 1.0);
    driver::<Okhsl<f32>, Lab<Wp, f32>, Xyz<Wp, f32>, Xyz<Wp, f32>>(&mut m, &ctx, "Okhsl->Lab", 1, 1.0);
    driver::<Okhsl<f32>, Lch<Wp, f32>, Xyz<Wp, f32>, Xyz<Wp, f32>>(&mut m, &ctx, "Okhsl->Lch", 1, 1.0);
    driver::<Okhsl<f32>, Luv<Wp, f32>, Xyz<Wp, f32>, Xyz<Wp, f32>>(&mut m, &ctx, "Okhsl->Luv", 1, 1.0);
    driver::<Okhsl<f32>, Lchuv<Wp, f32>, Xyz<Wp, f32>, Xyz<Wp, f32>>(&mut m, &ctx, "Okhsl->Lchuv", 1, 1.0);
    driver::<Okhsl<f32>, Hsluv<Wp, f32>, Xyz<Wp, f32>, Xyz<Wp, f32>>(&mut m, &ctx, "Okhsl->Hsluv", 1, 1.0);
    driver::<Okhsl<f32>, Xyz<Wp, f32>, Xyz<Wp, f32>, Xyz<Wp, f32>>(&mut m, &ctx, "Okhsl->Xyz", 1, 1.0);
    driver::<Okhsl<f32>, Yxy<Wp, f32>, Xyz<Wp, f32>, Xyz<Wp, f32>>(&mut m, &ctx, "Okhsl->Yxy", 1, 1.0);
    driver::<Okhsl<f32>, Oklab<f32>, Xyz<Wp, f32>, Xyz<Wp, f32>>(&mut m, &ctx, "Okhsl->Oklab", 1, 1.0);
    driver::<Okhsl<f32>, Oklch<f32>, Xyz<Wp, f32>, Xyz<Wp, f32>>(&mut m, &ctx, "Okhsl->Oklch", 1, 1.0);
    driver::<Okhsl<f32>, Okhsv<f32>, Xyz<Wp, f32>, Xyz<Wp, f32>>(&mut m, &ctx, "Okhsl->Okhsv", 1, 1.0);
    driver::<Okhsl<f32>, Okhwb<f32>, Xyz<Wp, f32>, Xyz<Wp, f32>>(&mut m, &ctx, "Okhsl->Okhwb", 1, 1.0);
    driver::<Okhsv<f32>, Rgb<St, f32>, Xyz<Wp, f32>, Xyz<Wp, f32>>(&mut m, &ctx, "Okhsv->Srgb", 1, 1.0);
    driver::<Okhsv<f32>, Hsl<St, f32>, Xyz<Wp, f32>, Xyz<Wp, f32>>(&mut m, &ctx, "Okhsv->Hsl", 1, 1.0);
    driver::<Okhsv<f32>, Hsv<St, f32>, Xyz<Wp, f32>, Xyz<Wp, f32>>(&mut m, &ctx, "Okhsv->Hsv", 1, 1.0);
    driver::<Okhsv<f32>, Hwb<St, f32>, Xyz<Wp, f32>, Xyz<Wp, f32>>(&mut m, &ctx, "Okhsv->Hwb", 1, 1.0);
    driver::<Okhsv<f32>, Lab<Wp, f32>, Xyz<Wp, f32>, Xyz<Wp, f32>>(&mut m, &ctx, "Okhsv->Lab", 1, 1.0);
    driver::<Okhsv<f32>, Lch<Wp, f32>, Xyz<Wp, f32>, Xyz<Wp, f32>>(&mut m, &ctx, "Okhsv->Lch", 1, 1.0);
    driver::<Okhsv<f32>, Luv<Wp, f32>, Xyz<Wp, f32>, Xyz<Wp, f32>>(&mut m, &ctx, "Okhsv->Luv", 1, 1.0);
    driver::<Okhsv<f32>, Lchuv<Wp, f32>, Xyz<Wp, f32>, Xyz<Wp, f32>>(&mut m, &ctx, "Okhsv->Lchuv", 1, 1.0);
    driver::<Okhsv<f32>, Hsluv<Wp, f32>, Xyz<Wp, f32>, Xyz<Wp, f32>>(&mut m, &ctx, "Okhsv->Hsluv", 1, 1.0);
    driver::<Okhsv<f32>, Xyz<Wp, f32>, Xyz<Wp, f32>, Xyz<Wp, f32>>(&mut m, &ctx, "Okhsv->Xyz", 1, 1.0);
    driver::<Okhsv<f32>, Yxy<Wp, f32>, Xyz<Wp, f32>, Xyz<Wp, f32>>(&mut m, &ctx, "Okhsv->Yxy", 1, 1.0);
    driver::<Okhsv<f32>, Oklab<f32>, Xyz<Wp, f32>, Xyz<Wp, f32>>(&mut m, &ctx, "Okhsv->Oklab", 1, 1.0);
    driver::<Okhsv<f32>, Oklch<f32>, Xyz<Wp, f32>, Xyz<Wp, f32>>(&mut m, &ctx, "Okhsv->Oklch", 1, 1.0);
    driver::<Okhsv<f32>, Okhsl<f32>, Xyz<Wp, f32>, Xyz<Wp, f32>>(&mut m, &ctx, "Okhsv->Okhsl", 1, 1.0);
    driver::<Okhsv<f32>, Okhwb<f32>, Xyz<Wp, f32>, Xyz<Wp, f32>>(&mut m, &ctx, "Okhsv->Okhwb", 1, 1.0);
    driver::<Okhwb<f32>, Rgb<St, f32>, Xyz<Wp, f32>, Xyz<Wp, f32>>(&mut m, &ctx, "Okhwb->Srgb", 1, 1.0);
    driver::<Okhwb<f32>, Hsl<St, f32>, Xyz<Wp, f32>, Xyz<Wp, f32>>(&mut m, &ctx, "Okhwb->Hsl", 1, 1.0);
    driver::<Okhwb<f32>, Hsv<St, f32>, Xyz<Wp, f32>, Xyz<Wp, f32>>(&mut m, &ctx, "Okhwb->Hsv", 1, 1.0);
    driver::<Okhwb<f32>, Hwb<St, f32>, Xyz<Wp, f32>, Xyz<Wp, f32>>(&mut m, &ctx, "Okhwb->Hwb", 1, 1.0);
    driver::<Okhwb<f32>, Lab<Wp, f32>, Xyz<Wp, f32>, Xyz<Wp, f32>>(&mut m, &ctx, "Okhwb->Lab", 1, 1.0);
    driver::<Okhwb<f32>, Lch<Wp, f32>, Xyz<Wp, f32>, Xyz<Wp, f32>>(&mut m, &ctx, "Okhwb->Lch", 1, 1.0);
    driver::<Okhwb<f32>, Luv<Wp, f32>, Xyz<Wp, f32>, Xyz<Wp, f32>>(&mut m, &ctx, "Okhwb->Luv", 1, 1.0);
    driver::<Okhwb<f32>, Lchuv<Wp, f32>, Xyz<Wp, f32>, Xyz<Wp, f32>>(&mut m, &ctx, "Okhwb->Lchuv", 1, 1.0);
    driver::<Okhwb<f32>, Hsluv<Wp, f32>, Xyz<Wp, f32>, Xyz<Wp, f32>>(&mut m, &ctx, "Okhwb->Hsluv", 1, 1.0);
    driver::<Okhwb<f32>, Xyz<Wp, f32>, Xyz<Wp, f32>, Xyz<Wp, f32>>(&mut m, &ctx, "Okhwb->Xyz", 1, 1.0);
    driver::<Okhwb<f32>, Yxy<Wp, f32>, Xyz<Wp, f32>, Xyz<Wp, f32>>(&mut m, &ctx, "Okhwb->Yxy", 1, 1.0);
    driver::<Okhwb<f32>, Oklab<f32>, Xyz<Wp, f32>, Xyz<Wp, f32>>(&mut m, &ctx, "Okhwb->Oklab", 1, 1.0);
    driver::<Okhwb<f32>, Oklch<f32>, Xyz<Wp, f32>, Xyz<Wp, f32>>(&mut m, &ctx, "Okhwb->Oklch", 1, 1.0);
    driver::<Okhwb<f32>, Okhsl<f32>, Xyz<Wp, f32>, Xyz<Wp, f32>>(&mut m, &ctx, "Okhwb->Okhsl", 1, 1.0);
    driver::<Okhwb<f32>, Okhsv<f32>, Xyz<Wp, f32>, Xyz<Wp, f32>>(&mut m, &ctx, "Okhwb->Okhsv", 1, 1.0);
    // Hsl/Hsv/Hwb<S> only convert to/from Rgb<S'> for S' = S: LinSrgb is paired with the other families
    macro_rules! lin_pairs {
        ($(($B:ty, $bn:expr, $bs:expr)),+) => {$(
            driver::<Rgb<Lin, f32>, $B, Xyz<Wp, f32>, Xyz<Wp, f32>>(&mut m, &ctx, concat!("LinSrgb->", $bn), 1, 1.0);
            driver::<$B, Rgb<Lin, f32>, Xyz<Wp, f32>, Xyz<Wp, f32>>(&mut m, &ctx, concat!($bn, "->LinSrgb"), 1, $bs);
        )+};
    }
    lin_pairs!((Rgb<St, f32>, "Srgb", 1.0f32), (Lab<Wp, f32>, "Lab", 60.0f32), (Lch<Wp, f32>, "Lch", 60.0f32), (Luv<Wp, f32>, "Luv", 60.0f32), (Lchuv<Wp, f32>, "Lchuv", 60.0f32), (Hsluv<Wp, f32>, "Hsluv", 60.0f32),
        (Xyz<Wp, f32>, "Xyz", 1.0f32), (Yxy<Wp, f32>, "Yxy", 1.0f32), (Oklab<f32>, "Oklab", 1.0f32), (Oklch<f32>, "Oklch", 1.0f32), (Okhsl<f32>, "Okhsl", 1.0f32), (Okhsv<f32>, "Okhsv", 1.0f32), (Okhwb<f32>, "Okhwb", 1.0f32));
    // chains of depth 2..3 further steps (fixed pseudo-random set)
    macro_rules! ch {
        ($U:ty, $T:ty, $C:ty, $D:ty, $name:expr, $depth:expr, $s:expr) => {
            driver::<$U, $T, $C, $D>(&mut m, &ctx, $name, $depth, $s);
        };
    }
    ch!(Rgb<St, f32>, Hsl<St, f32>, Lab<Wp, f32>, Oklch<f32>, "Srgb->Hsl->Lab->Oklch", 3, 1.0);
    ch!(Rgb<St, f32>, Rgb<Lin, f32>, Xyz<Wp, f32>, Luv<Wp, f32>, "Srgb->LinSrgb->Xyz->Luv", 3, 1.0);
    ch!(Lab<Wp, f32>, Lch<Wp, f32>, Rgb<St, f32>, Hwb<St, f32>, "Lab->Lch->Srgb->Hwb", 3, 60.0);
    ch!(Hsv<St, f32>, Hwb<St, f32>, Okhsv<f32>, Okhwb<f32>, "Hsv->Hwb->Okhsv->Okhwb", 3, 1.0);
    ch!(Oklab<f32>, Okhsl<f32>, Rgb<St, f32>, Hsluv<Wp, f32>, "Oklab->Okhsl->Srgb->Hsluv", 3, 1.0);
    ch!(Xyz<Wp, f32>, Yxy<Wp, f32>, Lchuv<Wp, f32>, Hsluv<Wp, f32>, "Xyz->Yxy->Lchuv->Hsluv", 3, 1.0);
    ch!(Luv<Wp, f32>, Lchuv<Wp, f32>, Oklab<f32>, Lab<Wp, f32>, "Luv->Lchuv->Oklab->Lab", 3, 60.0);
    ch!(Rgb<Lin, f32>, Oklab<f32>, Oklch<f32>, Okhsv<f32>, "LinSrgb->Oklab->Oklch->Okhsv", 3, 1.0);
    ch!(Hsl<St, f32>, Hsv<St, f32>, Rgb<St, f32>, Xyz<Wp, f32>, "Hsl->Hsv->Srgb->Xyz", 3, 1.0);
    ch!(Okhwb<f32>, Okhsv<f32>, Oklab<f32>, Rgb<Lin, f32>, "Okhwb->Okhsv->Oklab->LinSrgb", 3, 1.0);
    ch!(Rgb<St, f32>, Lab<Wp, f32>, Hsv<St, f32>, Hsv<St, f32>, "Srgb->Lab->Hsv", 2, 1.0);
    ch!(Lch<Wp, f32>, Luv<Wp, f32>, Yxy<Wp, f32>, Yxy<Wp, f32>, "Lch->Luv->Yxy", 2, 60.0);
    ch!(Hwb<St, f32>, Okhsl<f32>, Xyz<Wp, f32>, Xyz<Wp, f32>, "Hwb->Okhsl->Xyz", 2, 1.0);
    ch!(Hsluv<Wp, f32>, Rgb<St, f32>, Oklch<f32>, Oklch<f32>, "Hsluv->Srgb->Oklch", 2, 60.0);
    ch!(Yxy<Wp, f32>, Rgb<Lin, f32>, Lchuv<Wp, f32>, Lchuv<Wp, f32>, "Yxy->LinSrgb->Lchuv", 2, 1.0);
    ch!(Okhsv<f32>, Hsl<St, f32>, Luv<Wp, f32>, Luv<Wp, f32>, "Okhsv->Hsl->Luv", 2, 1.0);
    report.add(m);
    let mut m2 = Monitor::new(
        "map_in_place_drops",
        "cast::map_vec_in_place / map_slice_box_in_place with a component type that owns heap memory and counts drops, lengths 0..=6, user closure panicking at every element k (fault injection at every crash point of the callback); \
         oracle: every token dropped at most once, exactly once after normal completion and result drop, results written back in place; Miri / ASan observe use-after-free and double free; distinct = (container, len, panic point)",
    );
    map_in_place(&mut m2, &ctx);
    report.add(m2);
    report.finish();
}
