//! C03 — clamped, checked and unclamped conversions obey one bounds contract.
//!
//! Oracle: the relations of the contract between real calls + a bounds table typed from the
//! documentation (a disagreement between table and behaviour is itself a violation).

use pvmon::conv_table as ct;
use pvmon::fbits::*;
use pvmon::gen;
use pvmon::refmodel::space::{Space, V3};
use pvmon::report::{bits64, fvec, par, parse_bits64, Ctx, Monitor, Report};
use pvmon::json;

fn same(a: &V3, b: &V3) -> bool {
    (0..3).all(|k| a[k].to_bits() == b[k].to_bits() || (a[k] == 0.0 && b[k] == 0.0))
}

/// component lattice: far below, 1 ulp below, on, inside, on, 1 ulp above, far above
fn comp_classes(lo: Option<f64>, hi: Option<f64>, is32: bool) -> Vec<f64> {
    let up = |x: f64| if is32 { next_up32(x as f32) as f64 } else { next_up64(x) };
    let dn = |x: f64| if is32 { next_down32(x as f32) as f64 } else { next_down64(x) };
    let mut v = Vec::new();
    let (l, h) = (lo.unwrap_or(-150.0), hi.unwrap_or(400.0));
    let w = (h - l).max(1.0);
    v.extend([l - 3.0 * w, l - 1e6 * w, -1e30, l + 0.3 * w, l + 0.5 * w, (l + h) / 2.0, h + 4.0 * w, h + 1e6 * w, 1e30]);
    if let Some(l) = lo {
        v.extend([dn(l), l, up(l)]);
    }
    if let Some(h) = hi {
        v.extend([dn(h), h, up(h)]);
    }
    if l < 0.0 && h > 0.0 {
        v.extend([0.0, -0.0]);
    }
    v
}

/// integer component types: every value of u8 / u16 is a valid stimulus, so clamp must be the identity wherever the
/// type has no relational bound, and the contract relations must hold everywhere
fn integer_components(ctx: &Ctx, report: &mut Report) {
    use palette::{Clamp, ClampAssign, IsWithinBounds};
    let mname = "integer_component_clamp_contract";
    if !ctx.enabled(mname) || ctx.replaying() {
        return;
    }
    let mut m = Monitor::new(
        mname,
        "colour types with u8 / u16 components (Srgb, Srgba, SrgbLuma, Hwb<Srgb>, Okhwb, Lms, Cam16Jch, Lch, Oklch; the ones with only a lower bound or a relational bound included): on the lattice {0, 1, MAX/2, MAX/2+1, MAX-1, MAX}^3 and seeded values: clamp(x) reports itself within bounds, a colour that reports within bounds is returned unchanged, clamp is idempotent, by-value == assigning form; distinct = (type, lattice cell)",
    );
    let mut rng = ctx.rng(mname, 0);
    pvmon::report::quiet_panics();
    macro_rules! ty {
        ($name:expr, $C:ty, $T:ty, $n:expr, $mk:expr, $un:expr) => {{
            let lv: [$T; 6] = [0, 1, <$T>::MAX / 2, <$T>::MAX / 2 + 1, <$T>::MAX - 1, <$T>::MAX];
            let mut inputs: Vec<[$T; 4]> = Vec::new();
            for a in lv {
                for b in lv {
                    for c in lv {
                        for d in [0 as $T, <$T>::MAX / 2, <$T>::MAX] {
                            inputs.push([a, b, c, d]);
                        }
                    }
                }
            }
            for _ in 0..ctx.n(2000, 200_000) {
                inputs.push([rng.next_u64() as $T, rng.next_u64() as $T, rng.next_u64() as $T, rng.next_u64() as $T]);
            }
            for x in inputs {
                let c: $C = $mk(x);
                let xa: Vec<u64> = $un(&c);
                let inp = || json!({"components": xa});
                // palette's own arithmetic runs with overflow checks on in this build: a panic is an observable event
                let r = std::panic::catch_unwind(std::panic::AssertUnwindSafe(|| {
                    let y = c.clone().clamp();
                    let mut z = c.clone();
                    z.clamp_assign();
                    let yy = y.clone().clamp();
                    (c.is_within_bounds(), y.is_within_bounds(), y, z, yy)
                }));
                m.evals(4);
                let (c_in, y_in, y, z, yy) = match r {
                    Ok(v) => v,
                    Err(_) => {
                        // recorded finding: whiteness + blackness is formed in the component type
                        let hwb_sum = $name.contains("hwb") || $name.contains("Hwb");
                        let over = hwb_sum && xa[1] + xa[2] > <$T>::MAX as u64;
                        m.violate($name, if over { "panic:hwb_integer_sum_overflows" } else { "panic" }, inp(), json!("panic (arithmetic overflow)"), json!("no panic"), "");
                        continue;
                    }
                };
                let (ya, za, yya): (Vec<u64>, Vec<u64>, Vec<u64>) = ($un(&y), $un(&z), $un(&yy));
                if !y_in {
                    m.violate($name, "clamp_result_not_within_bounds", inp(), json!(ya), json!("is_within_bounds() == true"), "");
                }
                if c_in && ya != xa {
                    m.violate($name, "clamp_changes_in_bounds_color", inp(), json!(ya), json!(xa), "");
                }
                if yya != ya {
                    m.violate($name, "clamp_not_idempotent", inp(), json!(yya), json!(ya), "");
                }
                if za != ya {
                    m.violate($name, "clamp_vs_clamp_assign", inp(), json!({"clamp": ya, "clamp_assign": za}), json!("identical"), "");
                }
                m.cell_s(&format!("{}{}{}", $name, xa[0] == 0, xa[$n - 1] == <$T>::MAX as u64));
            }
        }};
    }
    use palette::encoding::Srgb as St;
    ty!("Srgb<u8>", palette::rgb::Rgb<St, u8>, u8, 3, |x: [u8; 4]| palette::rgb::Rgb::<St, u8>::new(x[0], x[1], x[2]), |c: &palette::rgb::Rgb<St, u8>| vec![c.red as u64, c.green as u64, c.blue as u64]);
    ty!("Srgb<u16>", palette::rgb::Rgb<St, u16>, u16, 3, |x: [u16; 4]| palette::rgb::Rgb::<St, u16>::new(x[0], x[1], x[2]), |c: &palette::rgb::Rgb<St, u16>| vec![c.red as u64, c.green as u64, c.blue as u64]);
    ty!("Srgba<u8>", palette::Srgba<u8>, u8, 4, |x: [u8; 4]| palette::Srgba::<u8>::new(x[0], x[1], x[2], x[3]), |c: &palette::Srgba<u8>| vec![c.red as u64, c.green as u64, c.blue as u64, c.alpha as u64]);
    ty!("SrgbLuma<u8>", palette::SrgbLuma<u8>, u8, 1, |x: [u8; 4]| palette::SrgbLuma::<u8>::new(x[0]), |c: &palette::SrgbLuma<u8>| vec![c.luma as u64]);
    ty!("Hwb<Srgb,u8>", palette::Hwb<St, u8>, u8, 3, |x: [u8; 4]| palette::Hwb::<St, u8>::new_const(palette::RgbHue::new(x[0]), x[1], x[2]), |c: &palette::Hwb<St, u8>| vec![c.hue.into_inner() as u64, c.whiteness as u64, c.blackness as u64]);
    ty!("Okhwb<u16>", palette::Okhwb<u16>, u16, 3, |x: [u16; 4]| palette::Okhwb::<u16>::new_const(palette::OklabHue::new(x[0]), x[1], x[2]), |c: &palette::Okhwb<u16>| vec![c.hue.into_inner() as u64, c.whiteness as u64, c.blackness as u64]);
    ty!("Lms<u8>", palette::lms::VonKriesLms<palette::white_point::D65, u8>, u8, 3, |x: [u8; 4]| palette::lms::VonKriesLms::<palette::white_point::D65, u8>::new(x[0], x[1], x[2]), |c: &palette::lms::VonKriesLms<palette::white_point::D65, u8>| vec![c.long as u64, c.medium as u64, c.short as u64]);
    ty!("Cam16Jch<u8>", palette::cam16::Cam16Jch<u8>, u8, 3, |x: [u8; 4]| palette::cam16::Cam16Jch::<u8>::new_const(x[0], x[1], palette::hues::Cam16Hue::new(x[2])), |c: &palette::cam16::Cam16Jch<u8>| vec![c.lightness as u64, c.chroma as u64, c.hue.into_inner() as u64]);
    m.tolerance = Some("bit-exact".into());
    m.sample(|| {
        let c = palette::Hwb::<St, u8>::new_const(palette::RgbHue::new(0), 100, 50).clamp();
        json!({"input": "Hwb<Srgb,u8>(0, 100, 50)", "clamp": [c.whiteness, c.blackness]})
    });
    report.add(m);
}

/// float colour types outside the conversion table (Lms, the CAM16 family): the same contract relations, on the cross
/// product of {far below, just below, lower bound, inside, upper bound, just above, far above} per component, bare, as a
/// slice and Alpha-wrapped; where the type documents an upper bound the clamped component must equal it
fn extra_float_types(ctx: &Ctx, report: &mut Report) {
    use palette::{Alpha, Clamp, ClampAssign, IsWithinBounds};
    let mname = "clamp_contract_lms_cam16";
    if !ctx.enabled(mname) || ctx.replaying() {
        return;
    }
    let mut m = Monitor::new(
        mname,
        "Lms (von Kries / Bradford), Cam16UcsJab, Cam16UcsJmh, the six partial CAM16 types and the full Cam16, f32/f64: every component independently far below, just below, on, inside, on, just above and far above its documented range (full cross product for three components, then seeded): clamp() reports within bounds, leaves an in-bounds colour bit-identical, is idempotent, equals clamp_assign and the slice form bit for bit, each clamped component equals the documented bound it crossed, and the Alpha-wrapped forms do the same with the alpha clamped to [0, 1]; distinct = (type, pattern)",
    );
    let mut rng = ctx.rng(mname, 0);
    macro_rules! ty {
        ($name:expr, $C:ty, $T:ty, $n:expr, $bounds:expr) => {{
            // bounds: per component (lower, upper) as Option<f64>; a hue component is (None, None)
            let bounds: [(Option<f64>, Option<f64>); $n] = $bounds;
            let classes = |k: usize, rng: &mut pvmon::Rng| -> Vec<f64> {
                match bounds[k] {
                    (None, None) => vec![0.0, -725.5, 123.0, 1e6],
                    (lo, hi) => {
                        let l = lo.unwrap_or(-50.0);
                        let h = hi.unwrap_or(l + 150.0);
                        let w = h - l;
                        vec![l - 3.0 * w, l - w * 1e-6, l, l + w * rng.unit(), h, h + w * 1e-6, h + 4.0 * w]
                    }
                }
            };
            let mut inputs: Vec<[f64; $n]> = Vec::new();
            let cls: Vec<Vec<f64>> = (0..$n).map(|k| classes(k, &mut rng)).collect();
            let total: usize = cls.iter().map(|c| c.len()).product::<usize>().min(20_000);
            for idx in 0..total {
                let mut v = [0.0; $n];
                let mut r = idx;
                for k in 0..$n {
                    v[k] = cls[k][r % cls[k].len()];
                    r /= cls[k].len();
                }
                inputs.push(v);
            }
            for _ in 0..ctx.n(5_000, 500_000) {
                let mut v = [0.0; $n];
                for k in 0..$n {
                    let c = classes(k, &mut rng);
                    v[k] = c[rng.below(c.len() as u64) as usize];
                }
                inputs.push(v);
            }
            for x in inputs {
                let xa: [$T; $n] = x.map(|v| v as $T);
                let c: $C = palette::cast::from_array(xa);
                let read = |c: &$C| -> Vec<f64> { let a: [$T; $n] = palette::cast::into_array(c.clone()); a.iter().map(|v| *v as f64).collect() };
                let bits = |v: &Vec<f64>| -> Vec<u64> { v.iter().map(|x| x.to_bits()).collect() };
                let xin = read(&c);
                let inp = || json!({"components": xin});
                let y = c.clone().clamp();
                let mut z = c.clone();
                z.clamp_assign();
                let mut sl = vec![c.clone(); 3];
                sl[..].clamp_assign();
                let yy = y.clone().clamp();
                let (ya, za, yya) = (read(&y), read(&z), read(&yy));
                m.evals(6);
                if !y.is_within_bounds() {
                    m.violate($name, "clamp_result_not_within_bounds", inp(), json!(ya), json!("is_within_bounds() == true"), "");
                }
                if c.is_within_bounds() && bits(&ya) != bits(&xin) {
                    m.violate($name, "clamp_changes_in_bounds_color", inp(), json!(ya), json!(xin), "");
                }
                let inside = (0..$n).all(|k| bounds[k].0.map_or(true, |l| xin[k] >= (l as $T) as f64) && bounds[k].1.map_or(true, |h| xin[k] <= (h as $T) as f64));
                if inside != c.is_within_bounds() {
                    m.violate($name, "is_within_bounds_differs_from_documented_bounds", inp(), json!(c.is_within_bounds()), json!(inside), "");
                }
                if bits(&yya) != bits(&ya) {
                    m.violate($name, "clamp_not_idempotent", inp(), json!(yya), json!(ya), "");
                }
                if bits(&za) != bits(&ya) || !sl.iter().all(|e| bits(&read(e)) == bits(&ya)) {
                    m.violate($name, "clamp_vs_clamp_assign_or_slice", inp(), json!({"clamp": ya, "clamp_assign": za, "slice": read(&sl[0])}), json!("identical"), "");
                }
                for k in 0..$n {
                    let want = match bounds[k] {
                        (None, None) => xin[k],
                        (lo, hi) => {
                            let mut w = xin[k];
                            if let Some(l) = lo { if w < (l as $T) as f64 { w = (l as $T) as f64; } }
                            if let Some(h) = hi { if w > (h as $T) as f64 { w = (h as $T) as f64; } }
                            w
                        }
                    };
                    if ya[k].to_bits() != want.to_bits() && !(ya[k] == 0.0 && want == 0.0) {
                        m.violate($name, "clamped_component_is_not_the_documented_bound", inp(), json!({"component": k, "value": ya[k]}), json!(want), "");
                        break;
                    }
                }
                // Alpha-wrapped
                for al in [-0.5f64, 0.5, 1.5] {
                    let wa = Alpha { color: c.clone(), alpha: al as $T };
                    let wy = wa.clone().clamp();
                    let mut wz = wa.clone();
                    wz.clamp_assign();
                    let want_in = c.is_within_bounds() && (0.0..=1.0).contains(&al);
                    m.evals(2);
                    if bits(&read(&wy.color)) != bits(&ya) || bits(&read(&wz.color)) != bits(&ya) || wy.alpha as f64 != al.max(0.0).min(1.0) || wz.alpha as f64 != al.max(0.0).min(1.0) || !wy.is_within_bounds() || wa.is_within_bounds() != want_in {
                        m.violate(&format!("Alpha<{}>", $name), "alpha_clamp_contract", json!({"components": xin, "alpha": al}), json!({"color": read(&wy.color), "alpha": wy.alpha as f64, "assign_color": read(&wz.color), "within_before": wa.is_within_bounds(), "within_after": wy.is_within_bounds()}), json!({"color": ya, "alpha": al.max(0.0).min(1.0), "within_before": want_in}), "");
                    }
                }
                let pat: u64 = (0..$n).fold(0u64, |a, k| a * 3 + if bounds[k].0.map_or(false, |l| xin[k] < l) { 0 } else if bounds[k].1.map_or(false, |h| xin[k] > h) { 2 } else { 1 });
                m.cell(pvmon::rng::mix(pvmon::rng::hash_str($name), pat));
            }
        }};
    }
    use palette::cam16::*;
    use palette::lms::{BradfordLms, VonKriesLms};
    use palette::white_point::{D50, D65};
    const Z: (Option<f64>, Option<f64>) = (Some(0.0), None);
    const H: (Option<f64>, Option<f64>) = (None, None);
    macro_rules! both {
        ($name:expr, $C:ident<$($p:ty),*>, $n:expr, $b:expr) => {
            ty!(concat!($name, "/f32"), $C<$($p,)* f32>, f32, $n, $b);
            ty!(concat!($name, "/f64"), $C<$($p,)* f64>, f64, $n, $b);
        };
    }
    let unit = (Some(0.0), Some(1.0));
    // (the documented clamp bounds: Lms has lower bounds only; CAM16-UCS bounds the lightness, and the colourfulness from
    // below; a' and b' are free - `min_srgb_a` etc. describe the extent of sRGB, not a bound)
    let _ = unit;
    both!("Lms<VonKries,D65>", VonKriesLms<D65>, 3, [Z, Z, Z]);
    both!("Lms<Bradford,D50>", BradfordLms<D50>, 3, [Z, Z, Z]);
    both!("Cam16UcsJab", Cam16UcsJab<>, 3, [(Some(0.0), Some(100.0)), H, H]);
    both!("Cam16UcsJmh", Cam16UcsJmh<>, 3, [(Some(0.0), Some(100.0)), Z, H]);
    both!("Cam16Jch", Cam16Jch<>, 3, [Z, Z, H]);
    both!("Cam16Jmh", Cam16Jmh<>, 3, [Z, Z, H]);
    both!("Cam16Jsh", Cam16Jsh<>, 3, [Z, Z, H]);
    both!("Cam16Qch", Cam16Qch<>, 3, [Z, Z, H]);
    both!("Cam16Qmh", Cam16Qmh<>, 3, [Z, Z, H]);
    both!("Cam16Qsh", Cam16Qsh<>, 3, [Z, Z, H]);
    // the full CAM16 colour: five attributes bounded from below, a free hue; no array form, so the fields are named
    macro_rules! full {
        ($T:ty, $name:expr) => {{
            let vals: [f64; 6] = [-3.0, -1e-6, 0.0, 0.5, 50.0, 1e6];
            let n5 = 6usize.pow(5);
            for idx in 0..(n5 as u64 + ctx.n(5_000, 300_000)) {
                let mut x = [0.0f64; 5];
                if (idx as usize) < n5 {
                    let mut r = idx as usize;
                    for k in 0..5 {
                        x[k] = vals[r % 6];
                        r /= 6;
                    }
                } else {
                    for k in 0..5 {
                        x[k] = match rng.below(4) { 0 => -rng.unit() * 10.0, 1 => 0.0, _ => rng.unit() * 120.0 };
                    }
                }
                let hue = rng.range(-720.0, 720.0);
                let c = Cam16::<$T> { lightness: x[0] as $T, chroma: x[1] as $T, hue: palette::hues::Cam16Hue::new(hue as $T), brightness: x[2] as $T, colorfulness: x[3] as $T, saturation: x[4] as $T };
                let read = |c: &Cam16<$T>| -> Vec<f64> { vec![c.lightness as f64, c.chroma as f64, c.brightness as f64, c.colorfulness as f64, c.saturation as f64, c.hue.into_inner() as f64] };
                let bits = |v: &Vec<f64>| -> Vec<u64> { v.iter().map(|x| x.to_bits()).collect() };
                let xin = read(&c);
                let inp = || json!({"lightness_chroma_brightness_colorfulness_saturation_hue": xin});
                let y = c.clamp();
                let mut z = c;
                z.clamp_assign();
                let mut sl = vec![c; 2];
                sl[..].clamp_assign();
                let ya = read(&y);
                let inside = xin[..5].iter().all(|v| *v >= 0.0);
                let want: Vec<f64> = xin.iter().enumerate().map(|(k, v)| if k < 5 && *v < 0.0 { 0.0 } else { *v }).collect();
                m.evals(6);
                let wa = Alpha { color: c, alpha: 1.5 as $T };
                let wy = wa.clamp();
                if !y.is_within_bounds() || c.is_within_bounds() != inside || sl[..].is_within_bounds() != true || vec![c; 2][..].is_within_bounds() != inside || (inside && bits(&ya) != bits(&xin)) || bits(&read(&y.clamp())) != bits(&ya) || bits(&read(&z)) != bits(&ya) || !sl.iter().all(|e| bits(&read(e)) == bits(&ya))
                    || !ya.iter().zip(want.iter()).all(|(g, w)| g == w) || bits(&read(&wy.color)) != bits(&ya) || wy.alpha != 1.0 || wa.is_within_bounds() || (Alpha { color: c, alpha: 0.5 as $T }).is_within_bounds() != inside
                {
                    m.violate($name, "cam16_full_clamp_contract", inp(), json!({"clamp": ya, "clamp_assign": read(&z), "within_before": c.is_within_bounds(), "within_after": y.is_within_bounds()}), json!({"clamp": want, "within_before": inside}), "");
                }
                if (idx as usize) < n5 {
                    m.cell(pvmon::rng::mix(pvmon::rng::hash_str($name), idx));
                }
            }
        }};
    }
    full!(f32, "Cam16/f32");
    full!(f64, "Cam16/f64");
    m.tolerance = Some("exact".into());
    m.sample(|| {
        let a: [f64; 3] = palette::cast::into_array(Cam16UcsJab::<f64>::new(120.0, -70.0, 10.0).clamp());
        json!({"type": "Cam16UcsJab<f64>", "color": [120.0, -70.0, 10.0], "clamp": a.to_vec()})
    });
    report.add(m);
}

fn main() {
    let ctx = Ctx::from_args("C03");
    let mut report = Report::new(&ctx);
    let types = ct::types();
    let pairs = ct::pairs();

    let mname = "clamp_contract";
    if ctx.enabled(mname) {
        let mon = Monitor::new(
            mname,
            "every listed type x f32/f64: full cross product of {far below, 1 ulp below, on, inside, on, 1 ulp above, far above} per component (mixed below/above patterns included) plus seeded points in [lo-3W, hi+4W]; checks: clamp is within bounds, identity on in-bounds colours, idempotent, each clamped component equals the documented bound (HWB: sum normalised), is_within_bounds agrees with the documented bounds, by-value == assigning form; every 4th input also as Alpha<C, T> with alpha in {-1, -1e-9, 0, 1/2, 1, 1+1e-6, 2, 1e30}: within bounds iff the colour is and 0 <= alpha <= 1, clamp = colour clamp + alpha clamp, result within bounds, unchanged when it reported within bounds, by-value == assigning; \
             distinct = (type, below/inside/above pattern of the three components)",
        );
        let replay = ctx.replay.as_ref().filter(|r| r.monitor == mname).map(|r| (r.inst.clone(), parse_bits64(&r.input["bits"])));
        let res = par(if replay.is_some() { 1 } else { ctx.threads }, |t| {
            let mut m = mon.like();
            let mut rng = ctx.rng(mname, t as u64);
            for (i, ty) in types.iter().enumerate() {
                if let Some((rinst, _)) = &replay {
                    if rinst != ty.name {
                        continue;
                    }
                } else if i % ctx.threads != t {
                    continue;
                }
                let sp = ty.space;
                let mut b = sp.clamp_bounds();
                if ty.is_f32 {
                    // the accessors return the bound in the component type
                    for k in 0..3 {
                        b[k] = (b[k].0.map(|v| v as f32 as f64), b[k].1.map(|v| v as f32 as f64));
                    }
                }
                let hue = sp.hue_index();
                let mut inputs: Vec<V3> = Vec::new();
                if let Some((_, bits)) = &replay {
                    inputs.push([bits[0], bits[1], bits[2]]);
                } else {
                    let c: Vec<Vec<f64>> = (0..3)
                        .map(|k| {
                            if hue == Some(k) {
                                vec![0.0, -720.5, 123.0, 360.0, 1e6]
                            } else if ty.luma && k > 0 {
                                vec![0.0]
                            } else {
                                comp_classes(b[k].0, b[k].1, ty.is_f32)
                            }
                        })
                        .collect();
                    for &x0 in &c[0] {
                        for &x1 in &c[1] {
                            for &x2 in &c[2] {
                                inputs.push([x0, x1, x2]);
                            }
                        }
                    }
                    for _ in 0..ctx.n(20_000, 2_000_000) {
                        let mut v = [0.0; 3];
                        for k in 0..3 {
                            let (l, h) = (b[k].0.unwrap_or(-150.0), b[k].1.unwrap_or(400.0));
                            let w = (h - l).max(1.0);
                            v[k] = if hue == Some(k) { rng.range(-720.0, 720.0) } else if ty.luma && k > 0 { 0.0 } else { rng.range(l - 3.0 * w, h + 4.0 * w) };
                        }
                        inputs.push(v);
                    }
                }
                let hwb = matches!(sp, Space::Hwb(_) | Space::Okhwb);
                let okhsv = matches!(sp, Space::Okhsv);
                let mut alpha_turn = 0u64;
                for mut x in inputs {
                    if ty.is_f32 {
                        x = [x[0] as f32 as f64, x[1] as f32 as f64, x[2] as f32 as f64];
                    }
                    if !x.iter().all(|c| c.is_finite()) {
                        continue;
                    }
                    let (y, ya) = ct::clamp(i, x);
                    let inb = ct::is_within_bounds(i, x);
                    let yin = ct::is_within_bounds(i, y);
                    let (yy, _) = ct::clamp(i, y);
                    m.evals(5);
                    let inp = || json!({"bits": bits64(&x), "x": fvec(&x)});
                    let ulp1 = if ty.is_f32 { 1.2e-7 } else { 2.3e-16 };
                    // HWB normalisation w/s + b/s can land one rounding step above 1
                    let hwb_sum_rounding = matches!(sp, Space::Hwb(_) | Space::Okhwb) && y[1] >= 0.0 && y[2] >= 0.0 && y[1] <= 1.0 && y[2] <= 1.0 && y[1] + y[2] > 1.0 && y[1] + y[2] <= 1.0 + 4.0 * ulp1;
                    if !yin {
                        m.violate(ty.name, if hwb_sum_rounding { "clamp_result_not_within_bounds:hwb_sum_one_ulp_above_one" } else { "clamp_result_not_within_bounds" }, inp(), fvec(&y), json!("is_within_bounds() == true"), "");
                    }
                    if inb && !same(&y, &x) {
                        m.violate(ty.name, "clamp_changes_in_bounds_color", inp(), fvec(&y), fvec(&x), "");
                    }
                    if !same(&yy, &y) {
                        m.violate(ty.name, if hwb_sum_rounding { "clamp_not_idempotent:hwb_sum_one_ulp_above_one" } else { "clamp_not_idempotent" }, inp(), fvec(&yy), fvec(&y), "");
                    }
                    if !same(&y, &ya) {
                        m.violate(ty.name, "clamp_vs_clamp_assign", inp(), json!({"clamp": fvec(&y), "clamp_assign": fvec(&ya)}), json!("identical"), "");
                    }
                    // documented bounds
                    let slack = if okhsv { 2e-6 } else { 0.0 };
                    let mut model_in = true;
                    let mut want = x;
                    for k in 0..3 {
                        if hue == Some(k) || (ty.luma && k > 0) {
                            continue;
                        }
                        if let Some(l) = b[k].0 {
                            if x[k] < l {
                                model_in = false;
                                want[k] = l;
                            }
                        }
                        if let Some(h) = b[k].1 {
                            if x[k] > h {
                                if !(okhsv && x[k] <= h + 1e-6) {
                                    model_in = false;
                                }
                                want[k] = h;
                            }
                        }
                    }
                    if hwb {
                        // documented: whiteness and blackness in [0, 1] and their sum at most 1 (how an excess sum is
                        // distributed is not specified: only the relations above are required of the clamped value)
                        if x[1] + x[2] > 1.0 {
                            model_in = false;
                        }
                    }
                    let ulp = if ty.is_f32 { 1.2e-7 } else { 2.3e-16 };
                    // white-point derived bounds (Xyz) are computed values: 2 ulp
                    let tol = |k: usize| if hwb { 4.0 * ulp } else if want[k] != x[k] { slack + if matches!(sp, Space::Xyz(_)) { 2.0 * ulp * want[k].abs() } else { 0.0 } } else { 0.0 };
                    let near_slack = okhsv && (1..3).any(|k| x[k] > 1.0 && x[k] <= 1.0 + 2e-6);
                    for k in 0..3 {
                        if hue == Some(k) || (ty.luma && k > 0) {
                            if hue == Some(k) && y[k].to_bits() != x[k].to_bits() {
                                m.violate(ty.name, "clamp_touches_hue", inp(), fvec(&y), fvec(&x), "");
                            }
                            continue;
                        }
                        if hwb {
                            break;
                        }
                        if !((y[k] - want[k]).abs() <= tol(k)) && !near_slack {
                            m.violate(ty.name, "clamped_component_not_documented_bound", inp(), fvec(&y), fvec(&want), "");
                            break;
                        }
                    }
                    let hwb_edge = (hwb && ((x[1] + x[2]) - 1.0).abs() < 1e-6) || (matches!(sp, Space::Xyz(_)) && (0..3).any(|k| b[k].1.map_or(false, |h| (x[k] - h).abs() <= 2.0 * ulp * h)));
                    if inb != model_in && !near_slack && !hwb_edge {
                        m.violate(ty.name, "is_within_bounds_disagrees_with_documented_bounds", inp(), json!(inb), json!(model_in), "");
                    }
                    let pat: u64 = (0..3).map(|k| {
                        let c = if b[k].0.map_or(false, |l| x[k] < l) { 0 } else if b[k].1.map_or(false, |h| x[k] > h) { 2 } else { 1 };
                        c << (2 * k)
                    }).sum();
                    // ---- the Alpha-wrapped form of the same colour: alpha is one more component with bounds [0, 1]
                    alpha_turn += 1;
                    if alpha_turn % 4 == 0 || replay.is_some() {
                        for &a0 in &[-1.0, -1e-9, 0.0, 0.5, 1.0, 1.0 + 1e-6, 2.0, 1e30] {
                            let a = if ty.is_f32 { a0 as f32 as f64 } else { a0 };
                            let (aw, cc, ca, bc, ba, cw) = ct::alpha_bounds(i, x, a);
                            m.evals(4);
                            let ainp = || json!({"bits": bits64(&x), "x": fvec(&x), "alpha": a});
                            let inst = format!("Alpha<{}>", ty.name);
                            let alpha_in = (0.0..=1.0).contains(&a);
                            if aw != (inb && alpha_in) {
                                m.violate(&inst, "alpha_is_within_bounds_ignores_or_misjudges_alpha", ainp(), json!(aw), json!(inb && alpha_in), "within bounds iff the colour is and 0 <= alpha <= 1");
                            }
                            if !cw {
                                m.violate(&inst, if hwb_sum_rounding { "alpha_clamp_result_not_within_bounds:hwb_sum_one_ulp_above_one" } else { "alpha_clamp_result_not_within_bounds" }, ainp(), json!({"color": fvec(&cc), "alpha": ca}), json!("is_within_bounds() == true"), "");
                            }
                            if aw && (!same(&cc, &x) || ca.to_bits() != a.to_bits()) {
                                m.violate(&inst, "alpha_clamp_changes_a_color_that_reports_within_bounds", ainp(), json!({"color": fvec(&cc), "alpha": ca}), json!({"color": fvec(&x), "alpha": a}), "");
                            }
                            if !same(&cc, &y) || ca != a.clamp(0.0, 1.0) {
                                m.violate(&inst, "alpha_clamp_differs_from_colour_clamp_plus_alpha_clamp", ainp(), json!({"color": fvec(&cc), "alpha": ca}), json!({"color": fvec(&y), "alpha": a.clamp(0.0, 1.0)}), "");
                            }
                            if !same(&cc, &bc) || ca.to_bits() != ba.to_bits() {
                                m.violate(&inst, "alpha_clamp_vs_clamp_assign", ainp(), json!({"clamp": [fvec(&cc), json!(ca)], "clamp_assign": [fvec(&bc), json!(ba)]}), json!("identical"), "");
                            }
                        }
                        m.cell(pvmon::rng::mix(i as u64, 1000 + pat));
                    }
                    m.cell(pvmon::rng::mix(i as u64, pat));
                    m.count(if pat == 0b010101 { "inputs_in_bounds" } else { "inputs_out_of_bounds" });
                }
            }
            vec![m]
        });
        for mut m in res {
            m.tolerance = Some("bit-exact (Okhsv: documented 1e-6 slack between accessor and clamp bound; HWB normalisation 4 ulp)".into());
            m.sample(|| json!({"type": types[0].name, "x": [1.5, -0.25, 0.5], "clamp": fvec(&ct::clamp(0, [1.5, -0.25, 0.5]).0), "is_within_bounds": ct::is_within_bounds(0, [1.5, -0.25, 0.5])}));
            report.add(m);
        }
    }

    let mname = "clamping_and_checked_conversion";
    if ctx.enabled(mname) {
        let mon = Monitor::new(
            mname,
            "every listed conversion pair: from_color == from_color_unclamped + clamp (bit-exact); try_from_color is Ok exactly when the unclamped result is within bounds and carries that same value in Ok and in the error; inputs: source lattice (in and out of the target's bounds), seeded in-range and out-of-range points; distinct = (pair, Ok/Err)",
        );
        let replay = ctx.replay.as_ref().filter(|r| r.monitor == mname).map(|r| (r.inst.clone(), parse_bits64(&r.input["bits"])));
        let res = par(if replay.is_some() { 1 } else { ctx.threads }, |t| {
            let mut m = mon.like();
            let mut rng = ctx.rng(mname, t as u64);
            for (pi, &(i, j)) in pairs.iter().enumerate() {
                let inst = format!("{}->{}", types[i].name, types[j].name);
                if let Some((rinst, _)) = &replay {
                    if *rinst != inst {
                        continue;
                    }
                } else if pi % ctx.threads != t {
                    continue;
                }
                let sp = types[i].space;
                let mut inputs: Vec<V3> = Vec::new();
                if let Some((_, bits)) = &replay {
                    inputs.push([bits[0], bits[1], bits[2]]);
                } else {
                    let lat = gen::lattice(sp);
                    for k in 0..lat.len().min(ctx.n(120, 2000) as usize) {
                        inputs.push(lat[(k * 7919) % lat.len()]);
                    }
                    for q in 0..ctx.n(200, 20_000) {
                        let mut v = if q % 2 == 0 { gen::gamut_fill(sp, &mut rng) } else { gen::fill(sp, &mut rng) };
                        if q % 4 == 3 {
                            // push it out of range
                            let k = rng.below(3) as usize;
                            if sp.hue_index() != Some(k) {
                                let r = sp.ranges()[k];
                                v[k] = if rng.chance(0.5) { r.1 + (r.1 - r.0) * rng.range(0.01, 2.0) } else { r.0 - (r.1 - r.0) * rng.range(0.01, 2.0) };
                            }
                        }
                        inputs.push(v);
                    }
                }
                for mut x in inputs {
                    if types[i].is_f32 {
                        x = [x[0] as f32 as f64, x[1] as f32 as f64, x[2] as f32 as f64];
                    }
                    let un = ct::convert(i, j, x).unwrap();
                    if !un.iter().all(|c| c.is_finite()) {
                        continue;
                    }
                    let cl = ct::convert_clamped(i, j, x).unwrap();
                    let ck = ct::convert_checked(i, j, x).unwrap();
                    let want_cl = ct::clamp(j, un).0;
                    let within = ct::is_within_bounds(j, un);
                    m.evals(3);
                    let inp = || json!({"bits": bits64(&x), "x": fvec(&x)});
                    if !same(&cl, &want_cl) {
                        m.violate(&inst, "from_color_not_unclamped_then_clamp", inp(), fvec(&cl), fvec(&want_cl), "");
                    }
                    match ck {
                        Ok(v) => {
                            m.count("checked_ok");
                            if !within {
                                m.violate(&inst, "try_from_color_ok_but_out_of_bounds", inp(), fvec(&v), json!({"unclamped": fvec(&un), "within": within}), "");
                            } else if !same(&v, &un) {
                                m.violate(&inst, "try_from_color_ok_value_differs", inp(), fvec(&v), fvec(&un), "");
                            }
                        }
                        Err(v) => {
                            m.count("checked_err");
                            if within {
                                m.violate(&inst, "try_from_color_err_but_within_bounds", inp(), fvec(&v), json!({"unclamped": fvec(&un), "within": within}), "");
                            } else if !same(&v, &un) {
                                m.violate(&inst, "try_from_color_error_value_differs", inp(), fvec(&v), fvec(&un), "");
                            }
                        }
                    }
                    // container forms (Vec, Box<[T]>) follow the same contract
                    if let Some([vc, bc, vu, bu]) = ct::convert_containers(i, j, x) {
                        m.evals(4);
                        if !same(&vc, &want_cl) || !same(&bc, &want_cl) {
                            m.violate(&inst, "container_from_color_not_unclamped_then_clamp", inp(), json!({"vec": fvec(&vc), "box": fvec(&bc)}), fvec(&want_cl), "");
                        }
                        if !same(&vu, &un) || !same(&bu, &un) {
                            m.violate(&inst, "container_from_color_unclamped_differs", inp(), json!({"vec": fvec(&vu), "box": fvec(&bu)}), fvec(&un), "");
                        }
                    }
                    m.cell(pvmon::rng::mix(pi as u64, within as u64));
                }
            }
            vec![m]
        });
        for mut m in res {
            m.tolerance = Some("bit-exact".into());
            m.sample(|| {
                let j = types.iter().position(|t| t.name == "Srgb/f64").unwrap();
                let i = types.iter().position(|t| t.name == "Lch<D65>/f64").unwrap();
                json!({"pair": "Lch<D65>/f64->Srgb/f64", "x": [50.0, 100.0, -175.0], "unclamped": fvec(&ct::convert(i, j, [50.0, 100.0, -175.0]).unwrap()), "clamped": fvec(&ct::convert_clamped(i, j, [50.0, 100.0, -175.0]).unwrap()), "checked_is_ok": ct::convert_checked(i, j, [50.0, 100.0, -175.0]).unwrap().is_ok()})
            });
            report.add(m);
        }
    }
    integer_components(&ctx, &mut report);
    extra_float_types(&ctx, &mut report);
    report.finish();
}
