//! C19 — random colour sampling respects the requested range and volume.

use palette::cast::{self, ArrayCast};
use palette::white_point::D65;
use palette::{encoding, Hsl, Hsluv, Hsv, Hwb, IsWithinBounds, Lab, Lch, Lchuv, Luv, Okhsl, Okhsv, Okhwb, Oklab, Oklch, Xyz, Yxy};
use pvmon::report::{fvec, par, Ctx, Monitor, Report};
use pvmon::{json, Rng as PvRng};
use rand::distributions::uniform::SampleUniform;
use rand::distributions::{Distribution, Standard, Uniform};
use rand::{Rng, SeedableRng};

trait Fl: Copy + PartialOrd + SampleUniform + 'static {
    const NAME: &'static str;
    const ULP: f64;
    fn f(x: f64) -> Self;
    fn d(self) -> f64;
}
impl Fl for f32 {
    const NAME: &'static str = "f32";
    const ULP: f64 = 1.2e-7;
    fn f(x: f64) -> f32 {
        x as f32
    }
    fn d(self) -> f64 {
        self as f64
    }
}
impl Fl for f64 {
    const NAME: &'static str = "f64";
    const ULP: f64 = 2.3e-16;
    fn f(x: f64) -> f64 {
        x
    }
    fn d(self) -> f64 {
        self
    }
}

/// how the three components of a colour type are laid out and which shape its sampler claims
#[derive(Clone, Copy, Debug, PartialEq)]
enum Shape {
    /// independent components, nominal [lo, hi] each
    Cart([(f64, f64); 3]),
    /// hue at index `h`, height at `z` in [0, zmax], radius at `r` in [0, rmax]: uniform in the cylinder's volume
    Cyl { h: usize, z: usize, r: usize, zmax: f64, rmax: f64 },
    /// HSV-like cone: hue 0, saturation 1, value 2
    Cone,
    /// HSL-like bicone: hue 0, saturation 1, lightness 2 (components scaled by `unit`)
    Bicone { unit: f64 },
    /// HWB: hue 0, whiteness 1, blackness 2; equivalent HSV cone
    HwbCone,
}

fn bicone_cdf(l: f64) -> f64 {
    if l <= 0.5 {
        4.0 * l * l * l
    } else {
        1.0 - 4.0 * (1.0 - l).powi(3)
    }
}

impl Shape {
    fn hue_index(self) -> Option<usize> {
        match self {
            Shape::Cart(_) => None,
            Shape::Cyl { h, .. } => Some(h),
            _ => Some(0),
        }
    }
    /// (saturation-like, height-like) in [0,1] for the cone shapes; for HWB the equivalent HSV values
    fn cone_coords(self, c: &[f64; 3]) -> (f64, f64) {
        match self {
            Shape::Cone => (c[1], c[2]),
            Shape::Bicone { unit } => (c[1] / unit, c[2] / unit),
            Shape::HwbCone => {
                let v = 1.0 - c[2];
                (if v > 0.0 { 1.0 - c[1] / v } else { 0.0 }, v)
            }
            _ => unreachable!(),
        }
    }
    /// the two non-hue coordinates mapped so that a volume-uniform sample is uniform in [0,1]^2, relative to the
    /// sub-volume between `lo` and `hi`
    fn volume_uniforms(self, c: &[f64; 3], lo: &[f64; 3], hi: &[f64; 3]) -> (f64, f64) {
        let rel = |x: f64, a: f64, b: f64| if b > a { (x - a) / (b - a) } else { 0.5 };
        match self {
            Shape::Cart(_) => unreachable!(),
            Shape::Cyl { z, r, .. } => (rel(c[z], lo[z], hi[z]), rel(c[r] * c[r], lo[r] * lo[r], hi[r] * hi[r])),
            Shape::Cone | Shape::HwbCone => {
                let ((s, v), (s0, v0), (s1, v1)) = (self.cone_coords(c), self.cone_coords(lo), self.cone_coords(hi));
                (rel(v * v * v, v0 * v0 * v0, v1 * v1 * v1), rel(s * s, s0 * s0, s1 * s1))
            }
            Shape::Bicone { .. } => {
                let ((s, l), (s0, l0), (s1, l1)) = (self.cone_coords(c), self.cone_coords(lo), self.cone_coords(hi));
                (rel(bicone_cdf(l), bicone_cdf(l0), bicone_cdf(l1)), rel(s * s, s0 * s0, s1 * s1))
            }
        }
    }
    /// full range of the shape as (low, high) colours
    fn full(self) -> ([f64; 3], [f64; 3]) {
        match self {
            Shape::Cart(r) => ([r[0].0, r[1].0, r[2].0], [r[0].1, r[1].1, r[2].1]),
            Shape::Cyl { h, z, r, zmax, rmax } => {
                let (mut lo, mut hi) = ([0.0; 3], [0.0; 3]);
                hi[h] = 360.0;
                hi[z] = zmax;
                hi[r] = rmax;
                lo[h] = 0.0;
                (lo, hi)
            }
            Shape::Cone => ([0.0, 0.0, 0.0], [360.0, 1.0, 1.0]),
            Shape::Bicone { unit } => ([0.0, 0.0, 0.0], [360.0, unit, unit]),
            // HSV (0, 0, 0) .. (360, 1, 1) = HWB (0, 0, 1) .. (360, 0, 0)
            Shape::HwbCone => ([0.0, 0.0, 1.0], [360.0, 0.0, 0.0]),
        }
    }
}

const BINS: usize = 32;
/// chi-square critical value for 31 degrees of freedom at p = 1e-12: a correct sampler exceeds it once in 1e12 runs
const CHI2_CRIT_31: f64 = 121.9;

/// chi-square critical value for 63 degrees of freedom at p = 1e-12 (scipy: 176.71)
const CHI2_CRIT_63: f64 = 176.8;

struct Hist {
    bins: [[u64; BINS]; 3],
    /// joint 4 x 4 x 4 cells of the three CDF coordinates: a sampler that re-uses one variate for two coordinates, or
    /// couples them in any other way, has perfect marginals and empty joint cells
    joint: [u64; 64],
    n: u64,
}
impl Hist {
    fn new() -> Hist {
        Hist { bins: [[0; BINS]; 3], joint: [0; 64], n: 0 }
    }
    fn add(&mut self, u: [f64; 3]) {
        let mut j = 0;
        for k in 0..3 {
            let b = ((u[k] * BINS as f64) as isize).clamp(0, BINS as isize - 1) as usize;
            self.bins[k][b] += 1;
            j = j * 4 + ((u[k] * 4.0) as isize).clamp(0, 3) as usize;
        }
        self.joint[j] += 1;
        self.n += 1;
    }
    fn chi2_joint(&self) -> f64 {
        let e = self.n as f64 / 64.0;
        self.joint.iter().map(|&o| (o as f64 - e) * (o as f64 - e) / e).sum()
    }
    fn chi2(&self, k: usize) -> f64 {
        let e = self.n as f64 / BINS as f64;
        self.bins[k].iter().map(|&o| (o as f64 - e) * (o as f64 - e) / e).sum()
    }
}

fn arr<C: ArrayCast<Array = [T; 3]>, T: Fl>(c: C) -> [f64; 3] {
    let a: [T; 3] = cast::into_array(c);
    [a[0].d(), a[1].d(), a[2].d()]
}
fn mk<C: ArrayCast<Array = [T; 3]>, T: Fl>(x: &[f64; 3]) -> C {
    cast::from_array([T::f(x[0]), T::f(x[1]), T::f(x[2])])
}

/// end points of a uniform sampler: low <= high per (shape) coordinate, hue arcs of every kind
fn ends(shape: Shape, rng: &mut PvRng, inclusive: bool) -> ([f64; 3], [f64; 3], f64) {
    let (flo, fhi) = shape.full();
    let mut lo = [0.0; 3];
    let mut hi = [0.0; 3];
    let mut arc = 0.0;
    let pick2 = |rng: &mut PvRng, a: f64, b: f64, inclusive: bool| -> (f64, f64) {
        match rng.below(8) {
            0 => (a, b),
            1 if inclusive => {
                let x = a + (b - a) * rng.unit();
                (x, x)
            }
            2 => (a, a + (b - a) * rng.unit().max(1e-3)),
            3 => (a + (b - a) * rng.unit().min(0.999), b),
            _ => {
                let (x, y) = (rng.unit(), rng.unit());
                let (x, y) = if x <= y { (x, y) } else { (y, x) };
                let y = if y - x < 1e-3 { (x + 1e-3).min(1.0) } else { y };
                let x = if y - x < 1e-3 { y - 1e-3 } else { x };
                (a + (b - a) * x, a + (b - a) * y)
            }
        }
    };
    match shape {
        Shape::Cart(r) => {
            for k in 0..3 {
                let (a, b) = pick2(rng, r[k].0, r[k].1, inclusive);
                lo[k] = a;
                hi[k] = b;
            }
        }
        _ => {
            let h = shape.hue_index().unwrap();
            // hue: raw low anywhere in [-360, 720), arc in (0, 360), incl. tiny arcs and arcs through 0 degrees
            let l = match rng.below(6) {
                0 => 0.0,
                1 => 350.0,
                2 => -10.0,
                3 => rng.range(300.0, 360.0),
                _ => rng.range(-360.0, 720.0),
            };
            arc = match rng.below(6) {
                0 => rng.range(0.01, 1.0),
                1 => rng.range(300.0, 359.0),
                2 => 180.0,
                3 if inclusive => 0.0,
                _ => rng.range(1.0, 359.0),
            };
            lo[h] = l;
            hi[h] = l + arc;
            match shape {
                Shape::Cyl { z, r, zmax, rmax, .. } => {
                    let (a, b) = pick2(rng, 0.0, zmax, inclusive);
                    lo[z] = a;
                    hi[z] = b;
                    let (a, b) = pick2(rng, 0.0, rmax, inclusive);
                    lo[r] = a;
                    hi[r] = b;
                }
                Shape::Cone | Shape::Bicone { .. } => {
                    let u = if let Shape::Bicone { unit } = shape { unit } else { 1.0 };
                    let (a, b) = pick2(rng, 0.0, u, inclusive);
                    lo[1] = a;
                    hi[1] = b;
                    let (a, b) = pick2(rng, 0.0, u, inclusive);
                    lo[2] = a;
                    hi[2] = b;
                }
                Shape::HwbCone => {
                    // chosen as HSV ends, expressed as HWB
                    let (s0, s1) = pick2(rng, 0.0, 1.0, inclusive);
                    let (v0, v1) = pick2(rng, 0.0, 1.0, inclusive);
                    lo[1] = (1.0 - s0) * v0;
                    lo[2] = 1.0 - v0;
                    hi[1] = (1.0 - s1) * v1;
                    hi[2] = 1.0 - v1;
                }
                _ => {}
            }
        }
    }
    let _ = (flo, fhi);
    (lo, hi, arc)
}


/// a degenerate "random" stream: cycles through a fixed list of 64-bit words (all zeros, all ones, alternating, the
/// smallest non-zero variate, exactly one half). `next_u32` hands out the upper half, which is what rand's f32 uses.
struct PatRng {
    pat: &'static [u64],
    i: usize,
}
impl rand::RngCore for PatRng {
    fn next_u32(&mut self) -> u32 {
        (self.next_u64() >> 32) as u32
    }
    fn next_u64(&mut self) -> u64 {
        let v = self.pat[self.i % self.pat.len()];
        self.i += 1;
        v
    }
    fn fill_bytes(&mut self, dest: &mut [u8]) {
        for chunk in dest.chunks_mut(8) {
            let b = self.next_u64().to_le_bytes();
            chunk.copy_from_slice(&b[..chunk.len()]);
        }
    }
    fn try_fill_bytes(&mut self, dest: &mut [u8]) -> Result<(), rand::Error> {
        self.fill_bytes(dest);
        Ok(())
    }
}
const HOSTILE: [(&str, &[u64]); 8] = [
    ("all_zeros", &[0]),
    ("all_ones", &[u64::MAX]),
    ("zeros_then_ones", &[0, u64::MAX]),
    ("ones_then_zeros", &[u64::MAX, 0]),
    ("smallest_nonzero_variate", &[1 << 11 | 1 << 40]),
    ("one_half", &[1 << 63]),
    ("zero_zero_ones", &[0, 0, u64::MAX]),
    ("ones_ones_zero", &[u64::MAX, u64::MAX, 0]),
];

/// containment of one sample between two ends, for every shape (no recorded-finding classes: callers keep bicone ends in
/// the lower half)
fn contained<T: Fl>(shape: Shape, a: &[f64; 3], lo: &[f64; 3], hi: &[f64; 3]) -> Option<&'static str> {
    let tol = |x: f64| 8.0 * T::ULP * (1.0 + x.abs());
    let h = shape.hue_index();
    if !a.iter().all(|v| v.is_finite()) {
        return Some("not_finite");
    }
    match shape {
        Shape::HwbCone => {
            let ((s, v), (s0, v0), (s1, v1)) = (shape.cone_coords(a), shape.cone_coords(lo), shape.cone_coords(hi));
            let t = 64.0 * T::ULP;
            let ts = |s_end: f64, v_end: f64| t * (1.0 + (1.0 - s_end).abs() / v_end.min(v).max(1e-300));
            let (sa, sb) = if s0 <= s1 { ((s0, v0), (s1, v1)) } else { ((s1, v1), (s0, v0)) };
            if !(s >= sa.0 - ts(sa.0, sa.1) && s <= sb.0 + ts(sb.0, sb.1) && v >= v0 - t && v <= v1 + t) {
                return Some("equivalent_hsv_saturation_or_value_outside_the_ends");
            }
        }
        _ => {
            for k in 0..3 {
                if Some(k) != h && !(a[k] >= lo[k] - tol(lo[k]) && a[k] <= hi[k] + tol(hi[k])) {
                    return Some("component_outside_the_ends");
                }
            }
        }
    }
    if let Some(hk) = h {
        let arc_c = hi[hk] - lo[hk];
        let off = (a[hk] - lo[hk]).rem_euclid(360.0);
        let t = 64.0 * T::ULP * 360.0;
        if !(off <= arc_c + t || off >= 360.0 - t) {
            return Some("hue_not_on_the_arc_from_low_to_high");
        }
    }
    None
}

/// the degenerate streams through the Standard distribution and through uniform samplers
fn run_hostile<C, T>(m: &mut Monitor, inst: &str, shape: Shape, bounded: bool)
where
    T: Fl,
    C: ArrayCast<Array = [T; 3]> + Copy + SampleUniform + IsWithinBounds<Mask = bool>,
    Standard: Distribution<C>,
{
    let (flo, fhi) = shape.full();
    let h = shape.hue_index();
    // a sub-range strictly inside the shape (bicone: lower half, see the recorded finding), hue arc through 0 degrees
    let frac = |a: f64, b: f64| -> ([f64; 3], [f64; 3]) {
        let (mut lo, mut hi) = ([0.0; 3], [0.0; 3]);
        for k in 0..3 {
            lo[k] = flo[k] + (fhi[k] - flo[k]) * a;
            hi[k] = flo[k] + (fhi[k] - flo[k]) * b;
        }
        if let Some(hk) = h {
            lo[hk] = 340.0;
            hi[hk] = 380.0;
        }
        if shape == Shape::HwbCone {
            // HSV (s, v) from (a, a) to (b, b)
            lo[1] = (1.0 - a) * a;
            lo[2] = 1.0 - a;
            hi[1] = (1.0 - b) * b;
            hi[2] = 1.0 - b;
        }
        (lo, hi)
    };
    let mut ranges = vec![frac(0.125, 0.375), frac(0.0, 0.25)];
    if !matches!(shape, Shape::Bicone { .. }) {
        ranges.push(frac(0.5, 1.0));
        ranges.push({
            let (mut lo, mut hi) = shape.full();
            if let Some(hk) = h {
                lo[hk] = 0.0;
                hi[hk] = 359.0;
            }
            (lo, hi)
        });
    }
    for (pname, pat) in HOSTILE.iter() {
        let res = std::panic::catch_unwind(std::panic::AssertUnwindSafe(|| {
            let mut out: Vec<(String, [f64; 3], serde_json::Value)> = Vec::new();
            let mut n = 0u64;
            let mut rng = PatRng { pat, i: 0 };
            for i in 0..6 {
                let c: C = rng.gen();
                let a = arr::<C, T>(c);
                n += 1;
                let mut bad = !a.iter().all(|v| v.is_finite()) || (bounded && !c.is_within_bounds());
                if let Some(hk) = h {
                    bad |= !(a[hk] >= 0.0 && a[hk] <= 360.0);
                }
                if bad {
                    out.push(("standard_sample_outside_bounds:degenerate_stream".into(), a, json!({"stream": pname, "index": i})));
                }
            }
            for (lo, hi) in ranges.iter() {
                let (lo_c, hi_c): (C, C) = (mk::<C, T>(lo), mk::<C, T>(hi));
                let (lo, hi) = (arr::<C, T>(lo_c), arr::<C, T>(hi_c));
                for inclusive in [false, true] {
                    let sampler = if inclusive { Uniform::new_inclusive(lo_c, hi_c) } else { Uniform::new(lo_c, hi_c) };
                    let mut rng = PatRng { pat, i: 0 };
                    for i in 0..6 {
                        let c: C = sampler.sample(&mut rng);
                        let a = arr::<C, T>(c);
                        n += 1;
                        if let Some(class) = contained::<T>(shape, &a, &lo, &hi) {
                            out.push((format!("{}:degenerate_stream", class), a, json!({"stream": pname, "index": i, "low": fvec(&lo), "high": fvec(&hi), "inclusive": inclusive})));
                        }
                    }
                }
            }
            (n, out)
        }));
        match res {
            Ok((n, out)) => {
                for _ in 0..n {
                    m.eval();
                }
                for (class, a, input) in out {
                    m.violate(inst, &class, input, fvec(&a), json!("finite, within bounds / between the ends"), "");
                }
            }
            Err(_) => m.violate(inst, "sampling_panics:degenerate_stream", json!({"stream": pname}), json!("panic"), json!("a sample"), ""),
        }
        m.cell_s(&format!("{}hostile{}", inst, pname));
    }
}

#[allow(clippy::too_many_arguments)]
fn run_type<C, T>(ctx: &Ctx, m: &mut Monitor, u: &mut Monitor, name: &str, shape: Shape, bounded: bool)
where
    T: Fl,
    C: ArrayCast<Array = [T; 3]> + Copy + SampleUniform + IsWithinBounds<Mask = bool>,
    Standard: Distribution<C>,
{
    let inst = format!("{}/{}", name, T::NAME);
    let mut prng = ctx.rng(&inst, 0);
    let tol = |x: f64| 8.0 * T::ULP * (1.0 + x.abs());
    let (flo, fhi) = shape.full();
    let h = shape.hue_index();
    // ---------------- Standard distribution: within bounds, for many RNG streams
    let streams = ctx.n(40, 1000);
    let per = ctx.n(500, 5000);
    let mut hist = Hist::new();
    for s in 0..streams {
        let seed = pvmon::rng::mix(ctx.seed, pvmon::rng::mix(pvmon::rng::hash_str(&inst), s));
        let mut r1 = rand::rngs::StdRng::seed_from_u64(seed);
        let mut r2 = rand_mt::Mt64::new(seed);
        for i in 0..per {
            let c: C = if i % 2 == 0 { r1.gen() } else { r2.gen() };
            let a = arr::<C, T>(c);
            m.eval();
            let mut bad = !a.iter().all(|v| v.is_finite());
            if bounded && !c.is_within_bounds() {
                bad = true;
            }
            for k in 0..3 {
                if Some(k) == h {
                    // the hue itself is any angle; as a sample it must be a finite angle in [0, 360]
                    if !(a[k] >= 0.0 && a[k] <= 360.0) {
                        bad = true;
                    }
                } else if shape == Shape::HwbCone {
                    if !(a[k] >= 0.0 && a[k] <= 1.0) {
                        bad = true;
                    }
                } else {
                    let (l, hgh) = (flo[k].min(fhi[k]), flo[k].max(fhi[k]));
                    if !(a[k] >= l - tol(l) && a[k] <= hgh + tol(hgh)) {
                        bad = true;
                    }
                }
            }
            if shape == Shape::HwbCone && !(a[1] + a[2] <= 1.0 + tol(1.0)) {
                bad = true;
            }
            if bad {
                m.violate(&inst, "standard_sample_outside_bounds", json!({"stream_seed": seed, "index": i, "rng": if i % 2 == 0 { "StdRng" } else { "Mt64" }}), fvec(&a), json!({"low": fvec(&flo), "high": fvec(&fhi)}), "");
            }
            if !matches!(shape, Shape::Cart(_)) {
                let (u1, u2) = shape.volume_uniforms(&a, &flo, &fhi);
                hist.add([u1, u2, a[h.unwrap()] / 360.0]);
            }
        }
        m.cell_s(&format!("{}std{}", inst, s % 16));
    }
    if !matches!(shape, Shape::Cart(_)) {
        let is_cone = !matches!(shape, Shape::Cyl { .. });
        for (k, what) in ["height_cdf", "radius_squared", "hue"].iter().enumerate() {
            let x = hist.chi2(k);
            u.eval();
            u.counter_max(&format!("max:chi2_x10:{}:standard:{}", if is_cone { "cone" } else { "cylinder" }, what), (x * 10.0) as u64);
            if x > CHI2_CRIT_31 {
                u.violate(&inst, &format!("standard_not_uniform_in_volume:{}", what), json!({"samples": hist.n, "bins": BINS}), json!({"chi2": x, "histogram": hist.bins[k].to_vec()}), json!({"chi2_critical_p1e-12": CHI2_CRIT_31}), "");
            }
        }
        let x = hist.chi2_joint();
        u.eval();
        u.counter_max(&format!("max:chi2_x10:{}:standard:joint_4x4x4", if is_cone { "cone" } else { "cylinder" }), (x * 10.0) as u64);
        if x > CHI2_CRIT_63 {
            u.violate(&inst, "standard_not_uniform_in_volume:joint_cells", json!({"samples": hist.n, "cells": 64}), json!({"chi2": x, "histogram": hist.joint.to_vec()}), json!({"chi2_critical_p1e-12": CHI2_CRIT_63}), "");
        }
        u.cell_s(&format!("{}std", inst));
    }
    // ---------------- Uniform sampler between two colours
    let ranges = ctx.n(150, 10_000);
    let per = ctx.n(60, 300);
    for ri in 0..ranges {
        let inclusive = ri % 2 == 1;
        let (lo, hi, arc) = ends(shape, &mut prng, inclusive);
        // round the ends to the component type first: containment is judged against what the sampler was given
        let (lo_c, hi_c): (C, C) = (mk::<C, T>(&lo), mk::<C, T>(&hi));
        let (lo, hi) = (arr::<C, T>(lo_c), arr::<C, T>(hi_c));
        // exclusive samplers need low < high in every (transformed) coordinate
        if !inclusive {
            let degenerate = match shape {
                Shape::HwbCone => {
                    let ((s0, v0), (s1, v1)) = (shape.cone_coords(&lo), shape.cone_coords(&hi));
                    !(s0 < s1 && v0 < v1)
                }
                _ => (0..3).any(|k| !(lo[k] < hi[k])),
            };
            if degenerate {
                continue;
            }
        }
        let sampler = match std::panic::catch_unwind(std::panic::AssertUnwindSafe(|| if inclusive { Uniform::new_inclusive(lo_c, hi_c) } else { Uniform::new(lo_c, hi_c) })) {
            Ok(s) => s,
            Err(_) => {
                // recorded finding: two different lightness ends next to white collapse to the same CDF value
                let collapsed = if let Shape::Bicone { unit } = shape { !inclusive && T::f(bicone_cdf(lo[2] / unit)).d() >= T::f(bicone_cdf(hi[2] / unit)).d() && lo[2] / unit > 0.5 } else { false };
                m.violate(&inst, if collapsed { "uniform_sampler_construction_panics:bicone_upper_half_rounding" } else { "uniform_sampler_construction_panics" }, json!({"low": fvec(&lo), "high": fvec(&hi), "inclusive": inclusive}), json!("panic"), json!("a sampler"), "low <= high in every coordinate");
                continue;
            }
        };
        let seed = pvmon::rng::mix(ctx.seed, pvmon::rng::mix(pvmon::rng::hash_str(&inst), 1000 + ri));
        let mut r1 = rand::rngs::StdRng::seed_from_u64(seed);
        let mut local = Hist::new();
        let big = ri < 4; // a few ranges get enough samples for the volume test
        for i in 0..(if big { ctx.n(40_000, 200_000) } else { per }) {
            let c: C = sampler.sample(&mut r1);
            let a = arr::<C, T>(c);
            m.eval();
            let mut bad: Option<&str> = None;
            if !a.iter().all(|v| v.is_finite()) {
                bad = Some("not_finite");
            }
            match shape {
                Shape::HwbCone => {
                    let ((s, v), (s0, v0), (s1, v1)) = (shape.cone_coords(&a), shape.cone_coords(&lo), shape.cone_coords(&hi));
                    let t = 64.0 * T::ULP;
                    // s = 1 - w / v: the ends' and the sample's own rounding of v = 1 - b (absolute ulp of 1) is divided by v
                    let ts = |s_end: f64, v_end: f64| t * (1.0 + (1.0 - s_end).abs() / v_end.min(v).max(1e-300));
                    // (ends chosen with equal saturation can come back in either order after rounding to the component type)
                    let (sa, sb) = if s0 <= s1 { ((s0, v0), (s1, v1)) } else { ((s1, v1), (s0, v0)) };
                    if !(s >= sa.0 - ts(sa.0, sa.1) && s <= sb.0 + ts(sb.0, sb.1) && v >= v0 - t && v <= v1 + t) {
                        bad = Some("equivalent_hsv_saturation_or_value_outside_the_ends");
                    }
                }
                _ => {
                    for k in 0..3 {
                        if Some(k) == h {
                            continue;
                        }
                        if !(a[k] >= lo[k] - tol(lo[k]) && a[k] <= hi[k] + tol(hi[k])) {
                            bad = Some("component_outside_the_ends");
                            // recorded finding: the bicone samplers parameterise the upper half by r1 -> 1, where the float
                            // grid is coarse: the lightness comes back with an error of ulp / (12 (1 - l)^2)
                            if let (Shape::Bicone { unit }, 2) = (shape, k) {
                                let excess = (lo[k] - a[k]).max(a[k] - hi[k]) / unit;
                                let l = (if a[k] < lo[k] { lo[k] } else { hi[k] }) / unit;
                                if l > 0.5 && l < 1.0 && excess <= 8.0 * T::ULP / (12.0 * (1.0 - l) * (1.0 - l)) && (0..2).all(|j| Some(j) == h || (a[j] >= lo[j] - tol(lo[j]) && a[j] <= hi[j] + tol(hi[j]))) {
                                    bad = Some("component_outside_the_ends:bicone_upper_half_rounding");
                                }
                            }
                        }
                    }
                }
            }
            let mut hue_u = 0.5;
            if let Some(hk) = h {
                // on the arc from the low hue to the high hue
                let arc_c = hi[hk] - lo[hk];
                let off = (a[hk] - lo[hk]).rem_euclid(360.0);
                let t = 64.0 * T::ULP * 360.0;
                let on_arc = off <= arc_c + t || off >= 360.0 - t;
                if !on_arc {
                    bad = Some("hue_not_on_the_arc_from_low_to_high");
                }
                hue_u = if arc_c > 0.0 { (if off >= 360.0 - t { 0.0 } else { off }) / arc_c } else { 0.5 };
            }
            if let Some(class) = bad {
                m.violate(&inst, class, json!({"low": fvec(&lo), "high": fvec(&hi), "inclusive": inclusive, "stream_seed": seed, "index": i, "hue_arc": arc}), fvec(&a), json!("every component between the ends, hue on the arc"), "");
                break;
            }
            if big && !matches!(shape, Shape::Cart(_)) {
                let (u1, u2) = shape.volume_uniforms(&a, &lo, &hi);
                local.add([u1, u2, hue_u]);
            }
        }
        if big && !matches!(shape, Shape::Cart(_)) && local.n > 1000 {
            let mut testable = 0;
            for (k, what) in ["height_cdf", "radius_squared", "hue"].iter().enumerate() {
                // a coordinate with equal ends carries no distribution
                let flat = match (k, shape) {
                    (2, _) => !(hi[h.unwrap()] > lo[h.unwrap()]),
                    (_, Shape::Cyl { z, r, .. }) => !(hi[if k == 0 { z } else { r }] > lo[if k == 0 { z } else { r }]),
                    (_, _) => {
                        let ((s0, v0), (s1, v1)) = (shape.cone_coords(&lo), shape.cone_coords(&hi));
                        if k == 0 {
                            !(v1 > v0)
                        } else {
                            !(s1 > s0)
                        }
                    }
                };
                if flat {
                    continue;
                }
                // the samplers draw in the CDF coordinate; an interval of fewer than ~3e5 float steps there (equal or
                // nearly equal ends, or a sliver next to the upper apex of a bicone in f32) yields visibly quantised
                // samples, which a chi-square test reads as non-uniform: not a distribution question
                let width = match (k, shape) {
                    (2, _) => (hi[h.unwrap()] - lo[h.unwrap()]) / 360.0,
                    (_, Shape::Cyl { z, r, zmax, rmax, .. }) => {
                        if k == 0 {
                            (hi[z] - lo[z]) / zmax
                        } else {
                            (hi[r] * hi[r] - lo[r] * lo[r]) / (rmax * rmax)
                        }
                    }
                    (_, Shape::Bicone { .. }) => {
                        let ((s0, l0), (s1, l1)) = (shape.cone_coords(&lo), shape.cone_coords(&hi));
                        if k == 0 {
                            bicone_cdf(l1) - bicone_cdf(l0)
                        } else {
                            s1 * s1 - s0 * s0
                        }
                    }
                    (_, _) => {
                        let ((s0, v0), (s1, v1)) = (shape.cone_coords(&lo), shape.cone_coords(&hi));
                        if k == 0 {
                            v1 * v1 * v1 - v0 * v0 * v0
                        } else {
                            s1 * s1 - s0 * s0
                        }
                    }
                };
                if !(width >= 3e5 * T::ULP) {
                    u.count("not_tested_interval_below_3e5_float_steps");
                    continue;
                }
                // f32 ends closer than a few thousand ulps quantise the samples: no distribution test
                testable += 1;
                let x = local.chi2(k);
                u.eval();
                u.counter_max(&format!("max:chi2_x10:uniform_sampler:{}", what), (x * 10.0) as u64);
                if x > CHI2_CRIT_31 {
                    u.violate(&inst, &format!("uniform_sampler_not_uniform_in_volume:{}", what), json!({"low": fvec(&lo), "high": fvec(&hi), "inclusive": inclusive, "samples": local.n}), json!({"chi2": x, "histogram": local.bins[k].to_vec()}), json!({"chi2_critical_p1e-12": CHI2_CRIT_31}), "");
                }
            }
            if testable == 3 {
                let x = local.chi2_joint();
                u.eval();
                u.counter_max("max:chi2_x10:uniform_sampler:joint_4x4x4", (x * 10.0) as u64);
                if x > CHI2_CRIT_63 {
                    u.violate(&inst, "uniform_sampler_not_uniform_in_volume:joint_cells", json!({"low": fvec(&lo), "high": fvec(&hi), "inclusive": inclusive, "samples": local.n}), json!({"chi2": x, "histogram": local.joint.to_vec()}), json!({"chi2_critical_p1e-12": CHI2_CRIT_63}), "");
                }
            }
            u.cell_s(&format!("{}uni{}", inst, ri));
        }
        m.cell_s(&format!("{}uni{}{}", inst, inclusive, ri % 32));
    }
    run_hostile::<C, T>(m, &inst, shape, bounded);
}

// ---------------------------------------------------------------------------------------------------------------------
// types outside the 3-float mould: luma (one component), transparent colours (colour + alpha), bare hues

fn chi2_of(bins: &[u64]) -> f64 {
    let n: u64 = bins.iter().sum();
    let e = n as f64 / bins.len() as f64;
    bins.iter().map(|&o| (o as f64 - e) * (o as f64 - e) / e).sum()
}

/// N independent components with nominal ranges: Standard within the ranges and uniform per component and per pair of
/// neighbouring components (8 x 8 cells); Uniform::new / new_inclusive between seeded ends: contained, uniform.
fn run_flat<C, T, const N: usize>(ctx: &Ctx, m: &mut Monitor, u: &mut Monitor, name: &str, bounds: [(f64, f64); N], within: impl Fn(&C) -> bool)
where
    T: Fl,
    C: ArrayCast<Array = [T; N]> + Copy + SampleUniform,
    Standard: Distribution<C>,
{
    let inst = format!("{}/{}", name, T::NAME);
    let mut prng = ctx.rng(&inst, 7);
    let tol = |x: f64| 8.0 * T::ULP * (1.0 + x.abs());
    let get = |c: C| -> [f64; N] {
        let a: [T; N] = cast::into_array(c);
        let mut o = [0.0; N];
        for k in 0..N {
            o[k] = a[k].d();
        }
        o
    };
    let make = |x: &[f64; N]| -> C {
        let mut a = [T::f(0.0); N];
        for k in 0..N {
            a[k] = T::f(x[k]);
        }
        cast::from_array(a)
    };
    let total = ctx.n(20_000, 400_000);
    let streams = 20;
    // ---- Standard
    let mut marg = vec![[0u64; BINS]; N];
    let mut pairs = vec![[0u64; 64]; N.saturating_sub(1)];
    for sidx in 0..streams {
        let seed = pvmon::rng::mix(ctx.seed, pvmon::rng::mix(pvmon::rng::hash_str(&inst), 500 + sidx));
        let mut r1 = rand::rngs::StdRng::seed_from_u64(seed);
        let mut r2 = rand_mt::Mt64::new(seed);
        for i in 0..total / streams {
            let c: C = if i % 2 == 0 { r1.gen() } else { r2.gen() };
            let a = get(c);
            m.eval();
            let mut bad = !within(&c);
            let mut cell = [0usize; N];
            for k in 0..N {
                if !(a[k] >= bounds[k].0 - tol(bounds[k].0) && a[k] <= bounds[k].1 + tol(bounds[k].1)) {
                    bad = true;
                }
                let x = (a[k] - bounds[k].0) / (bounds[k].1 - bounds[k].0);
                marg[k][((x * BINS as f64) as isize).clamp(0, BINS as isize - 1) as usize] += 1;
                cell[k] = ((x * 8.0) as isize).clamp(0, 7) as usize;
            }
            for k in 0..N.saturating_sub(1) {
                pairs[k][cell[k] * 8 + cell[k + 1]] += 1;
            }
            if bad {
                m.violate(&inst, "standard_sample_outside_bounds", json!({"stream_seed": seed, "index": i}), fvec(&a), json!({"bounds": bounds.iter().map(|b| vec![b.0, b.1]).collect::<Vec<_>>()}), "");
            }
        }
        m.cell_s(&format!("{}std{}", inst, sidx % 16));
    }
    for k in 0..N {
        let x = chi2_of(&marg[k]);
        u.eval();
        u.counter_max("max:chi2_x10:flat:standard:component", (x * 10.0) as u64);
        if x > CHI2_CRIT_31 {
            u.violate(&inst, &format!("standard_component_not_uniform:{}", k), json!({"samples": total}), json!({"chi2": x, "histogram": marg[k].to_vec()}), json!({"chi2_critical_p1e-12": CHI2_CRIT_31}), "");
        }
    }
    for k in 0..N.saturating_sub(1) {
        let x = chi2_of(&pairs[k]);
        u.eval();
        u.counter_max("max:chi2_x10:flat:standard:pair_8x8", (x * 10.0) as u64);
        if x > CHI2_CRIT_63 {
            u.violate(&inst, &format!("standard_components_not_independent:{}_{}", k, k + 1), json!({"samples": total}), json!({"chi2": x, "histogram": pairs[k].to_vec()}), json!({"chi2_critical_p1e-12": CHI2_CRIT_63}), "");
        }
    }
    u.cell_s(&format!("{}flatstd", inst));
    // ---- Uniform between two ends
    let ranges = ctx.n(60, 2_000);
    for ri in 0..ranges {
        let inclusive = ri % 2 == 1;
        let mut lo = [0.0; N];
        let mut hi = [0.0; N];
        for k in 0..N {
            let (a, b) = bounds[k];
            let (x, y) = match prng.below(6) {
                0 => (a, b),
                1 if inclusive => {
                    let x = a + (b - a) * prng.unit();
                    (x, x)
                }
                2 => (a, a + (b - a) * prng.unit().max(1e-3)),
                _ => {
                    let (x, y) = (prng.unit(), prng.unit());
                    let (x, y) = if x <= y { (x, y) } else { (y, x) };
                    let y = if y - x < 1e-3 { (x + 1e-3).min(1.0) } else { y };
                    let x = if y - x < 1e-3 { y - 1e-3 } else { x };
                    (a + (b - a) * x, a + (b - a) * y)
                }
            };
            lo[k] = x;
            hi[k] = y;
        }
        let (lo_c, hi_c) = (make(&lo), make(&hi));
        let (lo, hi) = (get(lo_c), get(hi_c));
        if !inclusive && (0..N).any(|k| !(lo[k] < hi[k])) {
            continue;
        }
        let sampler = match std::panic::catch_unwind(std::panic::AssertUnwindSafe(|| if inclusive { Uniform::new_inclusive(lo_c, hi_c) } else { Uniform::new(lo_c, hi_c) })) {
            Ok(s) => s,
            Err(_) => {
                m.violate(&inst, "uniform_sampler_construction_panics", json!({"low": fvec(&lo), "high": fvec(&hi), "inclusive": inclusive}), json!("panic"), json!("a sampler"), "");
                continue;
            }
        };
        let seed = pvmon::rng::mix(ctx.seed, pvmon::rng::mix(pvmon::rng::hash_str(&inst), 9000 + ri));
        let mut r1 = rand::rngs::StdRng::seed_from_u64(seed);
        let big = ri < 2;
        let mut marg = vec![[0u64; BINS]; N];
        let mut pairs = vec![[0u64; 64]; N.saturating_sub(1)];
        let cnt = if big { total } else { 50 };
        for i in 0..cnt {
            let c: C = sampler.sample(&mut r1);
            let a = get(c);
            m.eval();
            let mut cell = [0usize; N];
            let mut bad = false;
            for k in 0..N {
                if !(a[k] >= lo[k] - tol(lo[k]) && a[k] <= hi[k] + tol(hi[k])) || !a[k].is_finite() {
                    bad = true;
                }
                let x = if hi[k] > lo[k] { (a[k] - lo[k]) / (hi[k] - lo[k]) } else { 0.5 };
                marg[k][((x * BINS as f64) as isize).clamp(0, BINS as isize - 1) as usize] += 1;
                cell[k] = ((x * 8.0) as isize).clamp(0, 7) as usize;
            }
            for k in 0..N.saturating_sub(1) {
                pairs[k][cell[k] * 8 + cell[k + 1]] += 1;
            }
            if bad {
                m.violate(&inst, "component_outside_the_ends", json!({"low": fvec(&lo), "high": fvec(&hi), "inclusive": inclusive, "stream_seed": seed, "index": i}), fvec(&a), json!("every component between the ends"), "");
                break;
            }
        }
        if big {
            let wide = |k: usize| (hi[k] - lo[k]) / (bounds[k].1 - bounds[k].0) >= 3e5 * T::ULP;
            for k in 0..N {
                if !wide(k) {
                    continue;
                }
                let x = chi2_of(&marg[k]);
                u.eval();
                u.counter_max("max:chi2_x10:flat:uniform_sampler:component", (x * 10.0) as u64);
                if x > CHI2_CRIT_31 {
                    u.violate(&inst, &format!("uniform_sampler_component_not_uniform:{}", k), json!({"low": fvec(&lo), "high": fvec(&hi), "inclusive": inclusive, "samples": cnt}), json!({"chi2": x, "histogram": marg[k].to_vec()}), json!({"chi2_critical_p1e-12": CHI2_CRIT_31}), "");
                }
            }
            for k in 0..N.saturating_sub(1) {
                if !(wide(k) && wide(k + 1)) {
                    continue;
                }
                let x = chi2_of(&pairs[k]);
                u.eval();
                u.counter_max("max:chi2_x10:flat:uniform_sampler:pair_8x8", (x * 10.0) as u64);
                if x > CHI2_CRIT_63 {
                    u.violate(&inst, &format!("uniform_sampler_components_not_independent:{}_{}", k, k + 1), json!({"low": fvec(&lo), "high": fvec(&hi), "inclusive": inclusive, "samples": cnt}), json!({"chi2": x, "histogram": pairs[k].to_vec()}), json!({"chi2_critical_p1e-12": CHI2_CRIT_63}), "");
                }
            }
            u.cell_s(&format!("{}flatuni{}", inst, ri));
        }
        m.cell_s(&format!("{}uni{}{}", inst, inclusive, ri % 32));
    }
    // ---- degenerate streams
    for (pname, pat) in HOSTILE.iter() {
        let res = std::panic::catch_unwind(std::panic::AssertUnwindSafe(|| {
            let mut bad: Vec<(String, Vec<f64>)> = Vec::new();
            let mut rng = PatRng { pat, i: 0 };
            for _ in 0..6 {
                let c: C = rng.gen();
                let a = get(c);
                if !within(&c) || (0..N).any(|k| !(a[k] >= bounds[k].0 - tol(bounds[k].0) && a[k] <= bounds[k].1 + tol(bounds[k].1))) {
                    bad.push(("standard_sample_outside_bounds:degenerate_stream".into(), a.to_vec()));
                }
            }
            let mut lo = [0.0; N];
            let mut hi = [0.0; N];
            for k in 0..N {
                lo[k] = bounds[k].0 + (bounds[k].1 - bounds[k].0) * 0.25;
                hi[k] = bounds[k].0 + (bounds[k].1 - bounds[k].0) * 0.75;
            }
            let (lo_c, hi_c) = (make(&lo), make(&hi));
            for inclusive in [false, true] {
                let sampler = if inclusive { Uniform::new_inclusive(lo_c, hi_c) } else { Uniform::new(lo_c, hi_c) };
                let mut rng = PatRng { pat, i: 0 };
                for _ in 0..6 {
                    let a = get(sampler.sample(&mut rng));
                    if (0..N).any(|k| !(a[k] >= lo[k] - tol(lo[k]) && a[k] <= hi[k] + tol(hi[k]))) {
                        bad.push(("component_outside_the_ends:degenerate_stream".into(), a.to_vec()));
                    }
                }
            }
            bad
        }));
        for _ in 0..18 {
            m.eval();
        }
        match res {
            Ok(bad) => {
                for (class, a) in bad {
                    m.violate(&inst, &class, json!({"stream": pname}), fvec(&a), json!("within bounds / between the ends"), "");
                }
            }
            Err(_) => m.violate(&inst, "sampling_panics:degenerate_stream", json!({"stream": pname}), json!("panic"), json!("a sample"), ""),
        }
        m.cell_s(&format!("{}hostile{}", inst, pname));
    }
}

/// a transparent colour whose colour part has one of the shaped samplers: the colour part obeys the shape's contract, the
/// alpha lies between the alphas of the ends, is uniform, and is independent of the colour's height coordinate
fn run_alpha_shape<C, T>(ctx: &Ctx, m: &mut Monitor, u: &mut Monitor, name: &str, shape: Shape)
where
    T: Fl,
    C: ArrayCast<Array = [T; 3]> + Copy + SampleUniform + IsWithinBounds<Mask = bool>,
    Standard: Distribution<C> + Distribution<T>,
{
    use palette::Alpha;
    let inst = format!("Alpha<{}>/{}", name, T::NAME);
    let mut prng = ctx.rng(&inst, 11);
    let (flo, fhi) = shape.full();
    let total = ctx.n(20_000, 300_000);
    // ---- Standard
    let seed = pvmon::rng::mix(ctx.seed, pvmon::rng::hash_str(&inst));
    let mut r1 = rand::rngs::StdRng::seed_from_u64(seed);
    let mut marg = [0u64; BINS];
    let mut joint = [0u64; 64];
    for i in 0..total {
        let c: Alpha<C, T> = r1.gen();
        let (a, al) = (arr::<C, T>(c.color), c.alpha.d());
        m.eval();
        if !c.color.is_within_bounds() || !(al >= 0.0 && al <= 1.0) || !a.iter().all(|v| v.is_finite()) {
            m.violate(&inst, "standard_sample_outside_bounds", json!({"stream_seed": seed, "index": i}), json!({"color": fvec(&a), "alpha": al}), json!("colour within bounds, alpha in [0, 1]"), "");
        }
        let (u1, _) = shape.volume_uniforms(&a, &flo, &fhi);
        marg[((al * BINS as f64) as isize).clamp(0, BINS as isize - 1) as usize] += 1;
        joint[((al * 8.0) as isize).clamp(0, 7) as usize * 8 + ((u1 * 8.0) as isize).clamp(0, 7) as usize] += 1;
    }
    for (x, crit, class) in [(chi2_of(&marg), CHI2_CRIT_31, "standard_alpha_not_uniform"), (chi2_of(&joint), CHI2_CRIT_63, "standard_alpha_not_independent_of_colour")] {
        u.eval();
        u.counter_max(&format!("max:chi2_x10:alpha:{}", class), (x * 10.0) as u64);
        if x > crit {
            u.violate(&inst, class, json!({"samples": total}), json!({"chi2": x}), json!({"chi2_critical_p1e-12": crit}), "");
        }
    }
    u.cell_s(&format!("{}std", inst));
    m.cell_s(&format!("{}std", inst));
    // ---- Uniform
    let ranges = ctx.n(60, 2_000);
    for ri in 0..ranges {
        let inclusive = ri % 2 == 1;
        let (mut lo, mut hi, _arc) = ends(shape, &mut prng, inclusive);
        if let Shape::Bicone { unit } = shape {
            // lower half only (recorded finding about the upper half of the bicone samplers)
            lo[2] *= 0.5;
            hi[2] *= 0.5;
            let _ = unit;
        }
        let (a0, a1) = {
            let (x, y) = (prng.unit(), prng.unit());
            let (x, y) = if x <= y { (x, y) } else { (y, x) };
            match prng.below(4) {
                0 => (0.0, 1.0),
                1 if inclusive => (x, x),
                _ => (x, if y - x < 1e-3 { (x + 1e-3).min(1.0) } else { y }),
            }
        };
        let (lo_c, hi_c): (C, C) = (mk::<C, T>(&lo), mk::<C, T>(&hi));
        let (lo, hi) = (arr::<C, T>(lo_c), arr::<C, T>(hi_c));
        let (a0t, a1t) = (T::f(a0), T::f(a1));
        let (a0, a1) = (a0t.d(), a1t.d());
        if !inclusive {
            let degenerate = match shape {
                Shape::HwbCone => {
                    let ((s0, v0), (s1, v1)) = (shape.cone_coords(&lo), shape.cone_coords(&hi));
                    !(s0 < s1 && v0 < v1)
                }
                _ => (0..3).any(|k| !(lo[k] < hi[k])),
            } || !(a0 < a1);
            if degenerate {
                continue;
            }
        }
        let (lo_a, hi_a) = (Alpha { color: lo_c, alpha: a0t }, Alpha { color: hi_c, alpha: a1t });
        let sampler = match std::panic::catch_unwind(std::panic::AssertUnwindSafe(|| if inclusive { Uniform::new_inclusive(lo_a, hi_a) } else { Uniform::new(lo_a, hi_a) })) {
            Ok(s) => s,
            Err(_) => {
                m.violate(&inst, "uniform_sampler_construction_panics", json!({"low": fvec(&lo), "high": fvec(&hi), "alpha": [a0, a1], "inclusive": inclusive}), json!("panic"), json!("a sampler"), "");
                continue;
            }
        };
        let seed = pvmon::rng::mix(ctx.seed, pvmon::rng::mix(pvmon::rng::hash_str(&inst), 1000 + ri));
        let mut r1 = rand::rngs::StdRng::seed_from_u64(seed);
        let big = ri < 2 && a1 - a0 >= 3e5 * T::ULP;
        let mut marg = [0u64; BINS];
        let cnt = if big { total } else { 50 };
        for i in 0..cnt {
            let c: Alpha<C, T> = sampler.sample(&mut r1);
            let (a, al) = (arr::<C, T>(c.color), c.alpha.d());
            m.eval();
            let t = 8.0 * T::ULP;
            let class = contained::<T>(shape, &a, &lo, &hi).or(if !(al >= a0 - t && al <= a1 + t) { Some("alpha_outside_the_ends") } else { None });
            if let Some(class) = class {
                m.violate(&inst, class, json!({"low": fvec(&lo), "high": fvec(&hi), "alpha": [a0, a1], "inclusive": inclusive, "stream_seed": seed, "index": i}), json!({"color": fvec(&a), "alpha": al}), json!("colour between the ends, alpha between the alphas of the ends"), "");
                break;
            }
            let x = if a1 > a0 { (al - a0) / (a1 - a0) } else { 0.5 };
            marg[((x * BINS as f64) as isize).clamp(0, BINS as isize - 1) as usize] += 1;
        }
        if big {
            let x = chi2_of(&marg);
            u.eval();
            u.counter_max("max:chi2_x10:alpha:uniform_sampler_alpha", (x * 10.0) as u64);
            if x > CHI2_CRIT_31 {
                u.violate(&inst, "uniform_sampler_alpha_not_uniform", json!({"alpha": [a0, a1], "samples": cnt}), json!({"chi2": x, "histogram": marg.to_vec()}), json!({"chi2_critical_p1e-12": CHI2_CRIT_31}), "");
            }
            u.cell_s(&format!("{}uni{}", inst, ri));
        }
        m.cell_s(&format!("{}uni{}{}", inst, inclusive, ri % 32));
    }
}

/// the five hue types as samplable values of their own
trait HueT<T>: Copy + SampleUniform {
    fn from_deg(x: T) -> Self;
    fn pos(self) -> T;
}
macro_rules! hue_t {
    ($($h:ident),*) => {$(
        impl HueT<f32> for palette::$h<f32> { fn from_deg(x: f32) -> Self { palette::$h::from_degrees(x) } fn pos(self) -> f32 { self.into_positive_degrees() } }
        impl HueT<f64> for palette::$h<f64> { fn from_deg(x: f64) -> Self { palette::$h::from_degrees(x) } fn pos(self) -> f64 { self.into_positive_degrees() } }
    )*};
}
hue_t!(RgbHue, LabHue, LuvHue, OklabHue);
impl HueT<f32> for palette::hues::Cam16Hue<f32> { fn from_deg(x: f32) -> Self { palette::hues::Cam16Hue::from_degrees(x) } fn pos(self) -> f32 { self.into_positive_degrees() } }
impl HueT<f64> for palette::hues::Cam16Hue<f64> { fn from_deg(x: f64) -> Self { palette::hues::Cam16Hue::from_degrees(x) } fn pos(self) -> f64 { self.into_positive_degrees() } }

fn run_hue<H, T>(ctx: &Ctx, m: &mut Monitor, u: &mut Monitor, name: &str)
where
    T: Fl,
    H: HueT<T>,
    Standard: Distribution<H>,
{
    let inst = format!("{}/{}", name, T::NAME);
    let mut prng = ctx.rng(&inst, 13);
    let total = ctx.n(20_000, 300_000);
    let seed = pvmon::rng::mix(ctx.seed, pvmon::rng::hash_str(&inst));
    let mut r1 = rand::rngs::StdRng::seed_from_u64(seed);
    let mut marg = [0u64; BINS];
    for i in 0..total {
        let hsample: H = r1.gen();
        let x = hsample.pos().d();
        m.eval();
        if !(x >= 0.0 && x <= 360.0) {
            m.violate(&inst, "standard_sample_outside_bounds", json!({"stream_seed": seed, "index": i}), json!(x), json!("an angle in [0, 360]"), "");
        }
        marg[((x / 360.0 * BINS as f64) as isize).clamp(0, BINS as isize - 1) as usize] += 1;
    }
    let x = chi2_of(&marg);
    u.eval();
    u.counter_max("max:chi2_x10:hue:standard", (x * 10.0) as u64);
    if x > CHI2_CRIT_31 {
        u.violate(&inst, "standard_hue_not_uniform", json!({"samples": total}), json!({"chi2": x, "histogram": marg.to_vec()}), json!({"chi2_critical_p1e-12": CHI2_CRIT_31}), "");
    }
    u.cell_s(&format!("{}std", inst));
    m.cell_s(&format!("{}std", inst));
    let ranges = ctx.n(100, 3_000);
    for ri in 0..ranges {
        let inclusive = ri % 2 == 1;
        let l = match prng.below(6) {
            0 => 0.0,
            1 => 350.0,
            2 => -10.0,
            3 => prng.range(300.0, 360.0),
            _ => prng.range(-360.0, 720.0),
        };
        let arc = match prng.below(6) {
            0 => prng.range(0.01, 1.0),
            1 => prng.range(300.0, 359.0),
            2 => 180.0,
            3 if inclusive => 0.0,
            _ => prng.range(1.0, 359.0),
        };
        let (lo_t, hi_t) = (T::f(l), T::f(l + arc));
        let (lo, hi) = (lo_t.d(), hi_t.d());
        if !inclusive && !(lo < hi) {
            continue;
        }
        let (lo_h, hi_h) = (H::from_deg(lo_t), H::from_deg(hi_t));
        let sampler = match std::panic::catch_unwind(std::panic::AssertUnwindSafe(|| if inclusive { Uniform::new_inclusive(lo_h, hi_h) } else { Uniform::new(lo_h, hi_h) })) {
            Ok(s) => s,
            Err(_) => {
                m.violate(&inst, "uniform_sampler_construction_panics", json!({"low": lo, "high": hi, "inclusive": inclusive}), json!("panic"), json!("a sampler"), "");
                continue;
            }
        };
        let seed = pvmon::rng::mix(ctx.seed, pvmon::rng::mix(pvmon::rng::hash_str(&inst), 1000 + ri));
        let mut r1 = rand::rngs::StdRng::seed_from_u64(seed);
        let big = ri < 4 && (hi - lo) / 360.0 >= 3e5 * T::ULP;
        let cnt = if big { total } else { 50 };
        let mut marg = [0u64; BINS];
        let t = 64.0 * T::ULP * 360.0;
        for i in 0..cnt {
            let hsample: H = sampler.sample(&mut r1);
            let x = hsample.pos().d();
            m.eval();
            let off = (x - lo).rem_euclid(360.0);
            if !(off <= hi - lo + t || off >= 360.0 - t) || !x.is_finite() {
                m.violate(&inst, "hue_not_on_the_arc_from_low_to_high", json!({"low": lo, "high": hi, "inclusive": inclusive, "stream_seed": seed, "index": i}), json!(x), json!("on the arc"), "");
                break;
            }
            let uu = if hi > lo { (if off >= 360.0 - t { 0.0 } else { off }) / (hi - lo) } else { 0.5 };
            marg[((uu * BINS as f64) as isize).clamp(0, BINS as isize - 1) as usize] += 1;
        }
        if big {
            let x = chi2_of(&marg);
            u.eval();
            u.counter_max("max:chi2_x10:hue:uniform_sampler", (x * 10.0) as u64);
            if x > CHI2_CRIT_31 {
                u.violate(&inst, "uniform_sampler_hue_not_uniform_on_the_arc", json!({"low": lo, "high": hi, "samples": cnt}), json!({"chi2": x, "histogram": marg.to_vec()}), json!({"chi2_critical_p1e-12": CHI2_CRIT_31}), "");
            }
            u.cell_s(&format!("{}uni{}", inst, ri));
        }
        m.cell_s(&format!("{}uni{}{}", inst, inclusive, ri % 32));
    }
}

fn main() {
    let ctx = Ctx::from_args("C19");
    let mut report = Report::new(&ctx);
    let n1 = "samples_within_requested_range";
    let n2 = "samples_uniform_in_volume";
    if ctx.enabled(n1) || ctx.enabled(n2) {
        let rule1 = "every colour type with sampling support (Srgb, LinSrgb, Xyz, Yxy, Lab, Luv, Oklab, Lch, Lchuv, Oklch, Hsl, Hsv, Hwb, Hsluv, Okhsl, Okhsv, Okhwb; Xyz, Yxy, Lab, Lch also with white points D50 / A) x f32/f64: (a) rng.gen() over many StdRng and Mt64 streams lies within the type's bounds (is_within_bounds and the documented component ranges, hue in [0, 360]); (b) Uniform::new / new_inclusive between seeded end points (full range, sub-ranges, ends sharing a bound, equal ends for inclusive; hue arcs that are tiny, wide, and wrap through 0 degrees from raw hues in [-360, 1080)): every component between the ends (HWB: equivalent HSV saturation and value), hue on the arc from the low hue to the high hue, construction does not panic; distinct = (type, float, sampler kind, stream / range bucket)";
        let rule2 = "cone (Hsv, Okhsv, Hwb, Okhwb), bicone (Hsl, Okhsl, Hsluv) and cylinder (Lch, Lchuv, Oklch) samplers: the samples, mapped through the volume CDF of the shape (value^3, bicone height CDF 4 l^3 / 1 - 4 (1-l)^3, radius^2, hue / arc) relative to the requested sub-volume, are uniform: chi-square over 32 bins per coordinate below the p = 1e-12 critical value (121.9), for the Standard distribution and for Uniform samplers over full and partial ranges; distinct = (type, float, sampler)";
        let res = par(4, |t| {
            let mut m = Monitor::new(n1, rule1);
            let mut u = Monitor::new(n2, rule2);
            macro_rules! ty {
                ($i:expr, $name:expr, $C64:ty, $C32:ty, $shape:expr, $bounded:expr) => {
                    if $i % 4 == t {
                        run_type::<$C64, f64>(&ctx, &mut m, &mut u, $name, $shape, $bounded);
                        run_type::<$C32, f32>(&ctx, &mut m, &mut u, $name, $shape, $bounded);
                    }
                };
            }
            let unit = [(0.0, 1.0); 3];
            ty!(0, "Srgb", palette::Srgb<f64>, palette::Srgb<f32>, Shape::Cart(unit), true);
            ty!(1, "LinSrgb", palette::LinSrgb<f64>, palette::LinSrgb<f32>, Shape::Cart(unit), true);
            ty!(2, "Xyz<D65>", Xyz<D65, f64>, Xyz<D65, f32>, Shape::Cart([(0.0, 0.95047), (0.0, 1.0), (0.0, 1.08883)]), true);
            ty!(3, "Yxy<D65>", Yxy<D65, f64>, Yxy<D65, f32>, Shape::Cart(unit), true);
            ty!(4, "Lab<D65>", Lab<D65, f64>, Lab<D65, f32>, Shape::Cart([(0.0, 100.0), (-128.0, 127.0), (-128.0, 127.0)]), true);
            ty!(5, "Luv<D65>", Luv<D65, f64>, Luv<D65, f32>, Shape::Cart([(0.0, 100.0), (-84.0, 176.0), (-135.0, 108.0)]), true);
            ty!(6, "Oklab", Oklab<f64>, Oklab<f32>, Shape::Cart([(0.0, 1.0), (-1.0, 1.0), (-1.0, 1.0)]), false);
            ty!(7, "Lch<D65>", Lch<D65, f64>, Lch<D65, f32>, Shape::Cyl { h: 2, z: 0, r: 1, zmax: 100.0, rmax: 128.0 }, true);
            ty!(8, "Lchuv<D65>", Lchuv<D65, f64>, Lchuv<D65, f32>, Shape::Cyl { h: 2, z: 0, r: 1, zmax: 100.0, rmax: 180.0 }, true);
            ty!(9, "Oklch", Oklch<f64>, Oklch<f32>, Shape::Cyl { h: 2, z: 0, r: 1, zmax: 1.0, rmax: 1.0 }, false);
            ty!(10, "Hsv", Hsv<encoding::Srgb, f64>, Hsv<encoding::Srgb, f32>, Shape::Cone, true);
            ty!(11, "Hsl", Hsl<encoding::Srgb, f64>, Hsl<encoding::Srgb, f32>, Shape::Bicone { unit: 1.0 }, true);
            ty!(12, "Hwb", Hwb<encoding::Srgb, f64>, Hwb<encoding::Srgb, f32>, Shape::HwbCone, true);
            ty!(13, "Hsluv<D65>", Hsluv<D65, f64>, Hsluv<D65, f32>, Shape::Bicone { unit: 100.0 }, true);
            ty!(14, "Okhsv", Okhsv<f64>, Okhsv<f32>, Shape::Cone, true);
            ty!(15, "Okhsl", Okhsl<f64>, Okhsl<f32>, Shape::Bicone { unit: 1.0 }, true);
            ty!(16, "Okhwb", Okhwb<f64>, Okhwb<f32>, Shape::HwbCone, true);
            // non-default white points (the bounds of Xyz are the white point's own components)
            use palette::white_point::{A, D50};
            ty!(17, "Xyz<D50>", Xyz<D50, f64>, Xyz<D50, f32>, Shape::Cart([(0.0, 0.96422), (0.0, 1.0), (0.0, 0.82521)]), true);
            ty!(18, "Xyz<A>", Xyz<A, f64>, Xyz<A, f32>, Shape::Cart([(0.0, 1.09850), (0.0, 1.0), (0.0, 0.35585)]), true);
            ty!(19, "Lab<D50>", Lab<D50, f64>, Lab<D50, f32>, Shape::Cart([(0.0, 100.0), (-128.0, 127.0), (-128.0, 127.0)]), true);
            ty!(20, "Lch<D50>", Lch<D50, f64>, Lch<D50, f32>, Shape::Cyl { h: 2, z: 0, r: 1, zmax: 100.0, rmax: 128.0 }, true);
            ty!(21, "Yxy<D50>", Yxy<D50, f64>, Yxy<D50, f32>, Shape::Cart(unit), true);
            // further 3-component types with samplers
            use palette::cam16::{Cam16UcsJab, Cam16UcsJmh};
            use palette::lms::VonKriesLms;
            ty!(22, "Lms<VonKries,D65>", VonKriesLms<D65, f64>, VonKriesLms<D65, f32>, Shape::Cart(unit), true);
            ty!(23, "Cam16UcsJab", Cam16UcsJab<f64>, Cam16UcsJab<f32>, Shape::Cart([(0.0, 100.0), (-50.0, 50.0), (-50.0, 50.0)]), true);
            ty!(24, "Cam16UcsJmh", Cam16UcsJmh<f64>, Cam16UcsJmh<f32>, Shape::Cyl { h: 2, z: 0, r: 1, zmax: 100.0, rmax: 50.0 }, true);
            // one and four components, transparent shaped colours, bare hues
            macro_rules! flat {
                ($i:expr, $name:expr, $C64:ty, $C32:ty, $n:expr, $b:expr) => {
                    if $i % 4 == t {
                        run_flat::<$C64, f64, $n>(&ctx, &mut m, &mut u, $name, $b, |c| c.is_within_bounds());
                        run_flat::<$C32, f32, $n>(&ctx, &mut m, &mut u, $name, $b, |c| c.is_within_bounds());
                    }
                };
            }
            flat!(25, "Luma<Srgb>", palette::SrgbLuma<f64>, palette::SrgbLuma<f32>, 1, [(0.0, 1.0)]);
            flat!(26, "LinLuma<D50>", palette::luma::Luma<encoding::Linear<D50>, f64>, palette::luma::Luma<encoding::Linear<D50>, f32>, 1, [(0.0, 1.0)]);
            flat!(27, "Alpha<Srgb>", palette::Srgba<f64>, palette::Srgba<f32>, 4, [(0.0, 1.0); 4]);
            flat!(28, "Alpha<Lab<D65>>", palette::Laba<D65, f64>, palette::Laba<D65, f32>, 4, [(0.0, 100.0), (-128.0, 127.0), (-128.0, 127.0), (0.0, 1.0)]);
            flat!(29, "Alpha<Luma<Srgb>>", palette::SrgbLumaa<f64>, palette::SrgbLumaa<f32>, 2, [(0.0, 1.0); 2]);
            macro_rules! alpha_shape {
                ($i:expr, $name:expr, $C64:ty, $C32:ty, $shape:expr) => {
                    if $i % 4 == t {
                        run_alpha_shape::<$C64, f64>(&ctx, &mut m, &mut u, $name, $shape);
                        run_alpha_shape::<$C32, f32>(&ctx, &mut m, &mut u, $name, $shape);
                    }
                };
            }
            alpha_shape!(30, "Hsv", Hsv<encoding::Srgb, f64>, Hsv<encoding::Srgb, f32>, Shape::Cone);
            alpha_shape!(31, "Hsl", Hsl<encoding::Srgb, f64>, Hsl<encoding::Srgb, f32>, Shape::Bicone { unit: 1.0 });
            alpha_shape!(32, "Hwb", Hwb<encoding::Srgb, f64>, Hwb<encoding::Srgb, f32>, Shape::HwbCone);
            alpha_shape!(33, "Lch<D65>", Lch<D65, f64>, Lch<D65, f32>, Shape::Cyl { h: 2, z: 0, r: 1, zmax: 100.0, rmax: 128.0 });
            alpha_shape!(34, "Okhsv", Okhsv<f64>, Okhsv<f32>, Shape::Cone);
            macro_rules! hue {
                ($i:expr, $name:expr, $H:ident) => {
                    if $i % 4 == t {
                        run_hue::<$H<f64>, f64>(&ctx, &mut m, &mut u, $name);
                        run_hue::<$H<f32>, f32>(&ctx, &mut m, &mut u, $name);
                    }
                };
            }
            use palette::hues::Cam16Hue;
            use palette::{LabHue, LuvHue, OklabHue, RgbHue};
            hue!(35, "RgbHue", RgbHue);
            hue!(36, "LabHue", LabHue);
            hue!(37, "LuvHue", LuvHue);
            hue!(38, "OklabHue", OklabHue);
            hue!(39, "Cam16Hue", Cam16Hue);
            vec![m, u]
        });
        for mut m in res {
            m.sample(|| {
                let mut r = rand::rngs::StdRng::seed_from_u64(1);
                let s = Uniform::new(Hsv::<encoding::Srgb, f64>::new(350.0, 0.2, 0.3), Hsv::new(370.0, 0.6, 0.9));
                let v: Vec<Vec<f64>> = (0..3).map(|_| { let c: Hsv<encoding::Srgb, f64> = s.sample(&mut r); vec![c.hue.into_positive_degrees(), c.saturation, c.value] }).collect();
                json!({"Uniform::new(Hsv(350, .2, .3), Hsv(370, .6, .9)) samples": v})
            });
            if m.name == n1 {
                m.tolerance = Some("8 ulp relative on component containment (the cone samplers go through cbrt/sqrt and back), 64 ulp of 360 on the hue arc".into());
            } else {
                m.tolerance = Some("chi-square, 32 bins, critical value for p = 1e-12 (false alarm once in 1e12 runs per coordinate)".into());
            }
            report.add(m);
        }
    }
    report.finish();
}
