//! C19 — random colour sampling respects the requested range and volume.

use palette::cast::{self, ArrayCast};
use palette::white_point::D65;
use palette::{encoding, Hsl, Hsluv, Hsv, Hwb, IsWithinBounds, Lab, Lch, Lchuv, Luv, Okhsl, Okhsv, Okhwb, Oklab, Oklch, Xyz, Yxy};
use pvmon::report::{fvec, par, Ctx, Monitor, Report};
use pvmon::{json, Rng as PvRng};
use rand::distributions::uniform::SampleUniform;
use rand::distributions::{Distribution, Standard, Uniform};
use rand::{Rng, SeedableRng};

trait Fl: Copy + PartialOrd + SampleUniform + 'static {
    const NAME: &'static str;
    const ULP: f64;
    fn f(x: f64) -> Self;
    fn d(self) -> f64;
}
impl Fl for f32 {
    const NAME: &'static str = "f32";
    const ULP: f64 = 1.2e-7;
    fn f(x: f64) -> f32 {
        x as f32
    }
    fn d(self) -> f64 {
        self as f64
    }
}
impl Fl for f64 {
    const NAME: &'static str = "f64";
    const ULP: f64 = 2.3e-16;
    fn f(x: f64) -> f64 {
        x
    }
    fn d(self) -> f64 {
        self
    }
}

/// how the three components of a colour type are laid out and which shape its sampler claims
#[derive(Clone, Copy, Debug, PartialEq)]
enum Shape {
    /// independent components, nominal [lo, hi] each
    Cart([(f64, f64); 3]),
    /// hue at index `h`, height at `z` in [0, zmax], radius at `r` in [0, rmax]: uniform in the cylinder's volume
    Cyl { h: usize, z: usize, r: usize, zmax: f64, rmax: f64 },
    /// HSV-like cone: hue 0, saturation 1, value 2
    Cone,
    /// HSL-like bicone: hue 0, saturation 1, lightness 2 (components scaled by `unit`)
    Bicone { unit: f64 },
    /// HWB: hue 0, whiteness 1, blackness 2; equivalent HSV cone
    HwbCone,
}

fn bicone_cdf(l: f64) -> f64 {
    if l <= 0.5 {
        4.0 * l * l * l
    } else {
        1.0 - 4.0 * (1.0 - l).powi(3)
    }
}

impl Shape {
    fn hue_index(self) -> Option<usize> {
        match self {
            Shape::Cart(_) => None,
            Shape::Cyl { h, .. } => Some(h),
            _ => Some(0),
        }
    }
    /// (saturation-like, height-like) in [0,1] for the cone shapes; for HWB the equivalent HSV values
    fn cone_coords(self, c: &[f64; 3]) -> (f64, f64) {
        match self {
            Shape::Cone => (c[1], c[2]),
            Shape::Bicone { unit } => (c[1] / unit, c[2] / unit),
            Shape::HwbCone => {
                let v = 1.0 - c[2];
                (if v > 0.0 { 1.0 - c[1] / v } else { 0.0 }, v)
            }
            _ => unreachable!(),
        }
    }
    /// the two non-hue coordinates mapped so that a volume-uniform sample is uniform in [0,1]^2, relative to the
    /// sub-volume between `lo` and `hi`
    fn volume_uniforms(self, c: &[f64; 3], lo: &[f64; 3], hi: &[f64; 3]) -> (f64, f64) {
        let rel = |x: f64, a: f64, b: f64| if b > a { (x - a) / (b - a) } else { 0.5 };
        match self {
            Shape::Cart(_) => unreachable!(),
            Shape::Cyl { z, r, .. } => (rel(c[z], lo[z], hi[z]), rel(c[r] * c[r], lo[r] * lo[r], hi[r] * hi[r])),
            Shape::Cone | Shape::HwbCone => {
                let ((s, v), (s0, v0), (s1, v1)) = (self.cone_coords(c), self.cone_coords(lo), self.cone_coords(hi));
                (rel(v * v * v, v0 * v0 * v0, v1 * v1 * v1), rel(s * s, s0 * s0, s1 * s1))
            }
            Shape::Bicone { .. } => {
                let ((s, l), (s0, l0), (s1, l1)) = (self.cone_coords(c), self.cone_coords(lo), self.cone_coords(hi));
                (rel(bicone_cdf(l), bicone_cdf(l0), bicone_cdf(l1)), rel(s * s, s0 * s0, s1 * s1))
            }
        }
    }
    /// full range of the shape as (low, high) colours
    fn full(self) -> ([f64; 3], [f64; 3]) {
        match self {
            Shape::Cart(r) => ([r[0].0, r[1].0, r[2].0], [r[0].1, r[1].1, r[2].1]),
            Shape::Cyl { h, z, r, zmax, rmax } => {
                let (mut lo, mut hi) = ([0.0; 3], [0.0; 3]);
                hi[h] = 360.0;
                hi[z] = zmax;
                hi[r] = rmax;
                lo[h] = 0.0;
                (lo, hi)
            }
            Shape::Cone => ([0.0, 0.0, 0.0], [360.0, 1.0, 1.0]),
            Shape::Bicone { unit } => ([0.0, 0.0, 0.0], [360.0, unit, unit]),
            // HSV (0, 0, 0) .. (360, 1, 1) = HWB (0, 0, 1) .. (360, 0, 0)
            Shape::HwbCone => ([0.0, 0.0, 1.0], [360.0, 0.0, 0.0]),
        }
    }
}

const BINS: usize = 32;
/// chi-square critical value for 31 degrees of freedom at p = 1e-12: a correct sampler exceeds it once in 1e12 runs
const CHI2_CRIT_31: f64 = 121.9;

struct Hist {
    bins: [[u64; BINS]; 3],
    n: u64,
}
impl Hist {
    fn new() -> Hist {
        Hist { bins: [[0; BINS]; 3], n: 0 }
    }
    fn add(&mut self, u: [f64; 3]) {
        for k in 0..3 {
            let b = ((u[k] * BINS as f64) as isize).clamp(0, BINS as isize - 1) as usize;
            self.bins[k][b] += 1;
        }
        self.n += 1;
    }
    fn chi2(&self, k: usize) -> f64 {
        let e = self.n as f64 / BINS as f64;
        self.bins[k].iter().map(|&o| (o as f64 - e) * (o as f64 - e) / e).sum()
    }
}

fn arr<C: ArrayCast<Array = [T; 3]>, T: Fl>(c: C) -> [f64; 3] {
    let a: [T; 3] = cast::into_array(c);
    [a[0].d(), a[1].d(), a[2].d()]
}
fn mk<C: ArrayCast<Array = [T; 3]>, T: Fl>(x: &[f64; 3]) -> C {
    cast::from_array([T::f(x[0]), T::f(x[1]), T::f(x[2])])
}

/// end points of a uniform sampler: low <= high per (shape) coordinate, hue arcs of every kind
fn ends(shape: Shape, rng: &mut PvRng, inclusive: bool) -> ([f64; 3], [f64; 3], f64) {
    let (flo, fhi) = shape.full();
    let mut lo = [0.0; 3];
    let mut hi = [0.0; 3];
    let mut arc = 0.0;
    let pick2 = |rng: &mut PvRng, a: f64, b: f64, inclusive: bool| -> (f64, f64) {
        match rng.below(8) {
            0 => (a, b),
            1 if inclusive => {
                let x = a + (b - a) * rng.unit();
                (x, x)
            }
            2 => (a, a + (b - a) * rng.unit().max(1e-3)),
            3 => (a + (b - a) * rng.unit().min(0.999), b),
            _ => {
                let (x, y) = (rng.unit(), rng.unit());
                let (x, y) = if x <= y { (x, y) } else { (y, x) };
                let y = if y - x < 1e-3 { (x + 1e-3).min(1.0) } else { y };
                let x = if y - x < 1e-3 { y - 1e-3 } else { x };
                (a + (b - a) * x, a + (b - a) * y)
            }
        }
    };
    match shape {
        Shape::Cart(r) => {
            for k in 0..3 {
                let (a, b) = pick2(rng, r[k].0, r[k].1, inclusive);
                lo[k] = a;
                hi[k] = b;
            }
        }
        _ => {
            let h = shape.hue_index().unwrap();
            // hue: raw low anywhere in [-360, 720), arc in (0, 360), incl. tiny arcs and arcs through 0 degrees
            let l = match rng.below(6) {
                0 => 0.0,
                1 => 350.0,
                2 => -10.0,
                3 => rng.range(300.0, 360.0),
                _ => rng.range(-360.0, 720.0),
            };
            arc = match rng.below(6) {
                0 => rng.range(0.01, 1.0),
                1 => rng.range(300.0, 359.0),
                2 => 180.0,
                3 if inclusive => 0.0,
                _ => rng.range(1.0, 359.0),
            };
            lo[h] = l;
            hi[h] = l + arc;
            match shape {
                Shape::Cyl { z, r, zmax, rmax, .. } => {
                    let (a, b) = pick2(rng, 0.0, zmax, inclusive);
                    lo[z] = a;
                    hi[z] = b;
                    let (a, b) = pick2(rng, 0.0, rmax, inclusive);
                    lo[r] = a;
                    hi[r] = b;
                }
                Shape::Cone | Shape::Bicone { .. } => {
                    let u = if let Shape::Bicone { unit } = shape { unit } else { 1.0 };
                    let (a, b) = pick2(rng, 0.0, u, inclusive);
                    lo[1] = a;
                    hi[1] = b;
                    let (a, b) = pick2(rng, 0.0, u, inclusive);
                    lo[2] = a;
                    hi[2] = b;
                }
                Shape::HwbCone => {
                    // chosen as HSV ends, expressed as HWB
                    let (s0, s1) = pick2(rng, 0.0, 1.0, inclusive);
                    let (v0, v1) = pick2(rng, 0.0, 1.0, inclusive);
                    lo[1] = (1.0 - s0) * v0;
                    lo[2] = 1.0 - v0;
                    hi[1] = (1.0 - s1) * v1;
                    hi[2] = 1.0 - v1;
                }
                _ => {}
            }
        }
    }
    let _ = (flo, fhi);
    (lo, hi, arc)
}

#[allow(clippy::too_many_arguments)]
fn run_type<C, T>(ctx: &Ctx, m: &mut Monitor, u: &mut Monitor, name: &str, shape: Shape, bounded: bool)
where
    T: Fl,
    C: ArrayCast<Array = [T; 3]> + Copy + SampleUniform + IsWithinBounds<Mask = bool>,
    Standard: Distribution<C>,
{
    let inst = format!("{}/{}", name, T::NAME);
    let mut prng = ctx.rng(&inst, 0);
    let tol = |x: f64| 8.0 * T::ULP * (1.0 + x.abs());
    let (flo, fhi) = shape.full();
    let h = shape.hue_index();
    // ---------------- Standard distribution: within bounds, for many RNG streams
    let streams = ctx.n(40, 1000);
    let per = ctx.n(500, 5000);
    let mut hist = Hist::new();
    for s in 0..streams {
        let seed = pvmon::rng::mix(ctx.seed, pvmon::rng::mix(pvmon::rng::hash_str(&inst), s));
        let mut r1 = rand::rngs::StdRng::seed_from_u64(seed);
        let mut r2 = rand_mt::Mt64::new(seed);
        for i in 0..per {
            let c: C = if i % 2 == 0 { r1.gen() } else { r2.gen() };
            let a = arr::<C, T>(c);
            m.eval();
            let mut bad = !a.iter().all(|v| v.is_finite());
            if bounded && !c.is_within_bounds() {
                bad = true;
            }
            for k in 0..3 {
                if Some(k) == h {
                    // the hue itself is any angle; as a sample it must be a finite angle in [0, 360]
                    if !(a[k] >= 0.0 && a[k] <= 360.0) {
                        bad = true;
                    }
                } else if shape == Shape::HwbCone {
                    if !(a[k] >= 0.0 && a[k] <= 1.0) {
                        bad = true;
                    }
                } else {
                    let (l, hgh) = (flo[k].min(fhi[k]), flo[k].max(fhi[k]));
                    if !(a[k] >= l - tol(l) && a[k] <= hgh + tol(hgh)) {
                        bad = true;
                    }
                }
            }
            if shape == Shape::HwbCone && !(a[1] + a[2] <= 1.0 + tol(1.0)) {
                bad = true;
            }
            if bad {
                m.violate(&inst, "standard_sample_outside_bounds", json!({"stream_seed": seed, "index": i, "rng": if i % 2 == 0 { "StdRng" } else { "Mt64" }}), fvec(&a), json!({"low": fvec(&flo), "high": fvec(&fhi)}), "");
            }
            if !matches!(shape, Shape::Cart(_)) {
                let (u1, u2) = shape.volume_uniforms(&a, &flo, &fhi);
                hist.add([u1, u2, a[h.unwrap()] / 360.0]);
            }
        }
        m.cell_s(&format!("{}std{}", inst, s % 16));
    }
    if !matches!(shape, Shape::Cart(_)) {
        let is_cone = !matches!(shape, Shape::Cyl { .. });
        for (k, what) in ["height_cdf", "radius_squared", "hue"].iter().enumerate() {
            let x = hist.chi2(k);
            u.eval();
            u.counter_max(&format!("max:chi2_x10:{}:standard:{}", if is_cone { "cone" } else { "cylinder" }, what), (x * 10.0) as u64);
            if x > CHI2_CRIT_31 {
                u.violate(&inst, &format!("standard_not_uniform_in_volume:{}", what), json!({"samples": hist.n, "bins": BINS}), json!({"chi2": x, "histogram": hist.bins[k].to_vec()}), json!({"chi2_critical_p1e-12": CHI2_CRIT_31}), "");
            }
        }
        u.cell_s(&format!("{}std", inst));
    }
    // ---------------- Uniform sampler between two colours
    let ranges = ctx.n(150, 10_000);
    let per = ctx.n(60, 300);
    for ri in 0..ranges {
        let inclusive = ri % 2 == 1;
        let (lo, hi, arc) = ends(shape, &mut prng, inclusive);
        // round the ends to the component type first: containment is judged against what the sampler was given
        let (lo_c, hi_c): (C, C) = (mk::<C, T>(&lo), mk::<C, T>(&hi));
        let (lo, hi) = (arr::<C, T>(lo_c), arr::<C, T>(hi_c));
        // exclusive samplers need low < high in every (transformed) coordinate
        if !inclusive {
            let degenerate = match shape {
                Shape::HwbCone => {
                    let ((s0, v0), (s1, v1)) = (shape.cone_coords(&lo), shape.cone_coords(&hi));
                    !(s0 < s1 && v0 < v1)
                }
                _ => (0..3).any(|k| !(lo[k] < hi[k])),
            };
            if degenerate {
                continue;
            }
        }
        let sampler = match std::panic::catch_unwind(std::panic::AssertUnwindSafe(|| if inclusive { Uniform::new_inclusive(lo_c, hi_c) } else { Uniform::new(lo_c, hi_c) })) {
            Ok(s) => s,
            Err(_) => {
                // recorded finding: two different lightness ends next to white collapse to the same CDF value
                let collapsed = if let Shape::Bicone { unit } = shape { !inclusive && T::f(bicone_cdf(lo[2] / unit)).d() >= T::f(bicone_cdf(hi[2] / unit)).d() && lo[2] / unit > 0.5 } else { false };
                m.violate(&inst, if collapsed { "uniform_sampler_construction_panics:bicone_upper_half_rounding" } else { "uniform_sampler_construction_panics" }, json!({"low": fvec(&lo), "high": fvec(&hi), "inclusive": inclusive}), json!("panic"), json!("a sampler"), "low <= high in every coordinate");
                continue;
            }
        };
        let seed = pvmon::rng::mix(ctx.seed, pvmon::rng::mix(pvmon::rng::hash_str(&inst), 1000 + ri));
        let mut r1 = rand::rngs::StdRng::seed_from_u64(seed);
        let mut local = Hist::new();
        let big = ri < 4; // a few ranges get enough samples for the volume test
        for i in 0..(if big { ctx.n(40_000, 200_000) } else { per }) {
            let c: C = sampler.sample(&mut r1);
            let a = arr::<C, T>(c);
            m.eval();
            let mut bad: Option<&str> = None;
            if !a.iter().all(|v| v.is_finite()) {
                bad = Some("not_finite");
            }
            match shape {
                Shape::HwbCone => {
                    let ((s, v), (s0, v0), (s1, v1)) = (shape.cone_coords(&a), shape.cone_coords(&lo), shape.cone_coords(&hi));
                    let t = 64.0 * T::ULP;
                    // s = 1 - w / v: the ends' and the sample's own rounding of v = 1 - b (absolute ulp of 1) is divided by v
                    let ts = |s_end: f64, v_end: f64| t * (1.0 + (1.0 - s_end).abs() / v_end.min(v).max(1e-300));
                    // (ends chosen with equal saturation can come back in either order after rounding to the component type)
                    let (sa, sb) = if s0 <= s1 { ((s0, v0), (s1, v1)) } else { ((s1, v1), (s0, v0)) };
                    if !(s >= sa.0 - ts(sa.0, sa.1) && s <= sb.0 + ts(sb.0, sb.1) && v >= v0 - t && v <= v1 + t) {
                        bad = Some("equivalent_hsv_saturation_or_value_outside_the_ends");
                    }
                }
                _ => {
                    for k in 0..3 {
                        if Some(k) == h {
                            continue;
                        }
                        if !(a[k] >= lo[k] - tol(lo[k]) && a[k] <= hi[k] + tol(hi[k])) {
                            bad = Some("component_outside_the_ends");
                            // recorded finding: the bicone samplers parameterise the upper half by r1 -> 1, where the float
                            // grid is coarse: the lightness comes back with an error of ulp / (12 (1 - l)^2)
                            if let (Shape::Bicone { unit }, 2) = (shape, k) {
                                let excess = (lo[k] - a[k]).max(a[k] - hi[k]) / unit;
                                let l = (if a[k] < lo[k] { lo[k] } else { hi[k] }) / unit;
                                if l > 0.5 && l < 1.0 && excess <= 8.0 * T::ULP / (12.0 * (1.0 - l) * (1.0 - l)) && (0..2).all(|j| Some(j) == h || (a[j] >= lo[j] - tol(lo[j]) && a[j] <= hi[j] + tol(hi[j]))) {
                                    bad = Some("component_outside_the_ends:bicone_upper_half_rounding");
                                }
                            }
                        }
                    }
                }
            }
            let mut hue_u = 0.5;
            if let Some(hk) = h {
                // on the arc from the low hue to the high hue
                let arc_c = hi[hk] - lo[hk];
                let off = (a[hk] - lo[hk]).rem_euclid(360.0);
                let t = 64.0 * T::ULP * 360.0;
                let on_arc = off <= arc_c + t || off >= 360.0 - t;
                if !on_arc {
                    bad = Some("hue_not_on_the_arc_from_low_to_high");
                }
                hue_u = if arc_c > 0.0 { (if off >= 360.0 - t { 0.0 } else { off }) / arc_c } else { 0.5 };
            }
            if let Some(class) = bad {
                m.violate(&inst, class, json!({"low": fvec(&lo), "high": fvec(&hi), "inclusive": inclusive, "stream_seed": seed, "index": i, "hue_arc": arc}), fvec(&a), json!("every component between the ends, hue on the arc"), "");
                break;
            }
            if big && !matches!(shape, Shape::Cart(_)) {
                let (u1, u2) = shape.volume_uniforms(&a, &lo, &hi);
                local.add([u1, u2, hue_u]);
            }
        }
        if big && !matches!(shape, Shape::Cart(_)) && local.n > 1000 {
            for (k, what) in ["height_cdf", "radius_squared", "hue"].iter().enumerate() {
                // a coordinate with equal ends carries no distribution
                let flat = match (k, shape) {
                    (2, _) => !(hi[h.unwrap()] > lo[h.unwrap()]),
                    (_, Shape::Cyl { z, r, .. }) => !(hi[if k == 0 { z } else { r }] > lo[if k == 0 { z } else { r }]),
                    (_, _) => {
                        let ((s0, v0), (s1, v1)) = (shape.cone_coords(&lo), shape.cone_coords(&hi));
                        if k == 0 {
                            !(v1 > v0)
                        } else {
                            !(s1 > s0)
                        }
                    }
                };
                if flat {
                    continue;
                }
                // the samplers draw in the CDF coordinate; an interval of fewer than ~3e5 float steps there (equal or
                // nearly equal ends, or a sliver next to the upper apex of a bicone in f32) yields visibly quantised
                // samples, which a chi-square test reads as non-uniform: not a distribution question
                let width = match (k, shape) {
                    (2, _) => (hi[h.unwrap()] - lo[h.unwrap()]) / 360.0,
                    (_, Shape::Cyl { z, r, zmax, rmax, .. }) => {
                        if k == 0 {
                            (hi[z] - lo[z]) / zmax
                        } else {
                            (hi[r] * hi[r] - lo[r] * lo[r]) / (rmax * rmax)
                        }
                    }
                    (_, Shape::Bicone { .. }) => {
                        let ((s0, l0), (s1, l1)) = (shape.cone_coords(&lo), shape.cone_coords(&hi));
                        if k == 0 {
                            bicone_cdf(l1) - bicone_cdf(l0)
                        } else {
                            s1 * s1 - s0 * s0
                        }
                    }
                    (_, _) => {
                        let ((s0, v0), (s1, v1)) = (shape.cone_coords(&lo), shape.cone_coords(&hi));
                        if k == 0 {
                            v1 * v1 * v1 - v0 * v0 * v0
                        } else {
                            s1 * s1 - s0 * s0
                        }
                    }
                };
                if !(width >= 3e5 * T::ULP) {
                    u.count("not_tested_interval_below_3e5_float_steps");
                    continue;
                }
                // f32 ends closer than a few thousand ulps quantise the samples: no distribution test
                let x = local.chi2(k);
                u.eval();
                u.counter_max(&format!("max:chi2_x10:uniform_sampler:{}", what), (x * 10.0) as u64);
                if x > CHI2_CRIT_31 {
                    u.violate(&inst, &format!("uniform_sampler_not_uniform_in_volume:{}", what), json!({"low": fvec(&lo), "high": fvec(&hi), "inclusive": inclusive, "samples": local.n}), json!({"chi2": x, "histogram": local.bins[k].to_vec()}), json!({"chi2_critical_p1e-12": CHI2_CRIT_31}), "");
                }
            }
            u.cell_s(&format!("{}uni{}", inst, ri));
        }
        m.cell_s(&format!("{}uni{}{}", inst, inclusive, ri % 32));
    }
}

fn main() {
    let ctx = Ctx::from_args("C19");
    let mut report = Report::new(&ctx);
    let n1 = "samples_within_requested_range";
    let n2 = "samples_uniform_in_volume";
    if ctx.enabled(n1) || ctx.enabled(n2) {
        let rule1 = "every colour type with sampling support (Srgb, LinSrgb, Xyz, Yxy, Lab, Luv, Oklab, Lch, Lchuv, Oklch, Hsl, Hsv, Hwb, Hsluv, Okhsl, Okhsv, Okhwb; Xyz, Yxy, Lab, Lch also with white points D50 / A) x f32/f64: (a) rng.gen() over many StdRng and Mt64 streams lies within the type's bounds (is_within_bounds and the documented component ranges, hue in [0, 360]); (b) Uniform::new / new_inclusive between seeded end points (full range, sub-ranges, ends sharing a bound, equal ends for inclusive; hue arcs that are tiny, wide, and wrap through 0 degrees from raw hues in [-360, 1080)): every component between the ends (HWB: equivalent HSV saturation and value), hue on the arc from the low hue to the high hue, construction does not panic; distinct = (type, float, sampler kind, stream / range bucket)";
        let rule2 = "cone (Hsv, Okhsv, Hwb, Okhwb), bicone (Hsl, Okhsl, Hsluv) and cylinder (Lch, Lchuv, Oklch) samplers: the samples, mapped through the volume CDF of the shape (value^3, bicone height CDF 4 l^3 / 1 - 4 (1-l)^3, radius^2, hue / arc) relative to the requested sub-volume, are uniform: chi-square over 32 bins per coordinate below the p = 1e-12 critical value (121.9), for the Standard distribution and for Uniform samplers over full and partial ranges; distinct = (type, float, sampler)";
        let res = par(4, |t| {
            let mut m = Monitor::new(n1, rule1);
            let mut u = Monitor::new(n2, rule2);
            macro_rules! ty {
                ($i:expr, $name:expr, $C64:ty, $C32:ty, $shape:expr, $bounded:expr) => {
                    if $i % 4 == t {
                        run_type::<$C64, f64>(&ctx, &mut m, &mut u, $name, $shape, $bounded);
                        run_type::<$C32, f32>(&ctx, &mut m, &mut u, $name, $shape, $bounded);
                    }
                };
            }
            let unit = [(0.0, 1.0); 3];
            ty!(0, "Srgb", palette::Srgb<f64>, palette::Srgb<f32>, Shape::Cart(unit), true);
            ty!(1, "LinSrgb", palette::LinSrgb<f64>, palette::LinSrgb<f32>, Shape::Cart(unit), true);
            ty!(2, "Xyz<D65>", Xyz<D65, f64>, Xyz<D65, f32>, Shape::Cart([(0.0, 0.95047), (0.0, 1.0), (0.0, 1.08883)]), true);
            ty!(3, "Yxy<D65>", Yxy<D65, f64>, Yxy<D65, f32>, Shape::Cart(unit), true);
            ty!(4, "Lab<D65>", Lab<D65, f64>, Lab<D65, f32>, Shape::Cart([(0.0, 100.0), (-128.0, 127.0), (-128.0, 127.0)]), true);
            ty!(5, "Luv<D65>", Luv<D65, f64>, Luv<D65, f32>, Shape::Cart([(0.0, 100.0), (-84.0, 176.0), (-135.0, 108.0)]), true);
            ty!(6, "Oklab", Oklab<f64>, Oklab<f32>, Shape::Cart([(0.0, 1.0), (-1.0, 1.0), (-1.0, 1.0)]), false);
            ty!(7, "Lch<D65>", Lch<D65, f64>, Lch<D65, f32>, Shape::Cyl { h: 2, z: 0, r: 1, zmax: 100.0, rmax: 128.0 }, true);
            ty!(8, "Lchuv<D65>", Lchuv<D65, f64>, Lchuv<D65, f32>, Shape::Cyl { h: 2, z: 0, r: 1, zmax: 100.0, rmax: 180.0 }, true);
            ty!(9, "Oklch", Oklch<f64>, Oklch<f32>, Shape::Cyl { h: 2, z: 0, r: 1, zmax: 1.0, rmax: 1.0 }, false);
            ty!(10, "Hsv", Hsv<encoding::Srgb, f64>, Hsv<encoding::Srgb, f32>, Shape::Cone, true);
            ty!(11, "Hsl", Hsl<encoding::Srgb, f64>, Hsl<encoding::Srgb, f32>, Shape::Bicone { unit: 1.0 }, true);
            ty!(12, "Hwb", Hwb<encoding::Srgb, f64>, Hwb<encoding::Srgb, f32>, Shape::HwbCone, true);
            ty!(13, "Hsluv<D65>", Hsluv<D65, f64>, Hsluv<D65, f32>, Shape::Bicone { unit: 100.0 }, true);
            ty!(14, "Okhsv", Okhsv<f64>, Okhsv<f32>, Shape::Cone, true);
            ty!(15, "Okhsl", Okhsl<f64>, Okhsl<f32>, Shape::Bicone { unit: 1.0 }, true);
            ty!(16, "Okhwb", Okhwb<f64>, Okhwb<f32>, Shape::HwbCone, true);
            // non-default white points (the bounds of Xyz are the white point's own components)
            use palette::white_point::{A, D50};
            ty!(17, "Xyz<D50>", Xyz<D50, f64>, Xyz<D50, f32>, Shape::Cart([(0.0, 0.96422), (0.0, 1.0), (0.0, 0.82521)]), true);
            ty!(18, "Xyz<A>", Xyz<A, f64>, Xyz<A, f32>, Shape::Cart([(0.0, 1.09850), (0.0, 1.0), (0.0, 0.35585)]), true);
            ty!(19, "Lab<D50>", Lab<D50, f64>, Lab<D50, f32>, Shape::Cart([(0.0, 100.0), (-128.0, 127.0), (-128.0, 127.0)]), true);
            ty!(20, "Lch<D50>", Lch<D50, f64>, Lch<D50, f32>, Shape::Cyl { h: 2, z: 0, r: 1, zmax: 100.0, rmax: 128.0 }, true);
            ty!(21, "Yxy<D50>", Yxy<D50, f64>, Yxy<D50, f32>, Shape::Cart(unit), true);
            vec![m, u]
        });
        for mut m in res {
            m.sample(|| {
                let mut r = rand::rngs::StdRng::seed_from_u64(1);
                let s = Uniform::new(Hsv::<encoding::Srgb, f64>::new(350.0, 0.2, 0.3), Hsv::new(370.0, 0.6, 0.9));
                let v: Vec<Vec<f64>> = (0..3).map(|_| { let c: Hsv<encoding::Srgb, f64> = s.sample(&mut r); vec![c.hue.into_positive_degrees(), c.saturation, c.value] }).collect();
                json!({"Uniform::new(Hsv(350, .2, .3), Hsv(370, .6, .9)) samples": v})
            });
            if m.name == n1 {
                m.tolerance = Some("8 ulp relative on component containment (the cone samplers go through cbrt/sqrt and back), 64 ulp of 360 on the hue arc".into());
            } else {
                m.tolerance = Some("chi-square, 32 bins, critical value for p = 1e-12 (false alarm once in 1e12 runs per coordinate)".into());
            }
            report.add(m);
        }
    }
    report.finish();
}
