//! C01 — colour space conversions invert and commute; Alpha never changes the colour.
//!
//! Oracle: relations between real calls (round trip, direct vs step-by-step, Alpha vs bare),
//! judged in the source / target comparison space with the model-calibrated bound of pvmon::judge.
//! Source colours are produced by the model from a linear point inside the intersection of all
//! offered RGB gamuts, so they are inside the nominal range of A and representable in every B.

use pvmon::conv_table as ct;
use pvmon::gen;
use pvmon::judge;
use pvmon::refmodel::space::{Space, V3};
use pvmon::report::{bits64, fjson, fvec, par, parse_bits64, Ctx, Monitor, Report};
use pvmon::json;

/// relative size of the perturbation of the intermediate that the recorded Oklab-matrix finding explains: the mismatch
/// itself is 4e-5; Okhsl / Okhsv / Okhwb divide the residue by a maximum chroma that vanishes towards white and black
fn ok_eps(dst: Space) -> f64 {
    if matches!(dst, Space::Okhsl | Space::Okhsv | Space::Okhwb) {
        3e-3
    } else {
        5e-4
    }
}

fn ok_family(s: Space) -> bool {
    matches!(s, Space::Oklab | Space::Oklch | Space::Okhsl | Space::Okhsv | Space::Okhwb)
}

/// in-gamut source colour strictly inside the gamut (a small margin keeps clipping spaces exact)
fn source(space: Space, rng: &mut pvmon::Rng) -> V3 {
    let lin = match rng.below(10) {
        0 => {
            let g = rng.range(0.02, 0.98);
            [g, g, g]
        }
        1 => [rng.range(0.01, 0.99), rng.range(0.01, 0.99), 0.01],
        2 => [0.99, rng.range(0.01, 0.99), rng.range(0.01, 0.99)],
        3 => [rng.range(0.01, 0.05), rng.range(0.01, 0.05), rng.range(0.01, 0.05)],
        // dark and saturated: the tristimulus ratios fall on different sides of the CIE L*a*b* / L*u*v* epsilon
        4 => {
            let mut v = [rng.range(0.0005, 0.004), rng.range(0.0005, 0.004), rng.range(0.0005, 0.004)];
            v[rng.below(3) as usize] = rng.range(0.02, 0.3);
            v
        }
        5 => {
            let mut v = [rng.range(0.02, 0.2), rng.range(0.02, 0.2), rng.range(0.02, 0.2)];
            v[rng.below(3) as usize] = rng.range(0.0005, 0.003);
            v
        }
        _ => [rng.range(0.01, 0.99), rng.range(0.01, 0.99), rng.range(0.01, 0.99)],
    };
    let mut c = gen::from_lin_srgb_like(space, lin);
    // a hue is an angle: the same colour with the hue stored a few turns away
    if let Some(h) = space.hue_index() {
        c[h] += 360.0 * *rng.pick(&[0.0, 0.0, 0.0, -1.0, -2.0, 1.0]);
    }
    c
}

fn main() {
    let ctx = Ctx::from_args("C01");
    let mut report = Report::new(&ctx);
    let types = ct::types();
    let pairs = ct::pairs();
    let has = |i: usize, j: usize| pairs.binary_search(&(i, j)).is_ok();

    // ---------------------------------------------------------------------------------------
    let mname = "round_trip";
    if ctx.enabled(mname) {
        let mon = Monitor::new(
            mname,
            "A -> B -> A for every listed ordered pair with B not single-channel luma, f32 and f64, on seeded in-gamut colours (greys, gamut-surface-near, dark, general); judged in A's comparison space with tol = floor + model sensitivity of B -> A to 64 ulp on B's components and the intermediate (+2e-6 across published 7-digit constants); \
             distinct = (pair, lightness/chroma cell)",
        );
        let replay = ctx.replay.as_ref().filter(|r| r.monitor == mname).map(|r| (r.inst.clone(), parse_bits64(&r.input["bits"])));
        let res = par(if replay.is_some() { 1 } else { ctx.threads }, |t| {
            let mut m = mon.like();
            let mut rng = ctx.rng(mname, t as u64);
            let mut worst = 0.0f64;
            for (pi, &(i, j)) in pairs.iter().enumerate() {
                if types[j].luma || types[i].luma {
                    continue;
                }
                let inst = format!("{}->{}->back", types[i].name, types[j].name);
                if let Some((rinst, _)) = &replay {
                    if *rinst != inst {
                        continue;
                    }
                } else if pi % ctx.threads != t {
                    continue;
                }
                let (a, b) = (types[i].space, types[j].space);
                let is32 = types[i].is_f32;
                let n = if replay.is_some() { 1 } else { ctx.n(300, 30_000) };
                for _ in 0..n {
                    let mut x = match &replay {
                        Some((_, bits)) => [bits[0], bits[1], bits[2]],
                        None => source(a, &mut rng),
                    };
                    if is32 {
                        x = [x[0] as f32 as f64, x[1] as f32 as f64, x[2] as f32 as f64];
                    }
                    let y = match ct::convert(i, j, x) {
                        Some(y) => y,
                        None => continue,
                    };
                    let back = match ct::convert(j, i, y) {
                        Some(v) => v,
                        None => continue,
                    };
                    m.eval();
                    let d = judge::dist(&a.cmp_vec(back), &a.cmp_vec(x));
                    // conditioning of the way back, evaluated by the model at the model's image of x
                    let ym = a.convert_to(b, x).0;
                    let tol = judge::tolerance(b, a, &ym, is32) + judge::tolerance(a, b, &x, is32) * 0.0 + if is32 { 0.0 } else { 0.0 };
                    let ratio = d / tol;
                    if !(ok_family(a) || ok_family(b)) {
                        m.counter_max(if is32 { "max:ratio_milli_f32_non_ok" } else { "max:ratio_milli_f64_non_ok" }, (ratio * 1000.0) as u64);
                    }
                    if ratio > worst && d <= tol {
                        worst = ratio;
                        m.max_dev = ratio;
                        m.argmax = Some(json!({"pair": inst, "x": fvec(&x), "there": fvec(&y), "back": fvec(&back), "deviation": fjson(d), "tolerance": tol}));
                    }
                    if !(d <= tol) {
                        let class = if back.iter().chain(y.iter()).any(|c| !c.is_finite()) {
                            "nonfinite"
                        } else if (ok_family(a) || ok_family(b)) && d <= 5e-6 * a.scale() {
                            // a round trip uses one matrix pair in both directions; what is left of the recorded finding here is
                            // the 1e-6 residue of the published direct sRGB <-> Oklab pair (largest seen: 1.1e-6)
                            "oklab_xyz_matrix_white_mismatch"
                        } else if d > 1e3 * tol {
                            "gross"
                        } else {
                            "beyond_tolerance"
                        };
                        m.violate(&inst, class, json!({"bits": bits64(&x), "x": fvec(&x)}), json!({"there": fvec(&y), "back": fvec(&back), "deviation": fjson(d)}), json!({"tolerance": tol}), "");
                    }
                    let cv = a.cmp_vec(x);
                    m.cell(pvmon::rng::mix(pi as u64, ((cv[0] * 4.0 / a.scale()) as i64 & 7) as u64 | ((((cv[1].abs() + cv[2].abs()) * 4.0 / a.scale()) as u64 & 7) << 3)));
                }
            }
            vec![m]
        });
        for mut m in res {
            m.tolerance = Some("max_deviation_observed is the worst deviation/tolerance ratio; tolerance = floor (1e-7 S f64, 4u S f32) + model sensitivity (64 ulp; 2e-6 across published constants)".into());
            let j = types.iter().position(|t| t.name == "Lch<D65>/f64").unwrap();
            m.sample(|| {
                let y = ct::convert(0, j, [0.25, 0.5, 0.75]).unwrap();
                json!({"pair": "Srgb/f64->Lch<D65>/f64->back", "x": [0.25, 0.5, 0.75], "there": fvec(&y), "back": fvec(&ct::convert(j, 0, y).unwrap())})
            });
            report.add(m);
        }
    }

    // ---------------------------------------------------------------------------------------
    let mname = "commutation";
    if ctx.enabled(mname) {
        let mon = Monitor::new(
            mname,
            "direct A -> B against A -> M -> B for every listed pair and every intermediate M for which both legs are listed (M not luma; luma sources included), f32 and f64, seeded in-gamut colours incl. dark saturated ones whose tristimulus ratios straddle the CIE epsilon; judged in B's comparison space; distinct = (A, M, B) triples",
        );
        let replay = ctx.replay.as_ref().filter(|r| r.monitor == mname).map(|r| (r.inst.clone(), parse_bits64(&r.input["bits"])));
        let res = par(if replay.is_some() { 1 } else { ctx.threads }, |t| {
            let mut m = mon.like();
            let mut rng = ctx.rng(mname, t as u64);
            let mut worst = 0.0f64;
            for (pi, &(i, j)) in pairs.iter().enumerate() {
                // (single-channel luma is a legitimate *source*: its direct conversions must agree with the routes through XYZ)
                if replay.is_none() && pi % ctx.threads != t {
                    continue;
                }
                let (a, b) = (types[i].space, types[j].space);
                let is32 = types[i].is_f32;
                let mids: Vec<usize> = (0..types.len()).filter(|&k| k != i && k != j && !types[k].luma && has(i, k) && has(k, j)).collect();
                for &k in &mids {
                    let inst = format!("{}->{}->{}", types[i].name, types[k].name, types[j].name);
                    if let Some((rinst, _)) = &replay {
                        if *rinst != inst {
                            continue;
                        }
                    }
                    let mspace = types[k].space;
                    let n = if replay.is_some() { 1 } else { ctx.n(6, 300) };
                    for _ in 0..n {
                        let mut x = match &replay {
                            Some((_, bits)) => [bits[0], bits[1], bits[2]],
                            None => source(a, &mut rng),
                        };
                        if is32 {
                            x = [x[0] as f32 as f64, x[1] as f32 as f64, x[2] as f32 as f64];
                        }
                        let direct = ct::convert(i, j, x).unwrap();
                        let ymid = ct::convert(i, k, x).unwrap();
                        let step = ct::convert(k, j, ymid).unwrap();
                        m.eval();
                        let d = judge::dist(&b.cmp_vec(direct), &b.cmp_vec(step));
                        let mm = a.convert_to(mspace, x).0;
                        let tol = judge::tolerance(a, b, &x, is32) + judge::tolerance(mspace, b, &mm, is32);
                        let ratio = d / tol;
                        if !(ok_family(a) || ok_family(b) || ok_family(mspace)) {
                            m.counter_max(if is32 { "max:ratio_milli_f32_non_ok" } else { "max:ratio_milli_f64_non_ok" }, (ratio * 1000.0) as u64);
                        }
                        if ratio > worst && d <= tol {
                            worst = ratio;
                            m.max_dev = ratio;
                            m.argmax = Some(json!({"triple": inst, "x": fvec(&x), "direct": fvec(&direct), "via": fvec(&step), "deviation": fjson(d), "tolerance": tol}));
                        }
                        if !(d <= tol) {
                            let class = if direct.iter().chain(step.iter()).any(|c| !c.is_finite()) {
                                "nonfinite"
                            } else if (ok_family(a) || ok_family(b) || ok_family(mspace)) && d <= 1e-7 * b.scale() + judge::sensitivity(a, b, &x, judge::K * judge::U64, ok_eps(b)) + judge::sensitivity(mspace, b, &mm, judge::K * judge::U64, ok_eps(b)) {
                                "oklab_xyz_matrix_white_mismatch"
                            } else if d > 1e3 * tol {
                                "gross"
                            } else {
                                "beyond_tolerance"
                            };
                            m.violate(&inst, class, json!({"bits": bits64(&x), "x": fvec(&x)}), json!({"direct": fvec(&direct), "via": fvec(&step), "deviation": fjson(d)}), json!({"tolerance": tol}), "");
                        }
                    }
                    m.cell(pvmon::rng::mix(pi as u64, k as u64));
                }
            }
            vec![m]
        });
        for mut m in res {
            m.tolerance = Some("max_deviation_observed is the worst deviation/tolerance ratio; tolerance = tol(A->B at x) + tol(M->B at the model's M image)".into());
            m.sample(|| json!({"triple": "Srgb/f64 -> Lab<D65>/f64 -> Lch<D65>/f64 vs direct", "x": [0.25, 0.5, 0.75]}));
            report.add(m);
        }
    }

    // ---------------------------------------------------------------------------------------
    let mname = "alpha_transparent_to_conversion";
    if ctx.enabled(mname) {
        let mon = Monitor::new(
            mname,
            "Alpha<A> -> Alpha<B>: colour part bit-identical to A -> B and alpha bit-identical to the input alpha; A -> Alpha<B>: same colour, alpha = 1; Alpha<A> -> B: same colour; every listed pair, f32/f64, alphas {0, tiny, 0.5, 1, >1, negative} and seeded; distinct = (pair, alpha class)",
        );
        let replay = ctx.replay.as_ref().filter(|r| r.monitor == mname).map(|r| (r.inst.clone(), parse_bits64(&r.input["bits"])));
        let res = par(if replay.is_some() { 1 } else { ctx.threads }, |t| {
            let mut m = mon.like();
            let mut rng = ctx.rng(mname, t as u64);
            for (pi, &(i, j)) in pairs.iter().enumerate() {
                let inst = format!("{}->{}", types[i].name, types[j].name);
                if let Some((rinst, _)) = &replay {
                    if *rinst != inst {
                        continue;
                    }
                } else if pi % ctx.threads != t {
                    continue;
                }
                let a = types[i].space;
                let is32 = types[i].is_f32;
                let alphas = [0.0, 1e-30, 0.5, 1.0, 1.5, -0.25, 0.3333333333333333];
                let n = if replay.is_some() { 1 } else { ctx.n(24, 1500) };
                for q in 0..n {
                    let (mut x, mut al) = match &replay {
                        Some((_, bits)) => ([bits[0], bits[1], bits[2]], bits[3]),
                        None => (if q % 3 == 0 { gen::fill(a, &mut rng) } else { source(a, &mut rng) }, if q < 7 { alphas[q as usize] } else { rng.unit() }),
                    };
                    if is32 {
                        x = [x[0] as f32 as f64, x[1] as f32 as f64, x[2] as f32 as f64];
                        al = al as f32 as f64;
                    }
                    let plain = ct::convert(i, j, x).unwrap();
                    let (c, ra, c2, a2, c3) = ct::convert_alpha(i, j, x, al).unwrap();
                    m.evals(3);
                    let same = |p: &V3, q: &V3| (0..3).all(|k| p[k].to_bits() == q[k].to_bits() || (p[k].is_nan() && q[k].is_nan()));
                    if !same(&c, &plain) || ra.to_bits() != al.to_bits() {
                        m.violate(&inst, "alpha_to_alpha", json!({"bits": bits64(&[x[0], x[1], x[2], al]), "x": fvec(&x), "alpha": al}), json!({"color": fvec(&c), "alpha": fjson(ra)}), json!({"color": fvec(&plain), "alpha": al}), "");
                    }
                    if !same(&c2, &plain) || a2 != 1.0 {
                        m.violate(&inst, "color_into_alpha", json!({"bits": bits64(&[x[0], x[1], x[2], al]), "x": fvec(&x)}), json!({"color": fvec(&c2), "alpha": fjson(a2)}), json!({"color": fvec(&plain), "alpha": 1.0}), "");
                    }
                    if !same(&c3, &plain) {
                        m.violate(&inst, "alpha_dropped", json!({"bits": bits64(&[x[0], x[1], x[2], al]), "x": fvec(&x)}), json!({"color": fvec(&c3)}), json!({"color": fvec(&plain)}), "");
                    }
                    m.cell(pvmon::rng::mix(pi as u64, (q.min(8)) as u64));
                }
            }
            vec![m]
        });
        for mut m in res {
            m.tolerance = Some("bit-exact".into());
            m.sample(|| json!({"pair": "Srgb/f64->Lab<D65>/f64", "x": [0.1, 0.2, 0.3], "alpha": 0.5, "result": format!("{:?}", ct::convert_alpha(0, types.iter().position(|t| t.name == "Lab<D65>/f64").unwrap(), [0.1, 0.2, 0.3], 0.5))}));
            report.add(m);
        }
    }
    report.finish();
}
