//! C06 — component number-format conversion saturates, rounds to nearest and round-trips.
//!
//! Oracle: exact integer / rational arithmetic on the decomposed float (u128 and a two-limb
//! 256-bit product), independent of palette's bit tricks.

use palette::stimulus::IntoStimulus;
use palette::{LinSrgb, LinSrgba, SrgbLuma};
use pvmon::fbits::*;
use pvmon::report::{fjson, par, Ctx, Monitor, Report};
use pvmon::{json, Value};

trait U: Copy + Send + Sync + 'static {
    const BITS: u32;
    const NAME: &'static str;
    fn to_u128(self) -> u128;
    fn from_u128(x: u128) -> Self;
}
macro_rules! impl_u {
    ($($t:ident),*) => {$(impl U for $t {
        const BITS: u32 = $t::BITS;
        const NAME: &'static str = stringify!($t);
        fn to_u128(self) -> u128 { self as u128 }
        fn from_u128(x: u128) -> Self { x as $t }
    })*};
}
impl_u!(u8, u16, u32, u64, u128);

fn umax(bits: u32) -> u128 {
    if bits == 128 {
        u128::MAX
    } else {
        (1u128 << bits) - 1
    }
}

/// 128x128 -> 256 bit product (hi, lo)
fn mul_wide(a: u128, b: u128) -> (u128, u128) {
    let (a1, a0) = (a >> 64, a & 0xffff_ffff_ffff_ffff);
    let (b1, b0) = (b >> 64, b & 0xffff_ffff_ffff_ffff);
    let p00 = a0 * b0;
    let p01 = a0 * b1;
    let p10 = a1 * b0;
    let p11 = a1 * b1;
    let mid = (p00 >> 64) + (p01 & 0xffff_ffff_ffff_ffff) + (p10 & 0xffff_ffff_ffff_ffff);
    let lo = (p00 & 0xffff_ffff_ffff_ffff) | (mid << 64);
    let hi = p11 + (p01 >> 64) + (p10 >> 64) + (mid >> 64);
    (hi, lo)
}

/// floor(v * max) for a finite v in (0,1), exact. v = m * 2^e.
fn exact_floor_product(v: f64, max: u128) -> u128 {
    let bits = v.to_bits();
    let exp = ((bits >> 52) & 0x7ff) as i32;
    let frac = bits & ((1u64 << 52) - 1);
    let (m, e) = if exp == 0 { (frac, -1074) } else { (frac | (1u64 << 52), exp - 1075) };
    // v in (0,1) => e < 0
    let sh = (-e) as u32;
    let (hi, lo) = mul_wide(m as u128, max);
    if sh >= 256 {
        0
    } else if sh >= 128 {
        hi >> (sh - 128).min(127) >> if sh - 128 > 127 { 1 } else { 0 }
    } else if sh == 0 {
        lo
    } else {
        (lo >> sh) | (hi << (128 - sh))
    }
}

/// Decide one float -> uint event. `v` is the exact input value (f32 widened or f64),
/// `f32_temp` says the product was formed in f32 (f32 -> u8/u16).
fn judge_f2u(v: f64, f32_temp: bool, bits: u32, r: u128) -> Result<f64, String> {
    let max = umax(bits);
    if v.is_nan() {
        return if r == max { Ok(0.0) } else { Err("nan_not_max".into()) };
    }
    if v <= 0.0 {
        return if r == 0 { Ok(0.0) } else { Err(if v == f64::NEG_INFINITY { "neg_inf_not_zero".into() } else { "nonpositive_not_zero".into() }) };
    }
    if v >= 1.0 {
        return if r == max { Ok(0.0) } else { Err(if v == f64::INFINITY { "inf_not_max".into() } else { "ge_one_not_max".into() }) };
    }
    if bits <= 32 {
        let p = v * max as f64;
        let tol = 0.5 + if f32_temp { (p * 1.2e-7).max(1e-6) } else { 1e-6 };
        let d = (r as f64 - p).abs();
        if d <= tol {
            Ok(d)
        } else {
            Err("not_nearest".into())
        }
    } else {
        let fl = exact_floor_product(v, max);
        if fl < (1u128 << 51) {
            // a product below 2^51 still has its fraction in f64: the nearest integer is decided, not just "one of the
            // two neighbours" (v * 2^bits is exact; the true product v * (2^bits - 1) is smaller by v < 2^-12)
            let p = v * (max as f64);
            let d = (r as f64 - p).abs();
            return if d <= 0.5 + 1e-3 { Ok(0.0) } else { Err("not_nearest_small_product".into()) };
        }
        let d = if r > fl { r - fl } else { fl - r };
        let tol = 1 + (fl >> 51);
        if d <= tol {
            Ok(0.0)
        } else {
            Err("not_nearest_53bit".into())
        }
    }
}

fn f32_to<T: U>(x: f32) -> u128
where
    f32: IntoStimulus<T>,
{
    let r: T = x.into_stimulus();
    r.to_u128()
}
fn f64_to<T: U>(x: f64) -> u128
where
    f64: IntoStimulus<T>,
{
    let r: T = x.into_stimulus();
    r.to_u128()
}

struct SweepState {
    evals: u64,
    prev: [u128; 5],
    bad: Vec<(u32, &'static str, u128, String)>,
    maxdev: f64,
    argmax: u32,
    sat: [u64; 5], // neg, neg_inf, gt1, inf, nan
}

fn sweep_f32(ctx: &Ctx, report: &mut Report) {
    let name = "f32_to_uint_sweep";
    if !ctx.enabled(name) {
        return;
    }
    let mut mon = Monitor::new(
        name,
        "f32 bit patterns -> u8,u16,u32,u64,u128 via IntoStimulus; exact rational oracle; monotone over ascending patterns; \
         distinct = (target, sign, exponent, top-4 mantissa bits) cells swept",
    );
    mon.tolerance = Some("|r - v*MAX| <= 0.5 + one rounding of the product (f32 for u8/u16, f64 for u32; 2^-51 relative for u64/u128)".into());
    let full = !ctx.quick();
    let replay = ctx.replay_input(name, "f32");
    let nthreads = if replay.is_some() { 1 } else { ctx.threads };
    let res = par(nthreads, |t| {
        let mut m = mon.like();
        let mut s = SweepState { evals: 0, prev: [0; 5], bad: vec![], maxdev: 0.0, argmax: 0, sat: [0; 5] };
        let mut one = |bits: u32, s: &mut SweepState, mono: bool| {
            let x = f32::from_bits(bits);
            let v = x as f64;
            let rs = [f32_to::<u8>(x), f32_to::<u16>(x), f32_to::<u32>(x), f32_to::<u64>(x), f32_to::<u128>(x)];
            let names = ["u8", "u16", "u32", "u64", "u128"];
            let bw = [8u32, 16, 32, 64, 128];
            for i in 0..5 {
                s.evals += 1;
                match judge_f2u(v, i < 2, bw[i], rs[i]) {
                    Ok(d) => {
                        if d > s.maxdev {
                            s.maxdev = d;
                            s.argmax = bits;
                        }
                    }
                    Err(c) => {
                        if s.bad.len() < 64 && !s.bad.iter().any(|b| b.1 == names[i] && b.3 == c) {
                            s.bad.push((bits, names[i], rs[i], c));
                        }
                    }
                }
                if mono && !x.is_nan() && (bits & 0x8000_0000) == 0 {
                    if rs[i] < s.prev[i] && s.bad.len() < 64 && !s.bad.iter().any(|b| b.1 == names[i] && b.3 == "not_monotone") {
                        s.bad.push((bits, names[i], rs[i], "not_monotone".into()));
                    }
                    s.prev[i] = rs[i];
                }
            }
            if x.is_nan() {
                s.sat[4] += 1;
            } else if x == f32::INFINITY {
                s.sat[3] += 1;
            } else if x == f32::NEG_INFINITY {
                s.sat[1] += 1;
            } else if x > 1.0 {
                s.sat[2] += 1;
            } else if x < 0.0 {
                s.sat[0] += 1;
            }
        };
        if let Some(inp) = &replay {
            let bits = u32::from_str_radix(inp["bits"].as_str().unwrap().trim_start_matches("0x"), 16).unwrap();
            one(bits, &mut s, false);
            if let Some(p) = inp["prev_bits"].as_str() {
                let pb = u32::from_str_radix(p.trim_start_matches("0x"), 16).unwrap();
                s.prev = [0; 5];
                one(pb, &mut s, true);
                one(bits, &mut s, true);
            }
        } else if full {
            // contiguous ascending ranges per thread (positive half monotone-checked)
            let per = (1u64 << 32) / ctx.threads as u64;
            let lo = per * t as u64;
            let hi = if t == ctx.threads - 1 { 1u64 << 32 } else { lo + per };
            let mut b = lo;
            while b < hi {
                one(b as u32, &mut s, true);
                b += 1;
            }
        } else {
            let stride = 509u64 * ctx.threads as u64;
            let mut b = (t as u64) * 509 + (ctx.seed % 509);
            while b < (1u64 << 32) {
                one(b as u32, &mut s, true);
                b += stride;
            }
            s.prev = [0; 5];
            // dense windows: around every exponent boundary, 0, 1, and k/255, k/65535 grid points
            let mut centers: Vec<u32> = Vec::new();
            for e in (t as u32..256).step_by(ctx.threads) {
                centers.push(e << 23);
                centers.push((e << 23) | 0x8000_0000);
            }
            if t == 0 {
                for k in 0..=255u32 {
                    centers.push(((k as f32 + 0.5) / 255.0).to_bits());
                    centers.push((k as f32 / 255.0).to_bits());
                }
                for c in [1.0f32, 0.5, 0.999, 1.0 / 65535.0, 0.5 / 255.0, 8388608.0, -8388608.0 / 255.0, -128.0, -32896.0, -1048576.0, 2.0, 65535.0] {
                    centers.push(c.to_bits());
                }
            }
            for c in centers {
                s.prev = [0; 5];
                let lo = c.saturating_sub(2048).max(c & 0x8000_0000);
                let hi = c.saturating_add(2048).min((c & 0x8000_0000) | 0x7fff_ffff);
                let mut b = lo;
                while b <= hi {
                    one(b, &mut s, (c & 0x8000_0000) == 0);
                    if b == u32::MAX {
                        break;
                    }
                    b += 1;
                }
            }
            for h in hostile_f32() {
                one(h.to_bits(), &mut s, false);
            }
        }
        m.evals(s.evals);
        m.dev(s.maxdev, || json!({"what": "|r - v*MAX| (targets <= 32 bit)", "bits": format!("{:#010x}", s.argmax), "x": fjson(f32::from_bits(s.argmax) as f64)}));
        for (k, n) in ["neg", "neg_inf", "gt1", "inf", "nan"].iter().zip(s.sat.iter()) {
            m.count_n(&format!("saturation_inputs_{}", k), *n);
        }
        for (bits, target, r, class) in &s.bad {
            m.violate(
                "f32",
                &format!("{}:{}", target, class),
                json!({"bits": format!("{:#010x}", bits), "prev_bits": format!("{:#010x}", bits.wrapping_sub(1)), "x": fjson(f32::from_bits(*bits) as f64)}),
                json!(format!("{}", r)),
                json!("saturating nearest integer of x*MAX (see class)"),
                "",
            );
        }
        vec![m]
    });
    for mut m in res {
        if replay.is_none() {
            for tgt in 0..5u64 {
                for e in 0..256u64 {
                    for sg in 0..2u64 {
                        for mant in 0..16u64 {
                            m.cell((tgt << 20) | (e << 8) | (sg << 4) | mant);
                        }
                    }
                }
            }
            if full {
                m.exhaustive = Some("all 2^32 f32 bit patterns x {u8,u16,u32,u64,u128}".into());
            }
        }
        m.sample(|| json!({"x": 0.5f32, "u8": f32_to::<u8>(0.5), "u16": f32_to::<u16>(0.5), "u32": f32_to::<u32>(0.5), "u64": format!("{}", f32_to::<u64>(0.5))}));
        m.sample(|| json!({"x": -200.0f32, "u8": f32_to::<u8>(-200.0), "u16": f32_to::<u16>(-200.0), "u32": f32_to::<u32>(-200.0)}));
        report.add(m);
    }
}

fn f64_inputs(ctx: &Ctx) -> Vec<f64> {
    let mut v = hostile_f64();
    let mut rng = ctx.rng("f64in", 0);
    for bits in [8u32, 16, 32, 64, 128] {
        let max = umax(bits) as f64;
        let ks: Vec<f64> = (0..200).map(|_| (rng.unit() * max).floor()).chain([0.0, 1.0, 2.0, 127.0, 128.0, 254.0, 255.0, (max / 2.0).floor(), max - 1.0, max].into_iter()).collect();
        for k in ks {
            for half in [0.0, 0.5] {
                let c = (k + half) / max;
                for d in -2..=2 {
                    v.push(step64(c, d));
                }
            }
        }
    }
    // tiny values whose product with 2^64 / 2^128 is a small number with a fraction
    for bits in [64i32, 128] {
        for k in 0..40 {
            for frac in [0.0, 0.25, 0.49, 0.5, 0.51, 0.75, 0.999] {
                v.push((k as f64 + frac) * (-(bits as f64)).exp2());
                v.push((k as f64 * 1000.0 + frac) * (-(bits as f64)).exp2());
            }
        }
    }
    for e in -1074..=1030 {
        let p = (e as f64).exp2();
        for d in -1..=1 {
            v.push(step64(p, d));
            v.push(-step64(p, d));
        }
    }
    let n = ctx.n(2_000_000, 100_000_000 / 4);
    for _ in 0..n {
        let x = match rng.below(6) {
            0 => rng.unit(),
            1 => rng.range(-0.5, 1.5),
            2 => (rng.range(-80.0, 1.0)).exp2(),
            3 => f64::from_bits(rng.next_u64()),
            4 => -(rng.range(-30.0, 80.0)).exp2(),
            _ => (f32::from_bits(rng.next_u32()) as f64).abs().min(2.0) * 0.75,
        };
        v.push(x);
    }
    v
}

fn sample_f64(ctx: &Ctx, report: &mut Report) {
    let name = "f64_to_uint";
    if !ctx.enabled(name) {
        return;
    }
    let mut mon = Monitor::new(
        name,
        "hostile, structured (k/MAX +- ulps, ties, powers of two) and seeded f64 -> u8..u128; exact oracle; monotone over the sorted inputs; \
         distinct = (target, class of input, binade)",
    );
    mon.tolerance = Some("|r - v*MAX| <= 0.5 + 1e-6 (<=32 bit); 1 + 2^-51 relative (64/128 bit)".into());
    let inputs: Vec<f64> = if let Some(inp) = ctx.replay_input(name, "f64") {
        pvmon::report::parse_bits64(&inp["bits"])
    } else if ctx.replaying() {
        vec![]
    } else {
        let mut v = f64_inputs(ctx);
        v.sort_by(|a, b| a.partial_cmp(b).unwrap_or_else(|| a.is_nan().cmp(&b.is_nan())));
        v
    };
    let chunks: Vec<&[f64]> = if inputs.is_empty() { vec![] } else { inputs.chunks((inputs.len() + 15) / 16).collect() };
    let res = par(chunks.len().max(1), |t| {
        let mut m = mon.like();
        if chunks.is_empty() {
            return vec![m];
        }
        let mut prev = [0u128; 5];
        let names = ["u8", "u16", "u32", "u64", "u128"];
        let bw = [8u32, 16, 32, 64, 128];
        for (idx, &x) in chunks[t].iter().enumerate() {
            let rs = [f64_to::<u8>(x), f64_to::<u16>(x), f64_to::<u32>(x), f64_to::<u64>(x), f64_to::<u128>(x)];
            for i in 0..5 {
                m.eval();
                match judge_f2u(x, false, bw[i], rs[i]) {
                    Ok(d) => m.dev(d, || json!({"x": fjson(x), "target": names[i]})),
                    Err(c) => m.violate("f64", &format!("{}:{}", names[i], c), json!({"bits": pvmon::report::bits64(&[x]), "x": fjson(x)}), json!(format!("{}", rs[i])), json!("saturating nearest integer of x*MAX"), ""),
                }
                if !x.is_nan() && idx > 0 {
                    if rs[i] < prev[i] {
                        m.violate("f64", &format!("{}:not_monotone", names[i]), json!({"bits": pvmon::report::bits64(&[chunks[t][idx - 1], x]), "x": fjson(x)}), json!(format!("{} after {}", rs[i], prev[i])), json!("non-decreasing"), "");
                    }
                }
                if !x.is_nan() {
                    prev[i] = rs[i];
                }
            }
            let class = if x.is_nan() { 0 } else if x == f64::INFINITY { 1 } else if x == f64::NEG_INFINITY { 2 } else if x < 0.0 { 3 } else if x > 1.0 { 4 } else { 5 };
            m.cell(((class as u64) << 16) | ((x.to_bits() >> 52) & 0x7ff));
        }
        vec![m]
    });
    for mut m in res {
        m.sample(|| json!({"x": 1.0f64, "u64": format!("{}", f64_to::<u64>(1.0)), "u128": format!("{}", f64_to::<u128>(1.0)), "u32": f64_to::<u32>(1.0)}));
        m.sample(|| json!({"x": -1e18f64, "u8": f64_to::<u8>(-1e18), "u16": f64_to::<u16>(-1e18)}));
        report.add(m);
    }
}

// ---------------------------------------------------------------------------------------------
// integer sources

fn judge_u2f(x: u128, sbits: u32, r: f64, f32_target: bool) -> Result<f64, &'static str> {
    let max = umax(sbits);
    if x == 0 {
        return if r == 0.0 { Ok(0.0) } else { Err("zero_not_zero") };
    }
    if x == max {
        return if r == 1.0 { Ok(0.0) } else { Err("max_not_one") };
    }
    let want = x as f64 / max as f64;
    let u = if f32_target { ulp32(r as f32) } else { ulp64(r) };
    let tol = if sbits > 32 { 4.0 } else { 1.5 } * u + if sbits > 32 { want * 4.5e-16 } else { 0.0 };
    let d = (r - want).abs();
    if d <= tol {
        Ok(d / u)
    } else {
        Err("not_x_over_max")
    }
}

macro_rules! u2f {
    ($m:expr, $src:ident, $x:expr, $prev32:expr, $prev64:expr) => {{
        let x: $src = $x;
        let a: f32 = x.into_stimulus();
        let b: f64 = x.into_stimulus();
        $m.evals(2);
        match judge_u2f(x as u128, <$src>::BITS, a as f64, true) {
            Ok(d) => $m.dev(d, || json!({"src": stringify!($src), "x": format!("{}", x), "dst": "f32", "ulps": d})),
            Err(c) => $m.violate(stringify!($src), &format!("->f32:{}", c), json!({"xs": [format!("{}", x)]}), fjson(a as f64), fjson(x as f64 / <$src>::MAX as f64), ""),
        }
        match judge_u2f(x as u128, <$src>::BITS, b, false) {
            Ok(d) => $m.dev(d, || json!({"src": stringify!($src), "x": format!("{}", x), "dst": "f64", "ulps": d})),
            Err(c) => $m.violate(stringify!($src), &format!("->f64:{}", c), json!({"xs": [format!("{}", x)]}), fjson(b), fjson(x as f64 / <$src>::MAX as f64), ""),
        }
        if let Some((px, pa)) = $prev32 {
            if (x > px && a < pa) || (x < px && a > pa) {
                $m.violate(stringify!($src), "->f32:not_monotone", json!({"xs": [format!("{}", px), format!("{}", x)]}), fjson(a as f64), fjson(pa as f64), "");
            }
        }
        if let Some((px, pb)) = $prev64 {
            if (x > px && b < pb) || (x < px && b > pb) {
                $m.violate(stringify!($src), "->f64:not_monotone", json!({"xs": [format!("{}", px), format!("{}", x)]}), fjson(b), fjson(pb), "");
            }
        }
        $prev32 = Some((x, a));
        $prev64 = Some((x, b));
    }};
}

fn bucket(x: u128) -> u64 {
    if x < 64 {
        return x as u64;
    }
    let msb = 127 - x.leading_zeros();
    (msb as u64) * 32 + ((x >> (msb - 5)) & 31) as u64 + 64
}

fn ratio_d(sbits: u32, tbits: u32) -> u128 {
    // MAXs / MAXt for sbits a multiple of tbits (exact)
    umax(sbits) / umax(tbits)
}

/// judge src uint -> dst uint
fn judge_u2u(x: u128, sbits: u32, tbits: u32, r: u128) -> Result<(), &'static str> {
    if x == 0 {
        return if r == 0 { Ok(()) } else { Err("zero_not_zero") };
    }
    if x == umax(sbits) {
        return if r == umax(tbits) { Ok(()) } else { Err("max_not_max") };
    }
    if tbits >= sbits {
        let k = ratio_d(tbits, sbits);
        return if r == x * k { Ok(()) } else { Err("widen_not_exact_replication") };
    }
    let d = ratio_d(sbits, tbits);
    let p = x as f64 / d as f64;
    let tol = 0.5 + 2e-3 + p * 9e-16 * if sbits > 32 { 4.0 } else { 0.0 } + if sbits > 32 { (x as f64) * 2.3e-16 / d as f64 } else { 0.0 };
    if (r as f64 - p).abs() <= tol {
        Ok(())
    } else {
        Err("narrow_not_nearest")
    }
}

macro_rules! u2u_pair {
    ($m:expr, $src:ident, $dst:ident, $x:expr, $prev:expr) => {{
        let x: $src = $x;
        let r: $dst = x.into_stimulus();
        $m.eval();
        if let Err(c) = judge_u2u(x as u128, <$src>::BITS, <$dst>::BITS, r as u128) {
            $m.violate(stringify!($src), &format!("->{}:{}", stringify!($dst), c), json!({"xs": [format!("{}", x)]}), json!(format!("{}", r)), json!("round(x*MAXt/MAXs)"), "");
        }
        if let Some((px, pr)) = $prev {
            if (x > px && r < pr) || (x < px && r > pr) {
                $m.violate(stringify!($src), concat!("->", stringify!($dst), ":not_monotone"), json!({"xs": [format!("{}", px), format!("{}", x)]}), json!(format!("{}", r)), json!(format!("{}", pr)), "");
            }
        }
        $prev = Some((x, r));
        // widen then narrow reproduces (8/16/32-bit sources)
        if <$dst>::BITS > <$src>::BITS && <$src>::BITS <= 32 {
            let back: $src = IntoStimulus::<$src>::into_stimulus(r);
            $m.eval();
            if back != x {
                $m.violate(stringify!($src), concat!("->", stringify!($dst), "->back:widen_narrow_roundtrip"), json!({"xs": [format!("{}", x)]}), json!(format!("{}", back)), json!(format!("{}", x)), "");
            }
        }
    }};
}

macro_rules! all_targets_from {
    ($m:expr, $src:ident, $x:expr, $p:expr) => {{
        u2u_pair!($m, $src, u8, $x, $p.0);
        u2u_pair!($m, $src, u16, $x, $p.1);
        u2u_pair!($m, $src, u32, $x, $p.2);
        u2u_pair!($m, $src, u64, $x, $p.3);
        u2u_pair!($m, $src, u128, $x, $p.4);
    }};
}

macro_rules! int_source {
    ($ctx:expr, $report:expr, $src:ident, $gen:expr) => {{
        let name = concat!("uint_source_", stringify!($src));
        if $ctx.enabled(name) {
            let mon = Monitor::new(
                name,
                concat!("source ", stringify!($src), " -> f32,f64,u8..u128: x/MAX within rounding, 0->0, MAX->1.0|MAX, monotone over ascending inputs, widen+narrow and int->float->int round trips; distinct = (source value bucket)"),
            );
            let replay = $ctx.replay_input(name, stringify!($src));
            let nthreads = if replay.is_some() { 1 } else { $ctx.threads };
            let res = par(nthreads, |t| {
                let mut m = mon.like();
                let xs: Vec<$src> = match &replay {
                    Some(inp) => inp["xs"].as_array().unwrap().iter().map(|s| s.as_str().unwrap().parse::<$src>().unwrap()).collect(),
                    None => $gen(t),
                };
                let mut p32 = None;
                let mut p64 = None;
                let mut p: (Option<($src, u8)>, Option<($src, u16)>, Option<($src, u32)>, Option<($src, u64)>, Option<($src, u128)>) = (None, None, None, None, None);
                for x in xs {
                    u2f!(m, $src, x, p32, p64);
                    all_targets_from!(m, $src, x, p);
                    // int -> float -> same int
                    if <$src>::BITS <= 16 {
                        let f: f32 = x.into_stimulus();
                        let b: $src = f.into_stimulus();
                        m.eval();
                        if b != x {
                            m.violate(stringify!($src), "->f32->back:float_roundtrip", json!({"xs": [format!("{}", x)]}), json!(format!("{}", b)), json!(format!("{}", x)), "");
                        }
                    }
                    if <$src>::BITS <= 32 {
                        let f: f64 = x.into_stimulus();
                        let b: $src = f.into_stimulus();
                        m.eval();
                        if b != x {
                            m.violate(stringify!($src), "->f64->back:float_roundtrip", json!({"xs": [format!("{}", x)]}), json!(format!("{}", b)), json!(format!("{}", x)), "");
                        }
                    }
                    let xb = x as u128;
                    m.cell(((<$src>::BITS as u64) << 32) | if <$src>::BITS <= 16 { xb as u64 } else { bucket(xb) });
                }
                vec![m]
            });
            for mut m in res {
                m.sample(|| {
                    let x: $src = <$src>::MAX / 3;
                    let a: f32 = x.into_stimulus();
                    let b: u8 = x.into_stimulus();
                    let c: u128 = x.into_stimulus();
                    json!({"src": stringify!($src), "x": format!("{}", x), "f32": a, "u8": b, "u128": format!("{}", c)})
                });
                $report.add(m);
            }
        }
    }};
}

fn wiring(ctx: &Ctx, report: &mut Report) {
    let name = "format_wiring";
    if !ctx.enabled(name) || ctx.replaying() {
        return;
    }
    let mut m = Monitor::new(
        name,
        "Rgb/Rgba/Luma into_format / from_format component-wise equal to IntoStimulus on each component (alpha included); distinct = sample index",
    );
    let mut rng = ctx.rng(name, 0);
    for i in 0..ctx.n(200_000, 5_000_000) {
        let c = [rng.range(-0.2, 1.2) as f32, rng.unit() as f32, rng.range(0.0, 1.0) as f32, rng.range(-0.1, 1.1) as f32];
        let rgb = LinSrgb::new(c[0], c[1], c[2]);
        let rgba = LinSrgba::new(c[0], c[1], c[2], c[3]);
        let a: LinSrgb<u8> = rgb.into_format();
        let b: LinSrgba<u16> = rgba.into_format();
        let b2: LinSrgba<u8> = rgba.into_format();
        let l: SrgbLuma<u8> = SrgbLuma::new(c[0]).into_format();
        let d: LinSrgb<f64> = rgb.into_format();
        let e: LinSrgb<u32> = LinSrgb::<f64>::new(c[0] as f64, c[1] as f64, c[2] as f64).into_format();
        let want_a = [IntoStimulus::<u8>::into_stimulus(c[0]), c[1].into_stimulus(), c[2].into_stimulus()];
        let want_b = [IntoStimulus::<u16>::into_stimulus(c[0]), c[1].into_stimulus(), c[2].into_stimulus(), c[3].into_stimulus()];
        let want_e = [IntoStimulus::<u32>::into_stimulus(c[0] as f64), (c[1] as f64).into_stimulus(), (c[2] as f64).into_stimulus()];
        m.evals(6);
        let ok = [a.red, a.green, a.blue] == want_a
            && [b.red, b.green, b.blue, b.alpha] == want_b
            && b2.alpha == IntoStimulus::<u8>::into_stimulus(c[3])
            && [b2.red, b2.green, b2.blue] == want_a
            && l.luma == want_a[0]
            && [d.red, d.green, d.blue] == [c[0] as f64, c[1] as f64, c[2] as f64]
            && [e.red, e.green, e.blue] == want_e;
        if !ok {
            m.violate("Rgb/Luma into_format", "format_wiring", json!({"c": c}), json!({"rgb_u8": [a.red, a.green, a.blue], "rgba_u16": [b.red, b.green, b.blue, b.alpha], "luma": l.luma}), json!({"u8": want_a, "u16": want_b}), "");
        }
        // integer sources back to float
        let back: LinSrgb<f32> = a.into_format();
        let wantf = [IntoStimulus::<f32>::into_stimulus(a.red), a.green.into_stimulus(), a.blue.into_stimulus()];
        let fb: LinSrgb<u8> = LinSrgb::<u8>::from_format(rgb);
        let wide: LinSrgba<u16> = b2.into_format();
        m.evals(3);
        if [back.red, back.green, back.blue] != wantf || fb != a || wide.alpha != IntoStimulus::<u16>::into_stimulus(b2.alpha) || wide.red != IntoStimulus::<u16>::into_stimulus(b2.red) {
            m.violate("Rgb from_format/into_format", "format_wiring_back", json!({"c": c}), json!([back.red, back.green, back.blue]), json!(wantf), "");
        }
        if i < 50_000 {
            m.cell(i);
        }
    }
    m.sample(|| {
        let x: LinSrgba<u8> = LinSrgba::new(0.25f32, 0.5, 1.5, 0.1).into_format();
        json!({"in": [0.25, 0.5, 1.5, 0.1], "out": [x.red, x.green, x.blue, x.alpha]})
    });
    report.add(m);
}

fn main() {
    let ctx = Ctx::from_args("C06");
    let mut report = Report::new(&ctx);
    // self-test of the exact product helper (oracle sanity, cheap)
    assert_eq!(exact_floor_product(0.5, u128::MAX), u128::MAX / 2);
    assert_eq!(exact_floor_product(0.25, umax(64)), umax(64) / 4);
    assert_eq!(exact_floor_product(0.75, 255), 191);
    sweep_f32(&ctx, &mut report);
    sample_f64(&ctx, &mut report);
    let quick = ctx.quick();
    let nt = ctx.threads;
    let seed = ctx.seed;
    int_source!(&ctx, report, u8, |t: usize| -> Vec<u8> { if t == 0 { (0..=255u8).collect() } else { vec![] } });
    int_source!(&ctx, report, u16, |t: usize| -> Vec<u16> {
        let per = 65536 / nt;
        ((t * per) as u32..if t == nt - 1 { 65536 } else { ((t + 1) * per) as u32 }).map(|x| x as u16).collect()
    });
    int_source!(&ctx, report, u32, |t: usize| -> Vec<u32> {
        let mut v: Vec<u32> = Vec::new();
        let per = (1u64 << 32) / nt as u64;
        let lo = per * t as u64;
        let hi = if t == nt - 1 { 1u64 << 32 } else { lo + per };
        if quick {
            let mut b = lo + (seed % 4099);
            while b < hi {
                v.push(b as u32);
                b += 4099;
            }
            if t == 0 {
                for e in 0..32 {
                    for d in -300i64..=300 {
                        let c = (1i64 << e) + d;
                        if c >= 0 && c < (1i64 << 32) {
                            v.push(c as u32);
                        }
                    }
                }
                for d in 0..=2000u32 {
                    v.push(u32::MAX - d);
                    v.push(d);
                    v.push(0x0101_0101u32.wrapping_mul(d & 255));
                    v.push(0x0001_0001u32.wrapping_mul(d & 65535).wrapping_add(d >> 9));
                }
            }
            v.sort_unstable();
        } else {
            // thorough: every 17th value plus dense windows (full 2^32 x 7 targets costs ~minutes; stride keeps order)
            let mut b = lo;
            while b < hi {
                v.push(b as u32);
                b += 1 + (b % 13 == 0) as u64 * 0 + 16;
            }
            if t == 0 {
                for e in 0..32 {
                    for d in -5000i64..=5000 {
                        let c = (1i64 << e) + d;
                        if c >= 0 && c < (1i64 << 32) {
                            v.push(c as u32);
                        }
                    }
                }
                for d in 0..=65535u32 {
                    v.push(u32::MAX - d);
                    v.push(0x0001_0001u32.wrapping_mul(d));
                }
            }
            v.sort_unstable();
        }
        v
    });
    int_source!(&ctx, report, u64, |t: usize| -> Vec<u64> {
        let mut rng = pvmon::Rng::derive(seed, "u64src", t as u64);
        let mut v: Vec<u64> = Vec::new();
        let n = if quick { 60_000 } else { 3_000_000 };
        for _ in 0..n {
            let sh = rng.below(64);
            v.push(rng.next_u64() >> sh);
        }
        if t == 0 {
            for e in 0..64 {
                for d in -40i128..=40 {
                    let c = (1i128 << e) + d;
                    if c >= 0 && c < (1i128 << 64) {
                        v.push(c as u64);
                    }
                }
            }
            for d in 0..=300u64 {
                v.push(u64::MAX - d);
                v.push(d);
                v.push(0x0101_0101_0101_0101u64.wrapping_mul(d & 255));
                v.push(((u64::MAX / 255) * (d & 255)).wrapping_add(d));
            }
        }
        v.sort_unstable();
        v
    });
    int_source!(&ctx, report, u128, |t: usize| -> Vec<u128> {
        let mut rng = pvmon::Rng::derive(seed, "u128src", t as u64);
        let mut v: Vec<u128> = Vec::new();
        let n = if quick { 60_000 } else { 3_000_000 };
        for _ in 0..n {
            let sh = rng.below(128);
            v.push((((rng.next_u64() as u128) << 64) | rng.next_u64() as u128) >> sh);
        }
        if t == 0 {
            for e in 0..128 {
                for d in -40i128..=40 {
                    let c = (1u128 << e).wrapping_add(d as u128);
                    v.push(c);
                }
            }
            for d in 0..=300u128 {
                v.push(u128::MAX - d);
                v.push(d);
                v.push((u128::MAX / 255) * (d & 255));
                v.push(((u128::MAX / 65535) * (d * 211 & 65535)).wrapping_add(d));
            }
        }
        v.sort_unstable();
        v
    });
    wiring(&ctx, &mut report);
    let _: Value = json!(null);
    report.finish();
}
