//! C16 — CAM16 appearance correlates round-trip and are mutually consistent.

use palette::cam16::{BakedParameters, Cam16, Cam16Jch, Cam16Jmh, Cam16Jsh, Cam16Qch, Cam16Qmh, Cam16Qsh, Cam16UcsJab, Cam16UcsJmh, Discounting, Parameters, StaticWp, Surround};
use palette::convert::{Convert, FromColorUnclamped};
use palette::white_point as wp;
use palette::Xyz;
use pvmon::refmodel::cam16 as model;
use pvmon::refmodel::cam16::Vc;
use pvmon::refmodel::space::{mat_vec, Prim, RgbSpaceM, Wp, V3};
use pvmon::report::{fjson, fvec, par, Ctx, Monitor, Report};
use pvmon::{json, Rng};
use serde_json::Value;

#[derive(Clone, Copy, Debug)]
struct Cond {
    la: f64,
    yb: f64,
    /// 0 dark, 1 dim, 2 average, 3 percent(value)
    surround_kind: u8,
    surround_pct: f64,
    /// None = auto
    discount: Option<f64>,
}

impl Cond {
    fn vc(&self, white: V3) -> Vc {
        let pct = match self.surround_kind {
            0 => 0.0,
            1 => 10.0,
            2 => 20.0,
            _ => self.surround_pct,
        };
        Vc { white, la: self.la, yb: self.yb, surround: pct, discount: self.discount }
    }
    fn json(&self) -> Value {
        json!({"adapting_luminance": self.la, "background_luminance": self.yb, "surround_kind": self.surround_kind, "surround_percent": self.surround_pct, "discounting": self.discount})
    }
    fn from_json(v: &Value) -> Cond {
        Cond {
            la: v["adapting_luminance"].as_f64().unwrap(),
            yb: v["background_luminance"].as_f64().unwrap(),
            surround_kind: v["surround_kind"].as_u64().unwrap() as u8,
            surround_pct: v["surround_percent"].as_f64().unwrap(),
            discount: v["discounting"].as_f64(),
        }
    }
}

fn conditions(rng: &mut Rng, n: u64) -> Vec<Cond> {
    let mut v = Vec::new();
    // the default of the crate's own tests and the published worked example first
    v.push(Cond { la: 40.0, yb: 0.2, surround_kind: 2, surround_pct: 20.0, discount: None });
    v.push(Cond { la: 318.31, yb: 0.2, surround_kind: 2, surround_pct: 20.0, discount: None });
    let las = [0.1, 0.5, 1.0, 4.0, 10.0, 40.0, 100.0, 318.31, 1000.0, 5000.0];
    let ybs = [0.05, 0.1, 0.2, 0.5, 1.0];
    for (k, &la) in las.iter().enumerate() {
        for (l, &yb) in ybs.iter().enumerate() {
            let sk = ((k + l) % 4) as u8;
            let disc = match (k + 2 * l) % 5 {
                0 => None,
                1 => Some(0.0),
                2 => Some(1.0),
                3 => Some(0.5),
                _ => Some(1.5), // clamped to 1
            };
            v.push(Cond { la, yb, surround_kind: sk, surround_pct: [0.0, 5.0, 10.0, 15.0, 20.0, 25.0][(k * 5 + l) % 6], discount: disc });
        }
    }
    while (v.len() as u64) < n {
        let la = (rng.range((0.05f64).ln(), (5000.0f64).ln())).exp();
        let yb = if rng.chance(0.3) { 0.2 } else { rng.range(0.03, 1.0) };
        let sk = rng.below(4) as u8;
        let discount = match rng.below(4) {
            0 | 1 => None,
            2 => Some(rng.unit()),
            _ => Some(*rng.pick(&[0.0, 1.0, -0.2, 1.3])),
        };
        v.push(Cond { la, yb, surround_kind: sk, surround_pct: rng.range(-2.0, 23.0), discount });
    }
    v
}

/// linear RGB coordinates in and around the unit cube
fn rgb_points(rng: &mut Rng, n: u64) -> Vec<V3> {
    let lv = [0.0, 1e-6, 0.01, 0.18, 0.5, 1.0];
    let mut v = Vec::new();
    for &r in &lv {
        for &g in &lv {
            for &b in &lv {
                v.push([r, g, b]);
            }
        }
    }
    // around the gamut: one or two channels negative or above one
    let out = [-0.3, -0.05, 0.0, 0.3, 1.0, 1.25];
    for &r in &out {
        for &g in &out {
            for &b in &out {
                if r < 0.0 || g < 0.0 || b < 0.0 || r > 1.0 || g > 1.0 || b > 1.0 {
                    v.push([r, g, b]);
                }
            }
        }
    }
    for _ in 0..n {
        let c = match rng.below(6) {
            0 => {
                let g = rng.unit();
                [g, g, g]
            }
            1 => [rng.range(-0.3, 1.3), rng.range(-0.3, 1.3), rng.range(-0.3, 1.3)],
            2 => {
                let g = rng.unit();
                [g + rng.range(-1e-4, 1e-4), g, g + rng.range(-1e-4, 1e-4)]
            }
            3 => [rng.unit() * 0.02, rng.unit() * 0.02, rng.unit() * 0.02],
            _ => [rng.unit(), rng.unit(), rng.unit()],
        };
        v.push(c);
    }
    v
}

trait Fl: Copy + 'static {
    const NAME: &'static str;
    const IS32: bool;
    fn f(x: f64) -> Self;
    fn d(self) -> f64;
}
impl Fl for f64 {
    const NAME: &'static str = "f64";
    const IS32: bool = false;
    fn f(x: f64) -> f64 {
        x
    }
    fn d(self) -> f64 {
        self
    }
}
impl Fl for f32 {
    const NAME: &'static str = "f32";
    const IS32: bool = true;
    fn f(x: f64) -> f32 {
        x as f32
    }
    fn d(self) -> f64 {
        self as f64
    }
}

fn cam_arr<T: Fl>(c: &Cam16<T>) -> [f64; 6] {
    [c.lightness.d(), c.chroma.d(), c.hue.into_inner().d(), c.brightness.d(), c.colorfulness.d(), c.saturation.d()]
}
fn model_arr(c: &model::Cam) -> [f64; 6] {
    [c.j, c.c, c.h, c.q, c.m, c.s]
}
fn hue_diff_rad(a: f64, b: f64) -> f64 {
    let mut d = (a - b) % 360.0;
    if d > 180.0 {
        d -= 360.0;
    }
    if d < -180.0 {
        d += 360.0;
    }
    d.to_radians().abs()
}

/// per-case observation shared between the f64 and f32 runs
struct CaseOut {
    cam64: Option<[f64; 6]>,
    cam32: Option<[f64; 6]>,
}

macro_rules! case_fn {
    ($fname:ident, $T:ty, $P:ty, $W:ty, $mkparams:expr) => {
        #[allow(clippy::too_many_arguments)]
        fn $fname(m: &mut Monitor, u: &mut Monitor, inst: &str, cond: &Cond, white: V3, xyz: V3, out: &mut CaseOut) {
            type T = $T;
            let is32 = <T as Fl>::IS32;
            let x: V3 = [T::f(xyz[0]).d(), T::f(xyz[1]).d(), T::f(xyz[2]).d()];
            let vc = cond.vc(white);
            let mut p: Parameters<$P, T> = $mkparams(white, T::f(cond.la));
            p.background_luminance = T::f(cond.yb);
            p.surround = match cond.surround_kind {
                0 => Surround::Dark,
                1 => Surround::Dim,
                2 => Surround::Average,
                _ => Surround::Percent(T::f(cond.surround_pct)),
            };
            p.discounting = match cond.discount {
                None => Discounting::Auto,
                Some(d) => Discounting::Custom(T::f(d)),
            };
            let inp = || json!({"xyz": fvec(&x), "white": fvec(&white), "conditions": cond.json()});
            let (want, big_a, denom) = model::forward_diag(x, &vc);
            let black = x == [0.0, 0.0, 0.0];
            // the model is defined for a positive achromatic response and a positive denominator of t only
            if !black && (!(big_a > 1e-9) || !(denom > 1e-6) || !model_arr(&want).iter().all(|v| v.is_finite())) {
                m.count("skipped:outside_definition_of_cam16");
                return;
            }
            let baked: BakedParameters<$P, T> = p.bake();
            let xin = Xyz::<$W, T>::new(T::f(x[0]), T::f(x[1]), T::f(x[2]));
            let full: Cam16<T> = Cam16::from_xyz(xin, baked);
            let via_convert: Cam16<T> = baked.convert(xin);
            let via_params: Cam16<T> = Cam16::from_xyz(xin, p);
            let got = cam_arr(&full);
            m.evals(3);
            if cam_arr(&via_convert).map(f64::to_bits) != got.map(f64::to_bits) || cam_arr(&via_params).map(f64::to_bits) != got.map(f64::to_bits) {
                m.violate(inst, "baked_convert_or_unbaked_parameters_differ_from_from_xyz", inp(), fvec(&cam_arr(&via_convert)), fvec(&got), "");
            }
            if !got.iter().all(|v| v.is_finite()) {
                m.violate(inst, "forward_not_finite", inp(), fvec(&got), fvec(&model_arr(&want)), "");
                return;
            }
            let scale = 1.0f64.max(x[0]).max(x[1]).max(x[2]);
            // ---- black
            if black {
                let back = full.into_xyz(baked);
                if got.iter().enumerate().any(|(k, v)| k != 2 && *v != 0.0) || [back.x.d(), back.y.d(), back.z.d()] != [0.0, 0.0, 0.0] {
                    m.violate(inst, "black_not_black", inp(), json!({"cam16": fvec(&got), "back": [back.x.d(), back.y.d(), back.z.d()]}), json!("all attributes 0 and XYZ (0,0,0)"), "");
                }
            }
            // ---- forward model (f64 against the published equations; f32 by backward error, below)
            if !is32 && !black {
                let w = model_arr(&want);
                let tol = |v: f64| 1e-7 * (1.0 + v.abs());
                // s = 50 sqrt(c alpha / (A_w + 4)) turns the rounding residue of a neutral's alpha (~1e-15) into ~1e-6: judged as s^2
                let lin_bad = [0usize, 1, 3, 4].iter().any(|&k| !((got[k] - w[k]).abs() <= tol(w[k]))) || !((got[5] * got[5] - w[5] * w[5]).abs() <= tol(w[5] * w[5]));
                let hue_bad = !(hue_diff_rad(got[2], w[2]) * w[4] <= tol(w[4]));
                if lin_bad || hue_bad {
                    m.violate(inst, "forward_differs_from_published_equations", inp(), fvec(&got), fvec(&w), "J, C, h, Q, M, s");
                }
                let d = [0usize, 1, 3, 4].iter().map(|&k| (got[k] - w[k]).abs() / (1.0 + w[k].abs())).fold(0.0, f64::max);
                m.dev(d, || json!({"xyz": fvec(&x), "conditions": cond.json(), "palette": fvec(&got), "model": fvec(&w)}));
                out.cam64 = Some(got);
            } else if !is32 {
                out.cam64 = Some(got);
            }
            // ---- round trip through the full type and every partial
            let tol_rt = if is32 { 1e-3 * scale } else { 1e-9 * scale };
            let tol_attr = |v: f64| if is32 { 2e-3 * (1.0 + v.abs()) } else { 1e-9 * (1.0 + v.abs()) };
            let back = full.into_xyz(baked);
            let b = [back.x.d(), back.y.d(), back.z.d()];
            m.eval();
            let rt_dev = (0..3).map(|k| (b[k] - x[k]).abs()).fold(0.0, f64::max);
            m.counter_max(if is32 { "max:round_trip_dev_f32_e9" } else { "max:round_trip_dev_f64_e15" }, (rt_dev / scale * if is32 { 1e9 } else { 1e15 }) as u64);
            if !(rt_dev <= tol_rt) {
                m.violate(inst, "round_trip_through_full_cam16", inp(), fvec(&b), fvec(&x), "");
            }
            macro_rules! partial {
                ($Pt:ident, $name:expr, $lum:ident, $chr:ident, $li:expr, $ci:expr) => {{
                    let part: $Pt<T> = $Pt::from_xyz(xin, baked);
                    let from_full = $Pt::from_full(full);
                    let by_from: $Pt<T> = full.into();
                    let by_conv = $Pt::<T>::from_color_unclamped(full);
                    m.evals(4);
                    let pa = [part.$lum.d(), part.$chr.d(), part.hue.into_inner().d()];
                    let same = |q: &$Pt<T>| [q.$lum.d(), q.$chr.d(), q.hue.into_inner().d()].map(f64::to_bits) == pa.map(f64::to_bits);
                    if pa.map(f64::to_bits) != [got[$li], got[$ci], got[2]].map(f64::to_bits) || !same(&from_full) || !same(&by_from) || !same(&by_conv) {
                        m.violate(inst, concat!($name, ":partial_differs_from_attributes_of_full"), inp(), fvec(&pa), fvec(&[got[$li], got[$ci], got[2]]), "");
                    }
                    let expanded: Cam16<T> = part.into_full(baked);
                    let e = cam_arr(&expanded);
                    if !(0..6).all(|k| if k == 2 { e[2].to_bits() == got[2].to_bits() } else { (e[k] - got[k]).abs() <= tol_attr(got[k]) }) {
                        m.violate(inst, concat!($name, ":partial_does_not_expand_back_to_full"), inp(), fvec(&e), fvec(&got), "");
                    }
                    let bx = part.into_xyz(baked);
                    let bb = [bx.x.d(), bx.y.d(), bx.z.d()];
                    if !(0..3).all(|k| (bb[k] - x[k]).abs() <= tol_rt) {
                        m.violate(inst, concat!($name, ":round_trip_through_partial"), inp(), fvec(&bb), fvec(&x), "");
                    }
                    if black && bb != [0.0, 0.0, 0.0] {
                        m.violate(inst, concat!($name, ":black_partial_not_black"), inp(), fvec(&bb), json!([0.0, 0.0, 0.0]), "");
                    }
                }};
            }
            partial!(Cam16Jch, "Jch", lightness, chroma, 0, 1);
            partial!(Cam16Jmh, "Jmh", lightness, colorfulness, 0, 4);
            partial!(Cam16Jsh, "Jsh", lightness, saturation, 0, 5);
            partial!(Cam16Qch, "Qch", brightness, chroma, 3, 1);
            partial!(Cam16Qmh, "Qmh", brightness, colorfulness, 3, 4);
            partial!(Cam16Qsh, "Qsh", brightness, saturation, 3, 5);
            // ---- f32 against f64 by backward error: the f32 correlates, read as f64, must invert (with f64 code that the f64 run
            // has just checked against this very input) to the same XYZ at single precision
            if is32 {
                out.cam32 = Some(got);
            }
            // ---- CAM16-UCS
            {
                let jmh = Cam16UcsJmh::<T>::from_color_unclamped(full);
                let jab = Cam16UcsJab::<T>::from_color_unclamped(full);
                let jmh_p = Cam16UcsJmh::<T>::from_color_unclamped(Cam16Jmh::from_full(full));
                let jab2 = Cam16UcsJab::<T>::from_color_unclamped(jmh);
                let jmh2 = Cam16UcsJmh::<T>::from_color_unclamped(jab);
                let back_jmh = Cam16Jmh::<T>::from_color_unclamped(jmh);
                u.evals(6);
                let (j, mm, h) = (got[0], got[4], got[2]);
                let want_j = 1.7 * j / (1.0 + 0.007 * j);
                let want_m = (1.0 + 0.0228 * mm).ln() / 0.0228;
                let rel = if is32 { 4e-6 } else { 1e-13 };
                let t = |v: f64| rel * (1.0 + v.abs());
                let gj = [jmh.lightness.d(), jmh.colorfulness.d(), jmh.hue.into_inner().d()];
                if !((gj[0] - want_j).abs() <= t(want_j)) || !((gj[1] - want_m).abs() <= t(want_m)) || gj[2].to_bits() != h.to_bits() {
                    u.violate(inst, "ucs_jmh_differs_from_formula", inp(), fvec(&gj), fvec(&[want_j, want_m, h]), "J' = 1.7J/(1+0.007J), M' = ln(1+0.0228M)/0.0228");
                }
                if [jmh_p.lightness.d(), jmh_p.colorfulness.d(), jmh_p.hue.into_inner().d()].map(f64::to_bits) != gj.map(f64::to_bits) {
                    u.violate(inst, "ucs_jmh_from_partial_differs_from_full", inp(), json!(null), fvec(&gj), "");
                }
                let ga = [jab.lightness.d(), jab.a.d(), jab.b.d()];
                let (wa, wb) = (want_m * h.to_radians().cos(), want_m * h.to_radians().sin());
                let th = if is32 { 4e-6 * (1.0 + want_m) } else { 1e-12 * (1.0 + want_m) };
                if !((ga[0] - want_j).abs() <= t(want_j)) || !((ga[1] - wa).abs() <= th) || !((ga[2] - wb).abs() <= th) {
                    u.violate(inst, "ucs_jab_differs_from_formula", inp(), fvec(&ga), fvec(&[want_j, wa, wb]), "");
                }
                if [jab2.lightness.d(), jab2.a.d(), jab2.b.d()].map(f64::to_bits) != ga.map(f64::to_bits) {
                    u.violate(inst, "ucs_jab_via_jmh_differs_from_direct", inp(), fvec(&[jab2.lightness.d(), jab2.a.d(), jab2.b.d()]), fvec(&ga), "");
                }
                // polar <-> rectangular without loss
                let g2 = [jmh2.lightness.d(), jmh2.colorfulness.d(), jmh2.hue.into_inner().d()];
                if g2[0].to_bits() != gj[0].to_bits() || !((g2[1] - gj[1]).abs() <= th) || !(hue_diff_rad(g2[2], gj[2]) * gj[1] <= th) {
                    u.violate(inst, "ucs_jab_to_jmh_not_lossless", inp(), fvec(&g2), fvec(&gj), "");
                }
                // UCS -> J, M, h without loss
                let bj = [back_jmh.lightness.d(), back_jmh.colorfulness.d(), back_jmh.hue.into_inner().d()];
                let tb = |v: f64| if is32 { 2e-5 * (1.0 + v.abs()) } else { 1e-12 * (1.0 + v.abs()) };
                if !((bj[0] - j).abs() <= tb(j)) || !((bj[1] - mm).abs() <= tb(mm) * (1.0 + 0.0228 * mm)) || bj[2].to_bits() != h.to_bits() {
                    u.violate(inst, "ucs_to_jmh_not_lossless", inp(), fvec(&bj), fvec(&[j, mm, h]), "");
                }
            }
        }
    };
}

fn mk_static<W, T>(_white: V3, la: T) -> Parameters<StaticWp<W>, T>
where
    T: palette::num::Real,
{
    Parameters::default_static_wp(la)
}
fn mk_dynamic<T: Fl + palette::num::Real>(white: V3, la: T) -> Parameters<Xyz<wp::Any, T>, T> {
    Parameters::default_dynamic_wp(Xyz::new(T::f(white[0]), T::f(white[1]), T::f(white[2])), la)
}

case_fn!(case_d65_f64, f64, StaticWp<wp::D65>, wp::D65, mk_static::<wp::D65, f64>);
case_fn!(case_d65_f32, f32, StaticWp<wp::D65>, wp::D65, mk_static::<wp::D65, f32>);
case_fn!(case_d50_f64, f64, StaticWp<wp::D50>, wp::D50, mk_static::<wp::D50, f64>);
case_fn!(case_d50_f32, f32, StaticWp<wp::D50>, wp::D50, mk_static::<wp::D50, f32>);
case_fn!(case_dyn_f64, f64, Xyz<wp::Any, f64>, wp::Any, mk_dynamic::<f64>);
case_fn!(case_dyn_f32, f32, Xyz<wp::Any, f32>, wp::Any, mk_dynamic::<f32>);

/// f32 correlates, read as f64, inverted by the (checked) f64 inverse
fn backward_error(kind: usize, cond: &Cond, white: V3, cam32: [f64; 6]) -> V3 {
    macro_rules! inv {
        ($P:ty, $W:ty, $mk:expr) => {{
            let mut p: Parameters<$P, f64> = $mk(white, cond.la as f32 as f64);
            p.background_luminance = cond.yb as f32 as f64;
            p.surround = match cond.surround_kind {
                0 => Surround::Dark,
                1 => Surround::Dim,
                2 => Surround::Average,
                _ => Surround::Percent(cond.surround_pct as f32 as f64),
            };
            p.discounting = match cond.discount {
                None => Discounting::Auto,
                Some(d) => Discounting::Custom(d as f32 as f64),
            };
            let x: Xyz<$W, f64> = Cam16Jmh::new(cam32[0], cam32[4], cam32[2]).into_xyz(p.bake());
            [x.x, x.y, x.z]
        }};
    }
    match kind {
        0 => inv!(StaticWp<wp::D65>, wp::D65, mk_static::<wp::D65, f64>),
        1 => inv!(StaticWp<wp::D50>, wp::D50, mk_static::<wp::D50, f64>),
        _ => inv!(Xyz<wp::Any, f64>, wp::Any, mk_dynamic::<f64>),
    }
}

fn one_case(m: &mut Monitor, u: &mut Monitor, kind: usize, cond: &Cond, white: V3, xyz: V3) {
    let mut out = CaseOut { cam64: None, cam32: None };
    let wname = ["D65", "D50", "dynamic"][kind];
    let (i64n, i32n) = (format!("{}/f64", wname), format!("{}/f32", wname));
    // f32: same case on the f32-rounded inputs
    let x32: V3 = [xyz[0] as f32 as f64, xyz[1] as f32 as f64, xyz[2] as f32 as f64];
    let w32: V3 = [white[0] as f32 as f64, white[1] as f32 as f64, white[2] as f32 as f64];
    match kind {
        0 => {
            case_d65_f64(m, u, &i64n, cond, white, xyz, &mut out);
            case_d65_f32(m, u, &i32n, cond, white, x32, &mut out);
        }
        1 => {
            case_d50_f64(m, u, &i64n, cond, white, xyz, &mut out);
            case_d50_f32(m, u, &i32n, cond, white, x32, &mut out);
        }
        _ => {
            case_dyn_f64(m, u, &i64n, cond, white, xyz, &mut out);
            case_dyn_f32(m, u, &i32n, cond, w32, x32, &mut out);
        }
    }
    if let Some(c32) = out.cam32 {
        let wh = if kind == 2 { w32 } else { white };
        let b = backward_error(kind, cond, wh, c32);
        let scale = 1.0f64.max(x32[0]).max(x32[1]).max(x32[2]);
        m.eval();
        let dev = (0..3).map(|k| (b[k] - x32[k]).abs()).fold(0.0, f64::max) / scale;
        m.counter_max("max:f32_backward_error_e9", (dev * 1e9) as u64);
        if !(dev <= 1e-3) {
            m.violate(&i32n, "f32_correlates_do_not_describe_the_same_colour_as_f64", json!({"xyz": fvec(&x32), "white": fvec(&wh), "conditions": cond.json()}), json!({"cam16_f32": fvec(&c32), "inverted_by_f64": fvec(&b)}), fvec(&x32), "");
        }
    }
}

fn run(ctx: &Ctx, report: &mut Report) {
    let names = ["cam16_model_and_round_trips", "cam16_ucs"];
    if !ctx.enabled(names[0]) && !ctx.enabled(names[1]) {
        return;
    }
    let rule0 = "every (viewing conditions, white point kind, XYZ colour) case: Cam16::from_xyz equals the published CAM16 equations (independent f64 model, Li et al. 2017) in all six correlates; BakedParameters::convert and un-baked Parameters give bit-identical results; XYZ -> Cam16 -> XYZ and XYZ -> each of Jch/Jmh/Jsh/Qch/Qmh/Qsh -> XYZ return the input; each partial equals the attributes of the full colour bit for bit (from_xyz, from_full, From, FromColorUnclamped) and expands back to it; black maps to all-zero correlates and back to (0,0,0); f32 results, read as f64 and inverted by the f64 inverse, land on the same XYZ at single precision; cases where the model itself is undefined (non-positive achromatic response or t denominator, far outside the gamut) are counted and skipped; distinct = (white kind, float, surround kind, discounting kind, luminance decade, colour class)";
    let rule1 = "for every case: Cam16UcsJmh / Cam16UcsJab from the full colour and from Cam16Jmh equal J' = 1.7J/(1+0.007J), M' = ln(1+0.0228M)/0.0228 (a', b' = M' cos h, M' sin h); rectangular <-> polar and UCS -> (J, M, h) return the starting values; distinct as above";
    let nconds = ctx.n(120, 40_000);
    let ncols = ctx.n(250, 1500);
    if let Some(r) = ctx.replay.as_ref() {
        let mut m = Monitor::new(names[0], rule0);
        let mut u = Monitor::new(names[1], rule1);
        let kind = if r.inst.starts_with("D65") { 0 } else if r.inst.starts_with("D50") { 1 } else { 2 };
        let v = |k: &str| -> V3 {
            let a: Vec<f64> = r.input[k].as_array().unwrap().iter().map(|x| x.as_f64().unwrap_or(f64::NAN)).collect();
            [a[0], a[1], a[2]]
        };
        one_case(&mut m, &mut u, kind, &Cond::from_json(&r.input["conditions"]), v("white"), v("xyz"));
        report.add(m);
        report.add(u);
        return;
    }
    let shards = ctx.threads.max(1);
    let mons = par(shards, |sh| {
        let mut m = Monitor::new(names[0], rule0);
        let mut u = Monitor::new(names[1], rule1);
        let mut rng = ctx.rng("c16", 0);
        let conds = conditions(&mut rng, nconds);
        let rgb = rgb_points(&mut rng, ncols);
        let srgb = RgbSpaceM { prim: Prim::Srgb, wp: Wp::D65 }.rgb_to_xyz();
        let pro = RgbSpaceM { prim: Prim::ProPhoto, wp: Wp::D50 }.rgb_to_xyz();
        let mut wrng = ctx.rng("c16w", sh as u64);
        for (ci, cond) in conds.iter().enumerate() {
            if ci % shards != sh {
                continue;
            }
            for kind in 0..3usize {
                let white = match kind {
                    0 => Wp::D65.xyz(),
                    1 => Wp::D50.xyz(),
                    _ => [wrng.range(0.8, 1.2), if wrng.chance(0.5) { 1.0 } else { wrng.range(0.8, 1.2) }, wrng.range(0.35, 1.4)],
                };
                for (k, c) in rgb.iter().enumerate() {
                    // the two lattices for every condition, a rotating part of the seeded colours
                    if k >= 350 && (k + ci) % (if ctx.quick() { 8 } else { 4 }) != 0 {
                        continue;
                    }
                    let xyz = match kind {
                        1 => mat_vec(&pro, *c),
                        2 => {
                            let x = mat_vec(&srgb, *c);
                            let w = Wp::D65.xyz();
                            [x[0] * white[0] / w[0], x[1] * white[1], x[2] * white[2] / w[2]]
                        }
                        _ => mat_vec(&srgb, *c),
                    };
                    let class = if *c == [0.0, 0.0, 0.0] { 0 } else if c.iter().any(|v| *v < 0.0 || *v > 1.0) { 1 } else if c[0] == c[1] && c[1] == c[2] { 2 } else if c.iter().all(|v| *v < 0.03) { 3 } else { 4 };
                    let cell = format!("{}{}{}{}{}", kind, cond.surround_kind, cond.discount.map(|d| if d <= 0.0 { 1 } else if d >= 1.0 { 2 } else { 3 }).unwrap_or(0), cond.la.log10().floor() as i64, class);
                    one_case(&mut m, &mut u, kind, cond, white, xyz);
                    m.cell_s(&cell);
                    u.cell_s(&cell);
                }
            }
        }
        vec![m, u]
    });
    for mut m in mons {
        m.sample(|| {
            let p: Parameters<StaticWp<wp::D65>, f64> = Parameters::default_static_wp(40.0);
            let x = Xyz::<wp::D65, f64>::new(0.1901, 0.2, 0.2178);
            let c = Cam16::from_xyz(x, p);
            let back = c.into_xyz(p);
            let vc = Vc { white: Wp::D65.xyz(), la: 40.0, yb: 0.2, surround: 20.0, discount: None };
            let w = model::forward([0.1901, 0.2, 0.2178], &vc);
            json!({"xyz": [0.1901, 0.2, 0.2178], "palette J C h Q M s": fvec(&cam_arr(&c)), "model": fvec(&model_arr(&w)), "back": [back.x, back.y, back.z]})
        });
        if m.name == names[0] {
            m.tolerance = Some("forward vs model 1e-7 (1+|v|) (f64); round trips 1e-9 x scale (f64), 1e-3 x scale (f32; largest observed 7e-5); partial -> full 1e-9 / 2e-3 relative; UCS 1e-13 / 4e-6 relative".into());
        }
        report.add(m);
    }
}

fn main() {
    let ctx = Ctx::from_args("C16");
    let mut report = Report::new(&ctx);
    run(&ctx, &mut report);
    report.finish();
}
