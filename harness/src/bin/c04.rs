//! C04 — zero-copy casts are lossless, length-exact and layout-sound.
//!
//! Oracles: (a) address / length / capacity arithmetic observed before and after each cast,
//! (b) a hand-typed table of declared field orders, checked through *named field access* with a
//! distinct sentinel in every component, (c) Miri / ASan / std ub_checks executing the same driver.

#![allow(clippy::all)]
use core::marker::PhantomData;
use palette::cast::{self, *};
use palette::hues::*;
use palette::*;
use pvmon::report::{Ctx, Monitor, Report};
use pvmon::{json, Value};
use std::panic::{catch_unwind, AssertUnwindSafe};

trait Comp: Copy + PartialEq + core::fmt::Debug + Send + Sync + 'static {
    fn sent(i: usize) -> Self;
    fn key(self) -> u128;
}
macro_rules! comp_int {
    ($($t:ty),*) => {$(impl Comp for $t {
        fn sent(i: usize) -> Self { (((i as u128 * 37 + 11) % 251) as $t).wrapping_add(((i / 251) as $t).wrapping_mul(251 % <$t>::MAX)) }
        fn key(self) -> u128 { self as u128 }
    })*};
}
comp_int!(u8, u16, u32, u64, u128);
impl Comp for f32 {
    fn sent(i: usize) -> Self {
        i as f32 * 0.5 + 0.25
    }
    fn key(self) -> u128 {
        self.to_bits() as u128
    }
}
impl Comp for f64 {
    fn sent(i: usize) -> Self {
        i as f64 * 0.5 + 0.25
    }
    fn key(self) -> u128 {
        self.to_bits() as u128
    }
}

fn keys<C: Comp>(xs: &[C]) -> Vec<u128> {
    xs.iter().map(|x| x.key()).collect()
}
fn same<C: Comp>(a: &[C], b: &[C]) -> bool {
    a.len() == b.len() && a.iter().zip(b).all(|(x, y)| x.key() == y.key())
}
fn addr<T: ?Sized>(p: &T) -> usize {
    p as *const T as *const u8 as usize
}

static COVERED: std::sync::Mutex<Vec<String>> = std::sync::Mutex::new(Vec::new());

/// Type selection: under Miri in the quick tier one type per (family, component type) is run
/// (a stratified subset that still covers every (api, type-family) cell); shards split the rest.
fn selected(ctx: &Ctx, tyname: &str, family: &str, comp: &str) -> bool {
    if ctx.replaying() {
        return ctx.replay_input("casts", tyname).is_some();
    }
    if ctx.is_miri() && ctx.quick() {
        let key = format!("{}/{}", family, comp);
        let mut c = COVERED.lock().unwrap();
        if c.contains(&key) {
            return false;
        }
        c.push(key);
    }
    ctx.nshards <= 1 || pvmon::rng::hash_str(tyname) % ctx.nshards == ctx.shard
}

struct Obs<'a> {
    m: &'a mut Monitor,
    ty: &'static str,
    family: &'static str,
    lean: bool,
    seen: Vec<u64>,
}
impl<'a> Obs<'a> {
    #[inline(never)]
    fn ok(&mut self, cond: bool, api: &str, class: &str, detail: impl FnOnce() -> Value) {
        self.m.eval();
        if self.lean {
            // Miri / sanitizer runs: keep the monitor's own bookkeeping cheap
            let h = pvmon::rng::hash_str(api) ^ pvmon::rng::hash_str(self.family).rotate_left(7);
            if !self.seen.contains(&h) {
                self.seen.push(h);
                self.m.cell(h);
            }
            if !cond {
                self.m.violate(self.ty, &format!("{}:{}", api, class), json!({"api": api, "detail": detail()}), json!("observed mismatch"), json!(class), "");
            }
            return;
        }
        let detail = detail();
        self.m.cell_s(&format!("{}|{}|{}", self.family, api, detail.get("cell").map(|c| c.to_string()).unwrap_or_default()));
        self.m.count(&format!("api:{}", api));
        if !cond {
            self.m.violate(self.ty, &format!("{}:{}", api, class), json!({"api": api, "detail": detail}), json!("observed mismatch"), json!(class), "");
        }
    }
}

#[inline(never)]
fn suite<T, C, const N: usize>(mon: &mut Monitor, ctx: &Ctx, tyname: &'static str, family: &'static str, ctor: fn([C; N]) -> T, fields: fn(&T) -> [C; N])
where
    C: Comp,
    T: ArrayCast<Array = [C; N]> + Clone + 'static,
    T: Into<[C; N]> + From<[C; N]> + AsRef<[C; N]> + AsRef<[C]> + AsMut<[C; N]> + AsMut<[C]>,
    [C; N]: AsRef<T> + AsMut<T>,
    for<'a> &'a [C; N]: From<&'a T>,
    for<'a> &'a T: From<&'a [C; N]>,
    for<'a> &'a [C]: From<&'a T>,
    for<'a> &'a mut [C; N]: From<&'a mut T>,
    for<'a> &'a mut T: From<&'a mut [C; N]>,
    for<'a> &'a mut [C]: From<&'a mut T>,
    for<'a> &'a T: TryFrom<&'a [C]>,
    for<'a> &'a mut T: TryFrom<&'a mut [C]>,
    Box<[C; N]>: From<Box<T>>,
    Box<T>: From<Box<[C; N]>>,
{
    {
            let mk = |e: usize| -> [C; N] { core::array::from_fn(|j| <C as Comp>::sent(e * N + j)) };
            let flat = |n: usize| -> Vec<C> { (0..n).map(|i| <C as Comp>::sent(i)).collect() };
            let colors = |n: usize| -> Vec<T> { (0..n).map(|e| ctor(mk(e))).collect() };
            let mut o = Obs { m: mon, ty: tyname, family, lean: ctx.mode != "native" && ctx.mode != "native-dev", seen: Vec::new() };
            assert_eq!(core::mem::size_of::<T>(), core::mem::size_of::<[C; N]>());
            o.m.count("types");
            if !o.lean { o.m.sample(|| json!({"type": tyname, "components": N, "sentinels": keys(&mk(1)), "fields_of_from_array": keys(&fields(&cast::from_array::<T>(mk(1))))})); }

            // ---- 1. by value, references, std conversion traits -------------------------------
            {
                let a = mk(3);
                let t = ctor(a);
                o.ok(same(&cast::into_array(t.clone()), &a), "into_array", "field_order", || json!({"want": keys(&a), "got": keys(&cast::into_array(t.clone()))}));
                let t2: T = cast::from_array(a);
                o.ok(same(&fields(&t2), &a), "from_array", "field_order", || json!({"want": keys(&a), "got": keys(&fields(&t2))}));
                let arr: [C; N] = t.clone().into();
                o.ok(same(&arr, &a), "From<T> for [C;N]", "field_order", || json!({}));
                let t3: T = a.into();
                o.ok(same(&fields(&t3), &a), "From<[C;N]> for T", "field_order", || json!({}));
                let r: &[C; N] = cast::into_array_ref(&t);
                o.ok(addr(r) == addr(&t) && same(r, &a), "into_array_ref", "same_memory", || json!({}));
                let r: &T = cast::from_array_ref(&a);
                o.ok(addr(r) == addr(&a) && same(&fields(r), &a), "from_array_ref", "same_memory", || json!({}));
                let r: &[C; N] = t.as_ref();
                o.ok(addr(r) == addr(&t), "AsRef<[C;N]>", "same_memory", || json!({}));
                let r: &[C] = t.as_ref();
                o.ok(addr(r) == addr(&t) && r.len() == N && same(r, &a), "AsRef<[C]>", "same_memory_len", || json!({}));
                let r: &T = a.as_ref();
                o.ok(addr(r) == addr(&a), "AsRef<T> for [C;N]", "same_memory", || json!({}));
                let r: &[C; N] = (&t).into();
                o.ok(addr(r) == addr(&t), "From<&T> for &[C;N]", "same_memory", || json!({}));
                let r: &T = (&a).into();
                o.ok(addr(r) == addr(&a), "From<&[C;N]> for &T", "same_memory", || json!({}));
                let r: &[C] = (&t).into();
                o.ok(addr(r) == addr(&t) && r.len() == N, "From<&T> for &[C]", "same_memory_len", || json!({}));
                // mutable views: writes through the view land in the named field
                let mut tm = ctor(a);
                let p = addr(&tm);
                {
                    let r: &mut [C; N] = cast::into_array_mut(&mut tm);
                    let same_mem = addr(r) == p;
                    r[N - 1] = <C as Comp>::sent(200);
                    r[0] = <C as Comp>::sent(201);
                    o.ok(same_mem, "into_array_mut", "same_memory", || json!({}));
                }
                let f = fields(&tm);
                o.ok((N == 1 || f[N - 1].key() == <C as Comp>::sent(200).key()) && f[0].key() == <C as Comp>::sent(201).key(), "into_array_mut", "write_through", || json!({"got": keys(&f)}));
                let mut am = mk(4);
                let p = addr(&am);
                {
                    let r: &mut T = cast::from_array_mut(&mut am);
                    o.ok(addr(r) == p, "from_array_mut", "same_memory", || json!({}));
                    *r = ctor(mk(5));
                }
                o.ok(same(&am, &mk(5)), "from_array_mut", "write_through", || json!({}));
                {
                    let r: &mut [C; N] = tm.as_mut();
                    o.ok(addr(r) == addr(&*r), "AsMut<[C;N]>", "same_memory", || json!({}));
                    let r: &mut [C] = tm.as_mut();
                    o.ok(r.len() == N, "AsMut<[C]>", "len", || json!({}));
                    let r: &mut T = am.as_mut();
                    let _ = r;
                    let r: &mut [C; N] = (&mut tm).into();
                    let _ = r;
                    let r: &mut T = (&mut am).into();
                    let _ = r;
                    let r: &mut [C] = (&mut tm).into();
                    o.ok(r.len() == N, "From<&mut T> for &mut [C]", "len", || json!({}));
                }
                // TryFrom<&[C]> for &T : exactly N
                for l in 0..=2 * N + 1 {
                    let buf = flat(l);
                    let r: Result<&T, _> = <&T>::try_from(&buf[..]);
                    o.ok(r.is_ok() == (l == N) && r.map_or(true, |x| addr(x) == addr(&buf[..]) && same(&fields(x), &buf)), "TryFrom<&[C]> for &T", "accept_iff_len_eq_n", || json!({"cell": l % N, "len": l}));
                    let mut buf2 = flat(l);
                    let p = buf2.as_ptr() as usize;
                    let r: Result<&mut T, _> = <&mut T>::try_from(&mut buf2[..]);
                    o.ok(r.is_ok() == (l == N) && r.map_or(true, |x| addr(x) == p), "TryFrom<&mut [C]> for &mut T", "accept_iff_len_eq_n", || json!({"cell": l % N, "len": l}));
                }
                // Box<T> <-> Box<[C;N]>
                let b = Box::new(ctor(a));
                let p = addr(&*b);
                let ba: Box<[C; N]> = cast::into_array_box(b);
                o.ok(addr(&*ba) == p && same(&*ba, &a), "into_array_box", "same_memory", || json!({}));
                let bt: Box<T> = cast::from_array_box(ba);
                o.ok(addr(&*bt) == p && same(&fields(&bt), &a), "from_array_box", "same_memory", || json!({}));
                let ba: Box<[C; N]> = bt.into();
                o.ok(addr(&*ba) == p, "From<Box<T>> for Box<[C;N]>", "same_memory", || json!({}));
                let bt: Box<T> = ba.into();
                o.ok(addr(&*bt) == p, "From<Box<[C;N]>> for Box<T>", "same_memory", || json!({}));
            }
            // ---- 3. slices ---------------------------------------------------------------------
            let maxc = if ctx.is_miri() && ctx.quick() { 1 } else if ctx.is_miri() { 2 } else { 4 };
            for nc in 0..=maxc {
                let mut ts = colors(nc);
                let p = ts.as_ptr() as usize;
                let want = flat(nc * N);
                let r = cast::into_array_slice(&ts[..]);
                o.ok(r.as_ptr() as usize == p && r.len() == nc, "into_array_slice", "same_memory_len", || json!({"cell": nc}));
                let r = cast::into_component_slice(&ts[..]);
                o.ok(r.as_ptr() as usize == p && r.len() == nc * N && same(r, &want), "into_component_slice", "same_memory_len_order", || json!({"cell": nc}));
                let r: &[[C; N]] = ts[..].as_arrays();
                o.ok(r.as_ptr() as usize == p && r.len() == nc, "AsArrays for [T]", "same_memory_len", || json!({"cell": nc}));
                let r: &[C] = ts[..].as_components();
                o.ok(r.as_ptr() as usize == p && r.len() == nc * N, "AsComponents for [T]", "same_memory_len", || json!({"cell": nc}));
                let r: &[C] = ts.as_components();
                o.ok(r.as_ptr() as usize == p && r.len() == nc * N, "AsComponents for Vec<T>", "same_memory_len", || json!({"cell": nc}));
                let r: &[[C; N]] = (&ts[..]).into_arrays();
                o.ok(r.as_ptr() as usize == p && r.len() == nc, "IntoArrays for &[T]", "same_memory_len", || json!({"cell": nc}));
                let r: &[C] = (&ts[..]).into_components();
                o.ok(r.as_ptr() as usize == p && r.len() == nc * N, "IntoComponents for &[T]", "same_memory_len", || json!({"cell": nc}));
                let r: &[[C; N]] = <&[[C; N]]>::arrays_from(&ts[..]);
                o.ok(r.as_ptr() as usize == p && r.len() == nc, "ArraysFrom<&[T]>", "same_memory_len", || json!({"cell": nc}));
                let r: &[C] = <&[C]>::components_from(&ts[..]);
                o.ok(r.as_ptr() as usize == p && r.len() == nc * N, "ComponentsFrom<&[T]>", "same_memory_len", || json!({"cell": nc}));
                {
                    let r = cast::into_array_slice_mut(&mut ts[..]);
                    o.ok(r.as_ptr() as usize == p && r.len() == nc, "into_array_slice_mut", "same_memory_len", || json!({"cell": nc}));
                    let r = cast::into_component_slice_mut(&mut ts[..]);
                    let okk = r.as_ptr() as usize == p && r.len() == nc * N;
                    if nc > 0 {
                        r[nc * N - 1] = <C as Comp>::sent(222);
                    }
                    o.ok(okk, "into_component_slice_mut", "same_memory_len", || json!({"cell": nc}));
                    let r: &mut [[C; N]] = ts[..].as_arrays_mut();
                    o.ok(r.len() == nc, "AsArraysMut for [T]", "len", || json!({"cell": nc}));
                    let r: &mut [C] = ts[..].as_components_mut();
                    o.ok(r.len() == nc * N, "AsComponentsMut for [T]", "len", || json!({"cell": nc}));
                    let r: &mut [[C; N]] = (&mut ts[..]).into_arrays();
                    o.ok(r.len() == nc, "IntoArrays for &mut [T]", "len", || json!({"cell": nc}));
                    let r: &mut [C] = (&mut ts[..]).into_components();
                    o.ok(r.len() == nc * N, "IntoComponents for &mut [T]", "len", || json!({"cell": nc}));
                }
                if nc > 0 {
                    o.ok(fields(&ts[nc - 1])[N - 1].key() == <C as Comp>::sent(222).key(), "into_component_slice_mut", "write_through", || json!({"cell": nc}));
                }
                // from arrays
                let mut arrs: Vec<[C; N]> = (0..nc).map(|e| mk(e)).collect();
                let p = arrs.as_ptr() as usize;
                let r: &[T] = cast::from_array_slice(&arrs[..]);
                o.ok(r.as_ptr() as usize == p && r.len() == nc && r.iter().enumerate().all(|(e, t)| same(&fields(t), &mk(e))), "from_array_slice", "same_memory_len_order", || json!({"cell": nc}));
                let r: &[T] = arrs[..].arrays_as();
                o.ok(r.as_ptr() as usize == p && r.len() == nc, "ArraysAs for [[C;N]]", "same_memory_len", || json!({"cell": nc}));
                let r: &[T] = <&[T]>::from_arrays(&arrs[..]);
                o.ok(r.as_ptr() as usize == p && r.len() == nc, "FromArrays<&[[C;N]]>", "same_memory_len", || json!({"cell": nc}));
                let r: &[T] = (&arrs[..]).arrays_into();
                o.ok(r.as_ptr() as usize == p && r.len() == nc, "ArraysInto<&[T]>", "same_memory_len", || json!({"cell": nc}));
                {
                    let r: &mut [T] = cast::from_array_slice_mut(&mut arrs[..]);
                    o.ok(r.as_ptr() as usize == p && r.len() == nc, "from_array_slice_mut", "same_memory_len", || json!({"cell": nc}));
                    let r: &mut [T] = arrs[..].arrays_as_mut();
                    o.ok(r.len() == nc, "ArraysAsMut for [[C;N]]", "len", || json!({"cell": nc}));
                    let r: &mut [T] = <&mut [T]>::from_arrays(&mut arrs[..]);
                    o.ok(r.len() == nc, "FromArrays<&mut [[C;N]]>", "len", || json!({"cell": nc}));
                }
            }
            // component slices of every length (all residues)
            let lens: Vec<usize> = if ctx.is_miri() && ctx.quick() { vec![0, 1, N, N + 1, 2 * N] } else if ctx.is_miri() { (0..=2 * N + 1).collect() } else { (0..=3 * N + 2).collect() };
            let extras: Vec<usize> = if ctx.is_miri() && ctx.quick() { vec![0, 1, N] } else { (0..=N + 1).collect() };
            for l in lens {
                let mut buf = flat(l);
                let p = buf.as_ptr() as usize;
                let good = l % N == 0;
                let cell = || json!({"cell": l % N, "len": l});
                let r = cast::try_from_component_slice::<T>(&buf[..]);
                o.ok(r.is_ok() == good && r.map_or(true, |s| s.as_ptr() as usize == p && s.len() == l / N && s.iter().enumerate().all(|(e, t)| same(&fields(t), &mk(e)))), "try_from_component_slice", "accept_iff_multiple", &cell);
                let r: Result<&[T], _> = buf[..].try_components_as();
                o.ok(r.is_ok() == good && r.map_or(true, |s| s.as_ptr() as usize == p && s.len() == l / N), "TryComponentsAs for [C]", "accept_iff_multiple", &cell);
                let r: Result<&[T], _> = <&[T]>::try_from_components(&buf[..]);
                o.ok(r.is_ok() == good && r.map_or(true, |s| s.as_ptr() as usize == p && s.len() == l / N), "TryFromComponents<&[C]>", "accept_iff_multiple", &cell);
                let r: Result<&[T], _> = (&buf[..]).try_components_into();
                o.ok(r.is_ok() == good, "TryComponentsInto<&[T]>", "accept_iff_multiple", &cell);
                let r: Result<&[T], _> = (&buf).try_components_into();
                o.ok(r.is_ok() == good, "TryComponentsInto<&[T]> for &Vec<C>", "accept_iff_multiple", &cell);
                {
                    let r = cast::try_from_component_slice_mut::<T>(&mut buf[..]);
                    o.ok(r.is_ok() == good && r.map_or(true, |s| s.as_ptr() as usize == p && s.len() == l / N), "try_from_component_slice_mut", "accept_iff_multiple", &cell);
                    let r: Result<&mut [T], _> = buf[..].try_components_as_mut();
                    o.ok(r.is_ok() == good, "TryComponentsAsMut for [C]", "accept_iff_multiple", &cell);
                    let r: Result<&mut [T], _> = <&mut [T]>::try_from_components(&mut buf[..]);
                    o.ok(r.is_ok() == good, "TryFromComponents<&mut [C]>", "accept_iff_multiple", &cell);
                }
                o.ok(same(&buf, &flat(l)), "try_from_component_slice*", "rejected_or_accepted_buffer_unchanged", &cell);
                // the panicking forms (under Miri an unwinding panic costs ~0.2 s: only one bad and one good length there)
                let pan = !ctx.is_miri() || l == 1 || l == N;
                if pan {
                let r = catch_unwind(AssertUnwindSafe(|| {
                    let s: &[T] = cast::from_component_slice::<T>(&buf[..]);
                    (s.as_ptr() as usize, s.len())
                }));
                o.ok(r.is_ok() == good && r.map_or(true, |(q, n)| q == p && n == l / N), "from_component_slice", "panic_iff_not_multiple", &cell);
                let r = catch_unwind(AssertUnwindSafe(|| {
                    let s: &[T] = buf[..].components_as();
                    s.len()
                }));
                o.ok(r.is_ok() == good, "ComponentsAs for [C]", "panic_iff_not_multiple", &cell);
                let r = catch_unwind(AssertUnwindSafe(|| {
                    let s: &[T] = <&[T]>::from_components(&buf[..]);
                    s.len()
                }));
                o.ok(r.is_ok() == good, "FromComponents<&[C]>", "panic_iff_not_multiple", &cell);
                let r = catch_unwind(AssertUnwindSafe(|| {
                    let s: &mut [T] = cast::from_component_slice_mut::<T>(&mut buf[..]);
                    s.len()
                }));
                o.ok(r.is_ok() == good, "from_component_slice_mut", "panic_iff_not_multiple", &cell);
                }

                // ---- boxed slices -------------------------------------------------------------
                let bx: Box<[C]> = flat(l).into_boxed_slice();
                let p = bx.as_ptr() as usize;
                match cast::try_from_component_slice_box::<T>(bx) {
                    Ok(b) => {
                        o.ok(good && (l == 0 || b.as_ptr() as usize == p) && b.len() == l / N && b.iter().enumerate().all(|(e, t)| same(&fields(t), &mk(e))), "try_from_component_slice_box", "accept_iff_multiple", &cell);
                        let back: Box<[C]> = cast::into_component_slice_box(b);
                        o.ok((l == 0 || back.as_ptr() as usize == p) && back.len() == l && same(&back, &flat(l)), "into_component_slice_box", "same_memory_len", &cell);
                        let b2: Box<[T]> = cast::from_component_slice_box(back);
                        let ab: Box<[[C; N]]> = cast::into_array_slice_box(b2);
                        o.ok((l == 0 || ab.as_ptr() as usize == p) && ab.len() == l / N, "into_array_slice_box", "same_memory_len", &cell);
                        let b3: Box<[T]> = cast::from_array_slice_box(ab);
                        o.ok((l == 0 || b3.as_ptr() as usize == p) && b3.len() == l / N, "from_array_slice_box", "same_memory_len", &cell);
                        // traits
                        let ab: Box<[[C; N]]> = b3.into_arrays();
                        let b4: Box<[T]> = <Box<[T]>>::from_arrays(ab);
                        let cb: Box<[C]> = b4.into_components();
                        let b5: Box<[T]> = <Box<[T]>>::from_components(cb);
                        let cb: Box<[C]> = <Box<[C]>>::components_from(b5);
                        let b6: Box<[T]> = cb.components_into();
                        let ab: Box<[[C; N]]> = <Box<[[C; N]]>>::arrays_from(b6);
                        let b7: Box<[T]> = ab.arrays_into();
                        let r: &[C] = b7.as_components();
                        o.ok((l == 0 || r.as_ptr() as usize == p) && same(r, &flat(l)), "Box<[T]> trait chain", "same_memory_values", &cell);
                        let r: &[[C; N]] = b7.as_arrays();
                        o.ok(r.len() == l / N, "AsArrays for Box<[T]>", "len", &cell);
                        drop(b7);
                    }
                    Err(e) => {
                        o.ok(!good && (e.values.as_ptr() as usize == p) && e.values.len() == l && same(&e.values, &flat(l)), "try_from_component_slice_box", "rejected_buffer_handed_back_unchanged", &cell);
                        let r: Result<Box<[T]>, _> = <Box<[T]>>::try_from_components(e.values);
                        match r {
                            Ok(_) => o.ok(false, "TryFromComponents<Box<[C]>>", "accept_iff_multiple", &cell),
                            Err(e2) => {
                                o.ok(e2.values.as_ptr() as usize == p && e2.values.len() == l, "TryFromComponents<Box<[C]>>", "rejected_buffer_handed_back_unchanged", &cell);
                                let r: Result<Box<[T]>, _> = e2.values.try_components_into();
                                o.ok(r.is_err(), "TryComponentsInto<Box<[T]>>", "accept_iff_multiple", &cell);
                            }
                        }
                        if pan {
                            let r = catch_unwind(|| {
                                let b: Box<[T]> = cast::from_component_slice_box(flat(l).into_boxed_slice());
                                b.len()
                            });
                            o.ok(r.is_err(), "from_component_slice_box", "panic_iff_not_multiple", &cell);
                        }
                    }
                }

                // ---- vectors: every capacity residue ------------------------------------------
                for &extra in &extras {
                    let mut v: Vec<C> = Vec::with_capacity(l + extra);
                    v.extend(flat(l));
                    let (p, len, cap) = (v.as_ptr() as usize, v.len(), v.capacity());
                    let cell = || json!({"cell": [l % N, cap % N], "len": l, "cap": cap});
                    let want_ok = len % N == 0 && cap % N == 0;
                    match cast::try_from_component_vec::<T>(v) {
                        Ok(mut tv) => {
                            o.ok(want_ok, "try_from_component_vec", "accept_iff_len_and_cap_multiple", &cell);
                            o.ok(tv.as_ptr() as usize == p && tv.len() == len / N && tv.capacity() == cap / N, "try_from_component_vec", "same_memory_len_cap_scaled", || json!({"cell": [l % N, cap % N], "len": tv.len(), "cap": tv.capacity(), "want_len": len / N, "want_cap": cap / N}));
                            o.ok(tv.iter().enumerate().all(|(e, t)| same(&fields(t), &mk(e))), "try_from_component_vec", "values", &cell);
                            // grow through the cast vector: a wrong capacity becomes a heap error under ASan/Miri
                            tv.push(ctor(mk(len / N)));
                            tv.push(ctor(mk(len / N + 1)));
                            let n2 = tv.len();
                            let (p2, c2) = (tv.as_ptr() as usize, tv.capacity());
                            let av: Vec<[C; N]> = cast::into_array_vec(tv);
                            o.ok(av.as_ptr() as usize == p2 && av.len() == n2 && av.capacity() == c2, "into_array_vec", "same_memory_len_cap", &cell);
                            let tv: Vec<T> = cast::from_array_vec(av);
                            o.ok(tv.as_ptr() as usize == p2 && tv.len() == n2 && tv.capacity() == c2, "from_array_vec", "same_memory_len_cap", &cell);
                            let cv: Vec<C> = cast::into_component_vec(tv);
                            o.ok(cv.as_ptr() as usize == p2 && cv.len() == n2 * N && cv.capacity() == c2 * N && same(&cv, &flat(n2 * N)), "into_component_vec", "same_memory_len_cap_scaled", || json!({"cell": [l % N, cap % N], "len": cv.len(), "cap": cv.capacity(), "want_len": n2 * N, "want_cap": c2 * N}));
                            let mut tv: Vec<T> = cast::from_component_vec(cv);
                            o.ok(tv.as_ptr() as usize == p2 && tv.len() == n2 && tv.capacity() == c2, "from_component_vec", "same_memory_len_cap_scaled", &cell);
                            tv.shrink_to_fit();
                            // trait forms
                            let av: Vec<[C; N]> = tv.into_arrays();
                            let tv: Vec<T> = <Vec<T>>::from_arrays(av);
                            let av: Vec<[C; N]> = <Vec<[C; N]>>::arrays_from(tv);
                            let tv: Vec<T> = av.arrays_into();
                            let cv: Vec<C> = tv.into_components();
                            let tv: Vec<T> = <Vec<T>>::from_components(cv);
                            let cv: Vec<C> = <Vec<C>>::components_from(tv);
                            let tv: Vec<T> = cv.components_into();
                            let cv: Vec<C> = tv.into_components();
                            let tv: Vec<T> = <Vec<T>>::try_from_components(cv).unwrap_or_default();
                            let cv: Vec<C> = tv.into_components();
                            let tv: Result<Vec<T>, _> = cv.try_components_into();
                            o.ok(tv.as_ref().map_or(false, |t| t.len() == n2 && t.iter().enumerate().all(|(e, t)| same(&fields(t), &mk(e)))), "Vec<T> trait chain", "values", &cell);
                            let mut tv = tv.unwrap_or_default();
                            let r: &[[C; N]] = tv.as_arrays();
                            o.ok(r.len() == n2, "AsArrays for Vec<T>", "len", &cell);
                            let r: &mut [C] = tv.as_components_mut();
                            o.ok(r.len() == n2 * N, "AsComponentsMut for Vec<T>", "len", &cell);
                            drop(tv);
                        }
                        Err(e) => {
                            let kind_ok = if len % N != 0 { e.kind == VecCastErrorKind::LengthMismatch } else { e.kind == VecCastErrorKind::CapacityMismatch };
                            o.ok(!want_ok, "try_from_component_vec", "accept_iff_len_and_cap_multiple", &cell);
                            o.ok(kind_ok, "try_from_component_vec", "error_kind", &cell);
                            o.ok(e.values.as_ptr() as usize == p && e.values.len() == len && e.values.capacity() == cap && same(&e.values, &flat(l)), "try_from_component_vec", "rejected_buffer_handed_back_unchanged", &cell);
                            let r: Result<Vec<T>, _> = <Vec<T>>::try_from_components(e.values);
                            match r {
                                Ok(_) => o.ok(false, "TryFromComponents<Vec<C>>", "accept_iff_len_and_cap_multiple", &cell),
                                Err(e2) => o.ok(e2.values.as_ptr() as usize == p && e2.values.len() == len && e2.values.capacity() == cap, "TryFromComponents<Vec<C>>", "rejected_buffer_handed_back_unchanged", &cell),
                            }
                            if !ctx.is_miri() || (l == 1 && extra == 0) || (l == N && extra == 1) {
                            let r = catch_unwind(|| {
                                let mut v: Vec<C> = Vec::with_capacity(l + extra);
                                v.extend((0..l).map(|i| <C as Comp>::sent(i)));
                                let t: Vec<T> = cast::from_component_vec(v);
                                t.len()
                            });
                            o.ok(r.is_err(), "from_component_vec", "panic_iff_not_multiple", &cell);
                            }
                        }
                    }
                }
            }
            // vectors of colours with spare capacity
            for nc in 0..=(if ctx.is_miri() { 1usize } else { 3 }) {
                for extra in 0..=(if ctx.is_miri() { 1usize } else { 2 }) {
                    let mut tv: Vec<T> = Vec::with_capacity(nc + extra);
                    tv.extend(colors(nc));
                    let (p, cap) = (tv.as_ptr() as usize, tv.capacity());
                    let cv: Vec<C> = cast::into_component_vec(tv);
                    o.ok(cv.as_ptr() as usize == p && cv.len() == nc * N && cv.capacity() == cap * N, "into_component_vec", "same_memory_len_cap_scaled", || json!({"cell": [nc, extra], "len": cv.len(), "cap": cv.capacity()}));
                    let mut cv = cv;
                    cv.shrink_to_fit();
                    cv.reserve_exact(N);
                    drop(cv);
                }
            }
    }
}

macro_rules! cast_suite {
    ($mon:expr, $ctx:expr, $name:expr, $family:expr, $T:ty, $C:ty, $n:literal, $ctor:expr, $fields:expr) => {{
        let ctx: &Ctx = $ctx;
        let tyname: &'static str = $name;
        if selected(ctx, tyname, $family, stringify!($C)) {
            const N: usize = $n;
            type T = $T;
            type C = $C;
            let ctor: fn([C; N]) -> T = $ctor;
            let fields: fn(&T) -> [C; N] = $fields;
            suite::<T, C, N>($mon, ctx, tyname, $family, ctor, fields);
            let mk = |e: usize| -> [C; N] { core::array::from_fn(|j| <C as Comp>::sent(e * N + j)) };
            let flat = |n: usize| -> Vec<C> { (0..n).map(|i| <C as Comp>::sent(i)).collect() };
            let mut o = Obs { m: $mon, ty: tyname, family: $family, lean: ctx.mode != "native" && ctx.mode != "native-dev", seen: Vec::new() };
            // ---- 2. arrays of colours ------------------------------------------------------------
            {
                let ts: [T; 3] = [ctor(mk(0)), ctor(mk(1)), ctor(mk(2))];
                let arrs = cast::into_array_array(ts.clone());
                o.ok((0..3).all(|e| same(&arrs[e], &mk(e))), "into_array_array", "values", || json!({}));
                let comps: [C; 3 * $n] = cast::into_component_array(ts.clone());
                o.ok(same(&comps, &flat(3 * N)), "into_component_array", "values_flat_order", || json!({"got": keys(&comps)}));
                let back: [T; 3] = cast::from_array_array(arrs);
                o.ok((0..3).all(|e| same(&fields(&back[e]), &mk(e))), "from_array_array", "values", || json!({}));
                let back: [T; 3] = cast::from_component_array(comps);
                o.ok((0..3).all(|e| same(&fields(&back[e]), &mk(e))), "from_component_array", "values", || json!({}));
                // fixed-size arrays cannot be handed back, so a component count that does not fit is a panic: one component
                // too many or too few for the requested number of colours (floor and ceiling of the quotient), and a
                // mismatched output length of the opposite direction
                {
                    let probe = |f: &dyn Fn()| catch_unwind(AssertUnwindSafe(f)).is_err();
                    let long: [C; 3 * $n + 1] = core::array::from_fn(|i| <C as Comp>::sent(i));
                    let short: [C; 3 * $n - 1] = core::array::from_fn(|i| <C as Comp>::sent(i));
                    let r1 = probe(&|| { let _ = cast::from_component_array::<T, { 3 * $n + 1 }, 3>(long); });
                    let r2 = $n == 1 || probe(&|| { let _ = cast::from_component_array::<T, { 3 * $n + 1 }, 4>(long); });
                    let r3 = probe(&|| { let _ = cast::from_component_array::<T, { 3 * $n - 1 }, 3>(short); });
                    let r4 = $n == 1 || probe(&|| { let _ = cast::from_component_array::<T, { 3 * $n - 1 }, 2>(short); }); // (one-component colours: every count fits)
                    let r5 = probe(&|| { let _ = cast::from_component_array::<T, { 3 * $n }, 2>(comps); });
                    o.ok(r1 && r2 && r3 && r4 && r5, "from_component_array", "non_multiple_or_mismatched_length_accepted", || json!({"panicked": {"3N+1->3": r1, "3N+1->4": r2, "3N-1->3": r3, "3N-1->2": r4, "3N->2": r5}}));
                    let r6 = probe(&|| { let _ = cast::into_component_array::<T, 3, { 3 * $n + 1 }>(ts.clone()); });
                    let r7 = probe(&|| { let _ = cast::into_component_array::<T, 3, { 3 * $n - 1 }>(ts.clone()); });
                    o.ok(r6 && r7, "into_component_array", "mismatched_length_accepted", || json!({"panicked": {"3->3N+1": r6, "3->3N-1": r7}}));
                    let r8 = probe(&|| { let _: [T; 3] = <[T; 3]>::from_components(long); });
                    let r9 = probe(&|| { let _: [T; 3] = long.components_into(); });
                    let r10 = $n == 1 || probe(&|| { let _: [T; 2] = short.components_into(); });
                    o.ok(r8 && r9 && r10, "FromComponents/ComponentsInto [C;K]", "non_multiple_accepted", || json!({"panicked": {"from_components 3N+1": r8, "components_into 3N+1": r9, "components_into 3N-1->2": r10}}));
                }
                // traits on arrays
                let a2: [[C; N]; 3] = ts.clone().into_arrays();
                o.ok((0..3).all(|e| same(&a2[e], &mk(e))), "IntoArrays for [T;M]", "values", || json!({}));
                let t2: [T; 3] = <[T; 3]>::from_arrays(a2);
                o.ok((0..3).all(|e| same(&fields(&t2[e]), &mk(e))), "FromArrays for [T;M]", "values", || json!({}));
                let a3: [[C; N]; 3] = <[[C; N]; 3]>::arrays_from(ts.clone());
                let t3: [T; 3] = a3.arrays_into();
                o.ok((0..3).all(|e| same(&fields(&t3[e]), &mk(e))), "ArraysFrom/ArraysInto [T;M]", "values", || json!({}));
                let c2: [C; 3 * $n] = ts.clone().into_components();
                let t4: [T; 3] = <[T; 3]>::from_components(c2);
                let c3: [C; 3 * $n] = <[C; 3 * $n]>::components_from(ts.clone());
                let t5: [T; 3] = c3.components_into();
                let t6: [T; 3] = <[T; 3]>::try_from_components(c3).unwrap();
                let t7: [T; 3] = c3.try_components_into().unwrap();
                o.ok(same(&c2, &flat(3 * N)) && same(&c3, &c2) && [&t4, &t5, &t6, &t7].iter().all(|t| (0..3).all(|e| same(&fields(&t[e]), &mk(e)))), "components traits [T;M]", "values", || json!({}));
                let r: &[[C; N]] = ts.as_arrays();
                o.ok(addr(r) == addr(&ts) && r.len() == 3, "AsArrays for [T;M]", "same_memory_len", || json!({}));
                let r: &[C] = ts.as_components();
                o.ok(addr(r) == addr(&ts) && r.len() == 3 * N, "AsComponents for [T;M]", "same_memory_len", || json!({}));
                let r: &[T] = a2.arrays_as();
                o.ok(addr(r) == addr(&a2) && r.len() == 3, "ArraysAs for [[C;N];M]", "same_memory_len", || json!({}));
                let r: &[T] = c2.components_as();
                o.ok(addr(r) == addr(&c2) && r.len() == 3, "ComponentsAs for [C;M]", "same_memory_len", || json!({}));
                let r: Result<&[T], _> = c2.try_components_as();
                o.ok(r.map_or(false, |r| r.len() == 3), "TryComponentsAs for [C;M]", "len", || json!({}));
            }
        }
    }};
}

macro_rules! uint_suite {
    ($mon:expr, $ctx:expr, $name:expr, $T:ty, $U:ty, $ctor:expr, $get:expr) => {{
        #[inline(never)]
        fn run_suite(mon: &mut Monitor, ctx: &Ctx) {
        let tyname: &'static str = $name;
        if selected(ctx, tyname, "uint", if core::mem::size_of::<$U>() <= 4 { "small" } else { "large" }) {
            type T = $T;
            // U is whatever the type declares as its integer form; D is the documented one (the component type itself).
            // The suite is written against U so that it still builds if a declaration changes; the difference is reported.
            type U = <T as palette::cast::UintCast>::Uint;
            type D = $U;
            let ctor: fn(D) -> T = $ctor;
            let get: fn(&T) -> D = $get;
            let mut o = Obs { m: mon, ty: tyname, family: "uint", lean: ctx.mode != "native" && ctx.mode != "native-dev", seen: Vec::new() };
            o.m.count("types");
            let s = |i: usize| -> U { <U as Comp>::sent(i * 7 + 3) };
            let sd = |i: usize| -> D { <D as Comp>::sent(i * 7 + 3) };
            o.ok(std::any::TypeId::of::<U>() == std::any::TypeId::of::<D>() && core::mem::size_of::<U>() == core::mem::size_of::<T>(), "UintCast::Uint", "uint_type_is_not_the_documented_integer", || json!({"declared": std::any::type_name::<U>(), "documented": std::any::type_name::<D>()}));
            let panicked = catch_unwind(AssertUnwindSafe(|| {
            let t = ctor(sd(1));
            o.ok(cast::into_uint(t.clone()) == s(1), "into_uint", "value", || json!({}));
            o.ok(get(&cast::from_uint::<T>(s(2))).key() == s(2).key(), "from_uint", "value", || json!({}));
            let r: &U = cast::into_uint_ref(&t);
            o.ok(addr(r) == addr(&t) && *r == s(1), "into_uint_ref", "same_memory", || json!({}));
            let u = s(3);
            let r: &T = cast::from_uint_ref(&u);
            o.ok(addr(r) == addr(&u) && get(r).key() == u.key(), "from_uint_ref", "same_memory", || json!({}));
            let mut tm = ctor(sd(4));
            let p = addr(&tm);
            {
                let r: &mut U = cast::into_uint_mut(&mut tm);
                let okk = addr(r) == p;
                *r = s(5);
                o.ok(okk, "into_uint_mut", "same_memory", || json!({}));
            }
            o.ok(get(&tm).key() == s(5).key(), "into_uint_mut", "write_through", || json!({}));
            let mut um = s(6);
            let p = addr(&um);
            {
                let r: &mut T = cast::from_uint_mut(&mut um);
                o.ok(addr(r) == p, "from_uint_mut", "same_memory", || json!({}));
            }
            let arr = cast::into_uint_array([ctor(sd(0)), ctor(sd(1)), ctor(sd(2))]);
            o.ok(arr == [s(0), s(1), s(2)], "into_uint_array", "values", || json!({}));
            let back: [T; 3] = cast::from_uint_array(arr);
            o.ok((0..3).all(|i| get(&back[i]).key() == s(i).key()), "from_uint_array", "values", || json!({}));
            for n in 0..=3usize {
                let mut ts: Vec<T> = (0..n).map(|i| ctor(sd(i))).collect();
                let mut us: Vec<U> = (0..n).map(|i| s(i)).collect();
                let p = ts.as_ptr() as usize;
                let q = us.as_ptr() as usize;
                let cell = || json!({"cell": n});
                let r = cast::into_uint_slice(&ts[..]);
                o.ok(r.as_ptr() as usize == p && r.len() == n && r == &us[..], "into_uint_slice", "same_memory_len", &cell);
                let r: &[T] = cast::from_uint_slice(&us[..]);
                o.ok(r.as_ptr() as usize == q && r.len() == n && r.iter().enumerate().all(|(i, t)| get(t).key() == s(i).key()), "from_uint_slice", "same_memory_len", &cell);
                let r: &[U] = ts[..].as_uints();
                o.ok(r.as_ptr() as usize == p && r.len() == n, "AsUints for [T]", "same_memory_len", &cell);
                let r: &[T] = us[..].uints_as();
                o.ok(r.as_ptr() as usize == q && r.len() == n, "UintsAs for [U]", "same_memory_len", &cell);
                let r: &[T] = <&[T]>::from_uints(&us[..]);
                o.ok(r.as_ptr() as usize == q && r.len() == n, "FromUints<&[U]>", "same_memory_len", &cell);
                let r: &[U] = (&ts[..]).into_uints();
                o.ok(r.as_ptr() as usize == p && r.len() == n, "IntoUints for &[T]", "same_memory_len", &cell);
                let r: &[U] = <&[U]>::uints_from(&ts[..]);
                o.ok(r.len() == n, "UintsFrom<&[T]>", "len", &cell);
                let r: &[T] = (&us[..]).uints_into();
                o.ok(r.len() == n, "UintsInto<&[T]>", "len", &cell);
                {
                    let r = cast::into_uint_slice_mut(&mut ts[..]);
                    o.ok(r.as_ptr() as usize == p && r.len() == n, "into_uint_slice_mut", "same_memory_len", &cell);
                    let r: &mut [T] = cast::from_uint_slice_mut(&mut us[..]);
                    o.ok(r.as_ptr() as usize == q && r.len() == n, "from_uint_slice_mut", "same_memory_len", &cell);
                    let r: &mut [U] = ts[..].as_uints_mut();
                    o.ok(r.len() == n, "AsUintsMut for [T]", "len", &cell);
                    let r: &mut [T] = us[..].uints_as_mut();
                    o.ok(r.len() == n, "UintsAsMut for [U]", "len", &cell);
                }
                // boxes
                let bx: Box<[T]> = ts.clone().into_boxed_slice();
                let p = bx.as_ptr() as usize;
                let ub: Box<[U]> = cast::into_uint_slice_box(bx);
                o.ok((n == 0 || ub.as_ptr() as usize == p) && ub.len() == n, "into_uint_slice_box", "same_memory_len", &cell);
                let tb: Box<[T]> = cast::from_uint_slice_box(ub);
                o.ok((n == 0 || tb.as_ptr() as usize == p) && tb.len() == n, "from_uint_slice_box", "same_memory_len", &cell);
                let ub: Box<[U]> = tb.into_uints();
                let tb: Box<[T]> = <Box<[T]>>::from_uints(ub);
                let ub: Box<[U]> = <Box<[U]>>::uints_from(tb);
                let tb: Box<[T]> = ub.uints_into();
                o.ok(tb.len() == n && tb.iter().enumerate().all(|(i, t)| get(t).key() == s(i).key()), "Box<[T]> uint trait chain", "values", &cell);
                // vectors with spare capacity
                for extra in 0..=2usize {
                    let mut tv: Vec<T> = Vec::with_capacity(n + extra);
                    tv.extend(ts.iter().cloned());
                    let (p, cap) = (tv.as_ptr() as usize, tv.capacity());
                    let mut uv: Vec<U> = cast::into_uint_vec(tv);
                    o.ok(uv.as_ptr() as usize == p && uv.len() == n && uv.capacity() == cap, "into_uint_vec", "same_memory_len_cap", || json!({"cell": [n, extra]}));
                    uv.push(s(n));
                    let (p, cap) = (uv.as_ptr() as usize, uv.capacity());
                    let tv: Vec<T> = cast::from_uint_vec(uv);
                    o.ok(tv.as_ptr() as usize == p && tv.len() == n + 1 && tv.capacity() == cap && tv.iter().enumerate().all(|(i, t)| get(t).key() == s(i).key()), "from_uint_vec", "same_memory_len_cap", || json!({"cell": [n, extra]}));
                    let uv: Vec<U> = tv.into_uints();
                    let tv: Vec<T> = <Vec<T>>::from_uints(uv);
                    let uv: Vec<U> = <Vec<U>>::uints_from(tv);
                    let tv: Vec<T> = uv.uints_into();
                    o.ok(tv.len() == n + 1, "Vec<T> uint trait chain", "len", || json!({"cell": [n, extra]}));
                }
            }
            }));
            if panicked.is_err() {
                o.ok(false, "uint casts", "cast_panicked", || json!({"declared": std::any::type_name::<U>(), "documented": std::any::type_name::<D>()}));
            }
        }
        }
        run_suite($mon, $ctx);
    }};
}

macro_rules! float_types {
    ($m:expr, $ctx:expr, $C:ident) => {{
        use palette::encoding::{Linear, Srgb as SrgbStd};
        use palette::white_point::{D50, D65};
        type RgbS = palette::rgb::Rgb<SrgbStd, $C>;
        cast_suite!($m, $ctx, concat!("Rgb<Srgb,", stringify!($C), ">"), "color3", RgbS, $C, 3, |a| RgbS { red: a[0], green: a[1], blue: a[2], standard: PhantomData }, |c| [c.red, c.green, c.blue]);
        type RgbL = palette::rgb::Rgb<Linear<SrgbStd>, $C>;
        cast_suite!($m, $ctx, concat!("Rgb<Linear<Srgb>,", stringify!($C), ">"), "color3", RgbL, $C, 3, |a| RgbL { red: a[0], green: a[1], blue: a[2], standard: PhantomData }, |c| [c.red, c.green, c.blue]);
        type LumaS = palette::luma::Luma<SrgbStd, $C>;
        cast_suite!($m, $ctx, concat!("Luma<Srgb,", stringify!($C), ">"), "color1", LumaS, $C, 1, |a| LumaS { luma: a[0], standard: PhantomData }, |c| [c.luma]);
        type HslS = Hsl<SrgbStd, $C>;
        cast_suite!($m, $ctx, concat!("Hsl<Srgb,", stringify!($C), ">"), "color3hue", HslS, $C, 3, |a| HslS { hue: RgbHue::new(a[0]), saturation: a[1], lightness: a[2], standard: PhantomData }, |c| [c.hue.into_inner(), c.saturation, c.lightness]);
        type HsvS = Hsv<SrgbStd, $C>;
        cast_suite!($m, $ctx, concat!("Hsv<Srgb,", stringify!($C), ">"), "color3hue", HsvS, $C, 3, |a| HsvS { hue: RgbHue::new(a[0]), saturation: a[1], value: a[2], standard: PhantomData }, |c| [c.hue.into_inner(), c.saturation, c.value]);
        type HwbS = Hwb<SrgbStd, $C>;
        cast_suite!($m, $ctx, concat!("Hwb<Srgb,", stringify!($C), ">"), "color3hue", HwbS, $C, 3, |a| HwbS { hue: RgbHue::new(a[0]), whiteness: a[1], blackness: a[2], standard: PhantomData }, |c| [c.hue.into_inner(), c.whiteness, c.blackness]);
        type LabD = Lab<D65, $C>;
        cast_suite!($m, $ctx, concat!("Lab<D65,", stringify!($C), ">"), "color3", LabD, $C, 3, |a| LabD { l: a[0], a: a[1], b: a[2], white_point: PhantomData }, |c| [c.l, c.a, c.b]);
        type LchD = Lch<D50, $C>;
        cast_suite!($m, $ctx, concat!("Lch<D50,", stringify!($C), ">"), "color3hue", LchD, $C, 3, |a| LchD { l: a[0], chroma: a[1], hue: LabHue::new(a[2]), white_point: PhantomData }, |c| [c.l, c.chroma, c.hue.into_inner()]);
        type LuvD = Luv<D65, $C>;
        cast_suite!($m, $ctx, concat!("Luv<D65,", stringify!($C), ">"), "color3", LuvD, $C, 3, |a| LuvD { l: a[0], u: a[1], v: a[2], white_point: PhantomData }, |c| [c.l, c.u, c.v]);
        type LchuvD = Lchuv<D65, $C>;
        cast_suite!($m, $ctx, concat!("Lchuv<D65,", stringify!($C), ">"), "color3hue", LchuvD, $C, 3, |a| LchuvD { l: a[0], chroma: a[1], hue: LuvHue::new(a[2]), white_point: PhantomData }, |c| [c.l, c.chroma, c.hue.into_inner()]);
        type HsluvD = Hsluv<D65, $C>;
        cast_suite!($m, $ctx, concat!("Hsluv<D65,", stringify!($C), ">"), "color3hue", HsluvD, $C, 3, |a| HsluvD { hue: LuvHue::new(a[0]), saturation: a[1], l: a[2], white_point: PhantomData }, |c| [c.hue.into_inner(), c.saturation, c.l]);
        type XyzD = Xyz<D65, $C>;
        cast_suite!($m, $ctx, concat!("Xyz<D65,", stringify!($C), ">"), "color3", XyzD, $C, 3, |a| XyzD { x: a[0], y: a[1], z: a[2], white_point: PhantomData }, |c| [c.x, c.y, c.z]);
        type YxyD = Yxy<D65, $C>;
        cast_suite!($m, $ctx, concat!("Yxy<D65,", stringify!($C), ">"), "color3", YxyD, $C, 3, |a| YxyD { x: a[0], y: a[1], luma: a[2], white_point: PhantomData }, |c| [c.x, c.y, c.luma]);
        type LmsB = palette::lms::Lms<palette::lms::matrix::Bradford, $C>;
        cast_suite!($m, $ctx, concat!("Lms<Bradford,", stringify!($C), ">"), "color3", LmsB, $C, 3, |a| LmsB { long: a[0], medium: a[1], short: a[2], meta: PhantomData }, |c| [c.long, c.medium, c.short]);
        type OklabT = Oklab<$C>;
        cast_suite!($m, $ctx, concat!("Oklab<", stringify!($C), ">"), "color3", OklabT, $C, 3, |a| OklabT { l: a[0], a: a[1], b: a[2] }, |c| [c.l, c.a, c.b]);
        type OklchT = Oklch<$C>;
        cast_suite!($m, $ctx, concat!("Oklch<", stringify!($C), ">"), "color3hue", OklchT, $C, 3, |a| OklchT { l: a[0], chroma: a[1], hue: OklabHue::new(a[2]) }, |c| [c.l, c.chroma, c.hue.into_inner()]);
        type OkhslT = Okhsl<$C>;
        cast_suite!($m, $ctx, concat!("Okhsl<", stringify!($C), ">"), "color3hue", OkhslT, $C, 3, |a| OkhslT { hue: OklabHue::new(a[0]), saturation: a[1], lightness: a[2] }, |c| [c.hue.into_inner(), c.saturation, c.lightness]);
        type OkhsvT = Okhsv<$C>;
        cast_suite!($m, $ctx, concat!("Okhsv<", stringify!($C), ">"), "color3hue", OkhsvT, $C, 3, |a| OkhsvT { hue: OklabHue::new(a[0]), saturation: a[1], value: a[2] }, |c| [c.hue.into_inner(), c.saturation, c.value]);
        type OkhwbT = Okhwb<$C>;
        cast_suite!($m, $ctx, concat!("Okhwb<", stringify!($C), ">"), "color3hue", OkhwbT, $C, 3, |a| OkhwbT { hue: OklabHue::new(a[0]), whiteness: a[1], blackness: a[2] }, |c| [c.hue.into_inner(), c.whiteness, c.blackness]);
        type JabT = palette::cam16::Cam16UcsJab<$C>;
        cast_suite!($m, $ctx, concat!("Cam16UcsJab<", stringify!($C), ">"), "color3", JabT, $C, 3, |a| JabT { lightness: a[0], a: a[1], b: a[2] }, |c| [c.lightness, c.a, c.b]);
        type JmhT = palette::cam16::Cam16UcsJmh<$C>;
        cast_suite!($m, $ctx, concat!("Cam16UcsJmh<", stringify!($C), ">"), "color3hue", JmhT, $C, 3, |a| JmhT { lightness: a[0], colorfulness: a[1], hue: Cam16Hue::new(a[2]) }, |c| [c.lightness, c.colorfulness, c.hue.into_inner()]);
        type JchT = palette::cam16::Cam16Jch<$C>;
        cast_suite!($m, $ctx, concat!("Cam16Jch<", stringify!($C), ">"), "color3hue", JchT, $C, 3, |a| JchT { lightness: a[0], chroma: a[1], hue: Cam16Hue::new(a[2]) }, |c| [c.lightness, c.chroma, c.hue.into_inner()]);
        type JmhP = palette::cam16::Cam16Jmh<$C>;
        cast_suite!($m, $ctx, concat!("Cam16Jmh<", stringify!($C), ">"), "color3hue", JmhP, $C, 3, |a| JmhP { lightness: a[0], colorfulness: a[1], hue: Cam16Hue::new(a[2]) }, |c| [c.lightness, c.colorfulness, c.hue.into_inner()]);
        type JshP = palette::cam16::Cam16Jsh<$C>;
        cast_suite!($m, $ctx, concat!("Cam16Jsh<", stringify!($C), ">"), "color3hue", JshP, $C, 3, |a| JshP { lightness: a[0], saturation: a[1], hue: Cam16Hue::new(a[2]) }, |c| [c.lightness, c.saturation, c.hue.into_inner()]);
        type QchP = palette::cam16::Cam16Qch<$C>;
        cast_suite!($m, $ctx, concat!("Cam16Qch<", stringify!($C), ">"), "color3hue", QchP, $C, 3, |a| QchP { brightness: a[0], chroma: a[1], hue: Cam16Hue::new(a[2]) }, |c| [c.brightness, c.chroma, c.hue.into_inner()]);
        type QmhP = palette::cam16::Cam16Qmh<$C>;
        cast_suite!($m, $ctx, concat!("Cam16Qmh<", stringify!($C), ">"), "color3hue", QmhP, $C, 3, |a| QmhP { brightness: a[0], colorfulness: a[1], hue: Cam16Hue::new(a[2]) }, |c| [c.brightness, c.colorfulness, c.hue.into_inner()]);
        type QshP = palette::cam16::Cam16Qsh<$C>;
        cast_suite!($m, $ctx, concat!("Cam16Qsh<", stringify!($C), ">"), "color3hue", QshP, $C, 3, |a| QshP { brightness: a[0], saturation: a[1], hue: Cam16Hue::new(a[2]) }, |c| [c.brightness, c.saturation, c.hue.into_inner()]);
        // alpha wrappers: alpha last
        type RgbaS = Alpha<RgbS, $C>;
        cast_suite!($m, $ctx, concat!("Alpha<Rgb<Srgb,", stringify!($C), ">>"), "alpha4", RgbaS, $C, 4, |a| RgbaS { color: RgbS { red: a[0], green: a[1], blue: a[2], standard: PhantomData }, alpha: a[3] }, |c| [c.color.red, c.color.green, c.color.blue, c.alpha]);
        type HslaS = Alpha<HslS, $C>;
        cast_suite!($m, $ctx, concat!("Alpha<Hsl<Srgb,", stringify!($C), ">>"), "alpha4hue", HslaS, $C, 4, |a| HslaS { color: HslS { hue: RgbHue::new(a[0]), saturation: a[1], lightness: a[2], standard: PhantomData }, alpha: a[3] }, |c| [c.color.hue.into_inner(), c.color.saturation, c.color.lightness, c.alpha]);
        type LchaD = Alpha<LchD, $C>;
        cast_suite!($m, $ctx, concat!("Alpha<Lch<D50,", stringify!($C), ">>"), "alpha4hue", LchaD, $C, 4, |a| LchaD { color: LchD { l: a[0], chroma: a[1], hue: LabHue::new(a[2]), white_point: PhantomData }, alpha: a[3] }, |c| [c.color.l, c.color.chroma, c.color.hue.into_inner(), c.alpha]);
        type LumaaS = Alpha<LumaS, $C>;
        cast_suite!($m, $ctx, concat!("Alpha<Luma<Srgb,", stringify!($C), ">>"), "alpha2", LumaaS, $C, 2, |a| LumaaS { color: LumaS { luma: a[0], standard: PhantomData }, alpha: a[1] }, |c| [c.color.luma, c.alpha]);
        type OklabaT = Alpha<OklabT, $C>;
        cast_suite!($m, $ctx, concat!("Alpha<Oklab<", stringify!($C), ">>"), "alpha4", OklabaT, $C, 4, |a| OklabaT { color: OklabT { l: a[0], a: a[1], b: a[2] }, alpha: a[3] }, |c| [c.color.l, c.color.a, c.color.b, c.alpha]);
        type JmhaT = Alpha<JmhT, $C>;
        cast_suite!($m, $ctx, concat!("Alpha<Cam16UcsJmh<", stringify!($C), ">>"), "alpha4hue", JmhaT, $C, 4, |a| JmhaT { color: JmhT { lightness: a[0], colorfulness: a[1], hue: Cam16Hue::new(a[2]) }, alpha: a[3] }, |c| [c.color.lightness, c.color.colorfulness, c.color.hue.into_inner(), c.alpha]);
        type PreL = palette::blend::PreAlpha<RgbL>;
        cast_suite!($m, $ctx, concat!("PreAlpha<Rgb<Linear<Srgb>,", stringify!($C), ">>"), "prealpha4", PreL, $C, 4, |a| PreL { color: RgbL { red: a[0], green: a[1], blue: a[2], standard: PhantomData }, alpha: a[3] }, |c| [c.color.red, c.color.green, c.color.blue, c.alpha]);
        type PreXyz = palette::blend::PreAlpha<XyzD>;
        cast_suite!($m, $ctx, concat!("PreAlpha<Xyz<D65,", stringify!($C), ">>"), "prealpha4", PreXyz, $C, 4, |a| PreXyz { color: XyzD { x: a[0], y: a[1], z: a[2], white_point: PhantomData }, alpha: a[3] }, |c| [c.color.x, c.color.y, c.color.z, c.alpha]);
    }};
}

macro_rules! int_types {
    ($m:expr, $ctx:expr, $C:ident) => {{
        use palette::encoding::Srgb as SrgbStd;
        type RgbS = palette::rgb::Rgb<SrgbStd, $C>;
        cast_suite!($m, $ctx, concat!("Rgb<Srgb,", stringify!($C), ">"), "color3int", RgbS, $C, 3, |a| RgbS { red: a[0], green: a[1], blue: a[2], standard: PhantomData }, |c| [c.red, c.green, c.blue]);
        type LumaS = palette::luma::Luma<SrgbStd, $C>;
        cast_suite!($m, $ctx, concat!("Luma<Srgb,", stringify!($C), ">"), "color1int", LumaS, $C, 1, |a| LumaS { luma: a[0], standard: PhantomData }, |c| [c.luma]);
        type RgbaS = Alpha<RgbS, $C>;
        cast_suite!($m, $ctx, concat!("Alpha<Rgb<Srgb,", stringify!($C), ">>"), "alpha4int", RgbaS, $C, 4, |a| RgbaS { color: RgbS { red: a[0], green: a[1], blue: a[2], standard: PhantomData }, alpha: a[3] }, |c| [c.color.red, c.color.green, c.color.blue, c.alpha]);
        type LumaaS = Alpha<LumaS, $C>;
        cast_suite!($m, $ctx, concat!("Alpha<Luma<Srgb,", stringify!($C), ">>"), "alpha2int", LumaaS, $C, 2, |a| LumaaS { color: LumaS { luma: a[0], standard: PhantomData }, alpha: a[1] }, |c| [c.color.luma, c.alpha]);
        type P4 = Packed<palette::rgb::channels::Rgba, [$C; 4]>;
        cast_suite!($m, $ctx, concat!("Packed<Rgba,[", stringify!($C), ";4]>"), "packed4", P4, $C, 4, |a| P4 { color: a, channel_order: PhantomData }, |c| c.color);
        type P3 = Packed<palette::rgb::channels::Argb, [$C; 3]>;
        cast_suite!($m, $ctx, concat!("Packed<Argb,[", stringify!($C), ";3]>"), "packed3", P3, $C, 3, |a| P3 { color: a, channel_order: PhantomData }, |c| c.color);
    }};
}

fn main() {
    let ctx = Ctx::from_args("C04");
    let mut report = Report::new(&ctx);
    pvmon::report::quiet_panics();
    let mut m = Monitor::new(
        "casts",
        "every free function of palette::cast, every method of the cast traits and the std From/AsRef/AsMut/TryFrom impls, per colour type x component type, component-buffer lengths 0..=3N+2 (all residues) and Vec capacities of every residue; \
         each event checks address, length, capacity, declared field order (distinct sentinel per component, named field access), bit-exact round trip, accept/reject rule, rejected buffer handed back unchanged; \
         distinct = (type family, api, length/capacity residue cell)",
    );
    m.tolerance = Some("exact".into());
    m.min_events = 1000;
    float_types!(&mut m, &ctx, f32);
    float_types!(&mut m, &ctx, f64);
    int_types!(&mut m, &ctx, u8);
    int_types!(&mut m, &ctx, u16);
    int_types!(&mut m, &ctx, u32);
    {
        use palette::encoding::Srgb as SrgbStd;
        use palette::rgb::channels::{Abgr, Argb, Bgra, Rgba};
        type PU32 = Packed<Rgba, u32>;
        uint_suite!(&mut m, &ctx, "Packed<Rgba,u32>", PU32, u32, |u| PU32 { color: u, channel_order: PhantomData }, |p| p.color);
        type PA32 = Packed<Argb, u32>;
        uint_suite!(&mut m, &ctx, "Packed<Argb,u32>", PA32, u32, |u| PA32 { color: u, channel_order: PhantomData }, |p| p.color);
        type PB32 = Packed<Bgra, u32>;
        uint_suite!(&mut m, &ctx, "Packed<Bgra,u32>", PB32, u32, |u| PB32 { color: u, channel_order: PhantomData }, |p| p.color);
        type PC64 = Packed<Abgr, u64>;
        uint_suite!(&mut m, &ctx, "Packed<Abgr,u64>", PC64, u64, |u| PC64 { color: u, channel_order: PhantomData }, |p| p.color);
        type P16 = Packed<palette::luma::channels::La, u16>;
        uint_suite!(&mut m, &ctx, "Packed<La,u16>", P16, u16, |u| P16 { color: u, channel_order: PhantomData }, |p| p.color);
        type P8 = Packed<Rgba, u8>;
        uint_suite!(&mut m, &ctx, "Packed<Rgba,u8>", P8, u8, |u| P8 { color: u, channel_order: PhantomData }, |p| p.color);
        type P128 = Packed<Rgba, u128>;
        uint_suite!(&mut m, &ctx, "Packed<Rgba,u128>", P128, u128, |u| P128 { color: u, channel_order: PhantomData }, |p| p.color);
        type L8 = palette::luma::Luma<SrgbStd, u8>;
        uint_suite!(&mut m, &ctx, "Luma<Srgb,u8> as uint", L8, u8, |u| L8 { luma: u, standard: PhantomData }, |p| p.luma);
        type L16 = palette::luma::Luma<SrgbStd, u16>;
        uint_suite!(&mut m, &ctx, "Luma<Srgb,u16> as uint", L16, u16, |u| L16 { luma: u, standard: PhantomData }, |p| p.luma);
        type L32 = palette::luma::Luma<SrgbStd, u32>;
        uint_suite!(&mut m, &ctx, "Luma<Srgb,u32> as uint", L32, u32, |u| L32 { luma: u, standard: PhantomData }, |p| p.luma);
        type L64 = palette::luma::Luma<SrgbStd, u64>;
        uint_suite!(&mut m, &ctx, "Luma<Srgb,u64> as uint", L64, u64, |u| L64 { luma: u, standard: PhantomData }, |p| p.luma);
        type L128 = palette::luma::Luma<SrgbStd, u128>;
        uint_suite!(&mut m, &ctx, "Luma<Srgb,u128> as uint", L128, u128, |u| L128 { luma: u, standard: PhantomData }, |p| p.luma);
    }
    report.add(m);
    report.finish();
}
