//! C07 — finite valid colours never produce NaN, infinity or a panic.
//!
//! Oracle: `is_finite()` on every output component + `catch_unwind`. No numeric oracle is
//! needed, so the whole instantiation matrix is run on the full boundary lattice.

use pvmon::conv_table as ct;
use pvmon::gen;
use pvmon::refmodel::space::{Space, V3};
use pvmon::refmodel::transfer::Tf;
use pvmon::report::{bits64, fvec, par, parse_bits64, Ctx, Monitor, Report};
use pvmon::json;
use std::panic::catch_unwind;

fn finite(v: &V3) -> bool {
    v.iter().all(|x| x.is_finite())
}

/// degenerate class of an input colour (for evidence)
fn degenerate_class(space: Space, c: &V3) -> &'static str {
    let r = space.ranges();
    let hi = space.hue_index();
    let on_bound = (0..3).filter(|&i| hi != Some(i) && r[i].1 > r[i].0 && (c[i] == r[i].0 || c[i] == r[i].1)).count();
    let zeros = (0..3).filter(|&i| hi != Some(i) && c[i] == 0.0).count();
    match (on_bound, zeros) {
        (0, 0) => "interior",
        (_, z) if z >= 2 => "multi_zero(black/grey axis)",
        (b, _) if b >= 2 => "multi_bound",
        (_, 1) => "one_zero",
        _ => "one_bound",
    }
}

/// Known-finding classification: a conversion into an RGB standard whose transfer function is a
/// bare power law receives a (slightly) negative linear component.
fn bare_power_negative(dst: &ct::TypeInfo, src_space: Space, x: &V3) -> bool {
    let std = match dst.space {
        Space::Rgb(s) | Space::Hsl(s) | Space::Hsv(s) | Space::Hwb(s) => s,
        _ => return false,
    };
    if !matches!(std.tf, Tf::Adobe | Tf::P3Gamma) {
        return false;
    }
    let xyz = src_space.to_xyz(*x);
    let lin = pvmon::refmodel::space::mat_vec(&std.space.xyz_to_rgb(), xyz);
    // the two routes palette may take (via XYZ or via the direct sRGB<->Oklab matrices) differ by up to ~1e-4 far outside the gamut
    let scale = lin.iter().fold(1.0f64, |a, c| a.max(c.abs()));
    lin.iter().any(|c| *c < 1e-3 * scale)
}

/// Known-finding classification: a colour whose HSL lightness is within 1e-6 of 1 according to the model
/// converted into HSL: rounding puts a component just above 1 and the saturation divisor 2 - (max+min)
/// becomes zero.
fn hsl_white_overshoot(dst: &ct::TypeInfo, src_space: Space, x: &V3) -> bool {
    let std = match dst.space {
        Space::Hsl(s) => s,
        _ => return false,
    };
    // only a chain through another colorimetric space can overshoot: sources defined on the same RGB space
    // (Rgb<S>, Hsv<S>, Hwb<S>) never produce components above 1 from in-range input
    if src_space.anchor() == Some(std.space) {
        return false;
    }
    let rgb = Space::Rgb(std).from_xyz(src_space.to_xyz(*x));
    // the f32 divisor (1 - max) + (1 - min) can only round to exactly 0 when the model's divisor is within a few f32
    // roundings of 0, i.e. the HSL lightness is within 1e-6 of 1 (the same bound the C02 / C17 classes use)
    let (mx, mn) = (rgb[0].max(rgb[1]).max(rgb[2]), rgb[0].min(rgb[1]).min(rgb[2]));
    ((1.0 - mx) + (1.0 - mn)).abs() <= 2e-6
}

fn main() {
    let ctx = Ctx::from_args("C07");
    let mut report = Report::new(&ctx);
    pvmon::report::quiet_panics();
    let types = ct::types();
    let pairs = ct::pairs();
    let mname = "finite_conversions";
    if ctx.enabled(mname) {
        let mon = Monitor::new(
            mname,
            "every listed conversion pair (unclamped, clamping and checked forms), clamp, clamp_assign and is_within_bounds on the full cross-product boundary lattice of the source space (bounds, bound +- 1e-9 range, zero, sector-edge hues; w+b<=1 for the HWB spaces) plus seeded in-range points that are exactly on a bound/zero or >= 1e-9 of the range away; \
             oracle: every output component finite, no panic; distinct = (pair, degenerate class of the input)",
        );
        let replay = ctx.replay.as_ref().filter(|r| r.monitor == mname).map(|r| (r.inst.clone(), parse_bits64(&r.input["bits"])));
        let res = par(if replay.is_some() { 1 } else { ctx.threads }, |t| {
            let mut m = mon.like();
            let mut rng = ctx.rng(mname, t as u64);
            for (pi, &(i, j)) in pairs.iter().enumerate() {
                let inst = format!("{}->{}", types[i].name, types[j].name);
                if let Some((rinst, _)) = &replay {
                    if *rinst != inst {
                        continue;
                    }
                } else if pi % ctx.threads != t {
                    continue;
                }
                let space = types[i].space;
                let mut inputs: Vec<V3> = Vec::new();
                if let Some((_, bits)) = &replay {
                    inputs.push([bits[0], bits[1], bits[2]]);
                } else {
                    inputs = gen::lattice(space);
                    for _ in 0..ctx.n(1500, 20_000) {
                        inputs.push(gen::fill(space, &mut rng));
                    }
                    if types[i].is_f32 {
                        // the f32 instantiation sees the f32-rounded input; keep the precondition (on a bound or >= 1e-9 range away) true after rounding
                        let r = space.ranges();
                        inputs.retain(|v| {
                            (0..3).all(|k| {
                                let f = v[k] as f32 as f64;
                                let (lo, hi) = r[k];
                                space.hue_index() == Some(k) || hi == lo || f == lo || f == hi || (f >= lo + gen::T_REL * (hi - lo) && f <= hi - gen::T_REL * (hi - lo))
                            })
                        });
                        for v in inputs.iter_mut() {
                            *v = [v[0] as f32 as f64, v[1] as f32 as f64, v[2] as f32 as f64];
                        }
                        if matches!(space, Space::Hwb(_) | Space::Okhwb) {
                            inputs.retain(|v| v[1] + v[2] <= 1.0);
                        }
                    }
                }
                for x in inputs {
                    m.evals(3);
                    let r = catch_unwind(|| (ct::convert(i, j, x), ct::convert_clamped(i, j, x), ct::convert_checked(i, j, x)));
                    let cls = degenerate_class(space, &x);
                    let mut report = |m: &mut Monitor, what: &str, observed: pvmon::Value| {
                        let known = bare_power_negative(&types[j], space, &x);
                        let hs = hsl_white_overshoot(&types[j], space, &x);
                        let class = format!("{}{}{}", what, if known { ":bare_power_tf_negative_linear" } else { "" }, if hs { ":hsl_white_overshoot" } else { "" });
                        m.violate(&inst, &class, json!({"bits": bits64(&x), "x": fvec(&x), "input_class": cls}), observed, json!("finite components, no panic"), "");
                    };
                    match r {
                        Err(_) => report(&mut m, "panic", json!("panic")),
                        Ok((a, b, c)) => {
                            if let Some(a) = a {
                                if !finite(&a) {
                                    report(&mut m, "nonfinite_unclamped", fvec(&a));
                                }
                            }
                            if let Some(b) = b {
                                if !finite(&b) {
                                    report(&mut m, "nonfinite_clamped", fvec(&b));
                                }
                            }
                            if let Some(c) = c {
                                let v = match c {
                                    Ok(v) | Err(v) => v,
                                };
                                if !finite(&v) {
                                    report(&mut m, "nonfinite_checked", fvec(&v));
                                }
                            }
                        }
                    }
                    m.cell(pvmon::rng::mix(pi as u64, pvmon::rng::hash_str(cls)));
                    m.count(&format!("class:{}", cls));
                }
            }
            vec![m]
        });
        for mut m in res {
            m.tolerance = Some("none (finiteness)".into());
            m.counters.insert("pairs".into(), pairs.len() as u64);
            m.sample(|| json!({"pair": "Srgb/f64->Lab<D65>/f64", "x": [0.0, 0.0, 0.0], "out": ct::convert(0, types.iter().position(|t| t.name == "Lab<D65>/f64").unwrap(), [0.0, 0.0, 0.0])}));
            report.add(m);
        }
    }
    let mname = "finite_clamp";
    if ctx.enabled(mname) && !ctx.replaying() {
        let mut m = Monitor::new(mname, "clamp / clamp_assign / is_within_bounds of every listed type on its lattice and seeded in-range points: finite, no panic; distinct = (type, class)");
        let mut rng = ctx.rng(mname, 0);
        for (i, t) in types.iter().enumerate() {
            let mut inputs = gen::lattice(t.space);
            for _ in 0..ctx.n(300, 50_000) {
                inputs.push(gen::fill(t.space, &mut rng));
            }
            for x in inputs {
                m.evals(2);
                let r = catch_unwind(|| (ct::clamp(i, x), ct::is_within_bounds(i, x)));
                match r {
                    Err(_) => m.violate(t.name, "panic_clamp", json!({"bits": bits64(&x), "x": fvec(&x)}), json!("panic"), json!("no panic"), ""),
                    Ok(((a, b), _)) => {
                        if !finite(&a) || !finite(&b) {
                            m.violate(t.name, "nonfinite_clamp", json!({"bits": bits64(&x), "x": fvec(&x)}), json!({"clamp": fvec(&a), "clamp_assign": fvec(&b)}), json!("finite"), "");
                        }
                    }
                }
                m.cell(pvmon::rng::mix(i as u64, pvmon::rng::hash_str(degenerate_class(t.space, &x))));
            }
        }
        m.sample(|| json!({"type": types[0].name, "x": [1.0, 0.0, 0.5], "clamp": fvec(&ct::clamp(0, [1.0, 0.0, 0.5]).0)}));
        report.add(m);
    }
    report.finish();
}
