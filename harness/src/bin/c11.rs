//! C11 — hues behave as angles on a circle.
//!
//! Oracle: exact arithmetic. f32 -> f64 is exact and `%` (fmod) on f64 is exact, so the true
//! residue of every f32 angle modulo 360 is known. All five hue types are macro instances and
//! each is driven separately.

use palette::angle::{AngleEq, FromAngle, SignedAngle, UnsignedAngle};
use palette::hues::{Cam16Hue, LabHue, LuvHue, OklabHue, RgbHue};
use pvmon::fbits::*;
use pvmon::report::{fjson, par, Ctx, Monitor, Report};
use pvmon::{json, Rng};

const ULP360_F32: f64 = 3.0517578125e-5; // 2^-15
const ULP360_F64: f64 = 5.684341886080802e-14; // 2^-44

/// distance of d to the nearest multiple of 360 (d given exactly in f64)
#[inline]
fn circ(d: f64) -> f64 {
    let r = d % 360.0;
    let r = r.abs();
    r.min(360.0 - r)
}

struct Local {
    evals: u64,
    max_excess_ulps: f64,
    arg_excess: u32,
    max_congr_ulps: f64,
    arg_congr: u32,
    bad: Vec<(u32, f32, &'static str)>,
}

macro_rules! hue_monitors {
    ($H:ident, $name:expr, $ctx:expr, $report:expr) => {{
        let ctx: &Ctx = $ctx;
        let hname: &str = $name;
        // ---------------- f32 sweep: signed + unsigned normal forms, congruence -----------------
        for (form, signed) in [("signed", true), ("unsigned", false)] {
            let mname = format!("normal_form_{}_f32", form);
            if !ctx.enabled(&mname) {
                continue;
            }
            let mut mon = Monitor::new(
                &mname,
                "every f32 angle |x|<=2^20 (bit pattern) -> normal form; oracle: exact residue mod 360 in f64; \
                 distinct = (hue type, form, sign, exponent, top-6 mantissa bits) cells",
            );
            mon.tolerance = Some("range excess <= 2 ulp of max(ulp x, ulp 360); congruence <= 2 ulp of max(ulp x, ulp result)".into());
            let top: u32 = 0x49800000; // 2^20
            let full = !ctx.quick();
            let replay = ctx.replay_input(&mname, hname);
            let nthreads = if replay.is_some() { 1 } else { ctx.threads };
            let res = par(nthreads, |t| {
                let mut m = mon.like();
                let mut l = Local { evals: 0, max_excess_ulps: 0.0, arg_excess: 0, max_congr_ulps: 0.0, arg_congr: 0, bad: vec![] };
                let mut one = |bits: u32, l: &mut Local| {
                    let x = f32::from_bits(bits);
                    let y: f32 = if signed { $H::new(x).into_degrees() } else { $H::new(x).into_positive_degrees() };
                    let xf = x as f64;
                    let yf = y as f64;
                    let u = ulp32(x).max(ULP360_F32);
                    let excess = if signed { (yf.abs() - 180.0).max(0.0) } else { (-yf).max(yf - 360.0).max(0.0) };
                    let congr = circ(yf - xf);
                    l.evals += 1;
                    let e = excess / u;
                    // congruent "to within the rounding error of the stored angle": the unit is the grid of the input or of the
                    // result, whichever is coarser (a small angle must come back exactly; -1e-5 can only come back as 360)
                    let c = congr / ulp32(x).max(ulp32(y));
                    if !(e <= l.max_excess_ulps) {
                        l.max_excess_ulps = e;
                        l.arg_excess = bits;
                    }
                    if !(c <= l.max_congr_ulps) {
                        l.max_congr_ulps = c;
                        l.arg_congr = bits;
                    }
                    if !(e <= 2.0) && l.bad.len() < 4 {
                        l.bad.push((bits, y, "range"));
                    }
                    if !(c <= 2.0) && l.bad.len() < 4 {
                        l.bad.push((bits, y, "congruence"));
                    }
                };
                if let Some(inp) = &replay {
                    let bits = u32::from_str_radix(inp["bits"].as_str().unwrap().trim_start_matches("0x"), 16).unwrap();
                    one(bits, &mut l);
                } else {
                    for sign in [0u32, 0x80000000] {
                        if full {
                            let per = (top as u64 + 1 + ctx.threads as u64 - 1) / ctx.threads as u64;
                            let lo = per * t as u64;
                            let hi = (lo + per).min(top as u64 + 1);
                            let mut b = lo;
                            while b < hi {
                                one(b as u32 | sign, &mut l);
                                b += 1;
                            }
                        } else {
                            // stride sweep (offset by seed) ...
                            let stride = 64u64 * ctx.threads as u64;
                            let mut b = (t as u64) * 64 + (ctx.seed % 64);
                            while b <= top as u64 {
                                one(b as u32 | sign, &mut l);
                                b += stride;
                            }
                        }
                    }
                    if !full {
                        // ... plus every pattern within 2^10 of each multiple of 180 up to 2^20
                        let mut k = t as i64;
                        while (k as f64) * 180.0 <= 1048576.0 {
                            let c = (k as f32) * 180.0;
                            let cb = c.to_bits();
                            for d in -1024i64..=1024 {
                                let b = cb as i64 + d;
                                if b < 0 || b > top as i64 {
                                    continue;
                                }
                                one(b as u32, &mut l);
                                one(b as u32 | 0x80000000, &mut l);
                            }
                            k += ctx.threads as i64;
                        }
                    }
                }
                m.evals(l.evals);
                m.dev(l.max_excess_ulps, || json!({"what":"range excess (ulps)","bits":format!("{:#010x}", l.arg_excess),"x":f32::from_bits(l.arg_excess)}));
                m.counters.insert("max:congruence_milliulps".into(), (l.max_congr_ulps * 1000.0) as u64);
                m.counters.insert("max:excess_milliulps".into(), (l.max_excess_ulps * 1000.0) as u64);
                for (bits, y, class) in &l.bad {
                    m.violate(
                        hname,
                        &format!("{}_{}", form, class),
                        json!({"bits": format!("{:#010x}", bits), "x": fjson(f32::from_bits(*bits) as f64)}),
                        fjson(*y as f64),
                        json!("normal form within range and congruent to x mod 360 (2 ulp)"),
                        "",
                    );
                }
                vec![m]
            });
            for mut m in res {
                // distinct cells: computed from what was swept (exponent x sign x form), cheap to recount
                if replay.is_none() {
                    for e in 0..=0x93u32 {
                        for s in 0..2u32 {
                            for mant in 0..64u32 {
                                if full || mant % 1 == 0 {
                                    m.cell(pvmon::rng::mix(pvmon::rng::hash_str(hname) ^ (signed as u64), ((e << 8) | (s << 7) | mant) as u64));
                                }
                            }
                        }
                    }
                    if full {
                        m.exhaustive = Some("all f32 bit patterns with |x| <= 2^20, both signs".into());
                    }
                }
                m.sample(|| json!({"hue": hname, "form": form, "x": 900.00006f32, "normal": if signed { $H::new(900.00006f32).into_degrees() } else { $H::new(900.00006f32).into_positive_degrees() }}));
                $report.add(m);
            }
        }

        // ---------------- f64 normal forms (sampled) -----------------
        if ctx.enabled("normal_form_f64") {
            let mut m = Monitor::new(
                "normal_form_f64",
                "seeded f64 angles of magnitudes 1e-300..2^20 plus neighbourhoods of multiples of 180; exact residue oracle; \
                 distinct = (hue type, binade, form)",
            );
            m.tolerance = Some("2 ulp of max(ulp x, ulp 360)".into());
            let mut rng = ctx.rng(&format!("f64{}", hname), 0);
            let n = ctx.n(400_000, 20_000_000);
            let mut inputs: Vec<f64> = Vec::new();
            if let Some(inp) = ctx.replay_input("normal_form_f64", hname) {
                inputs.push(f64::from_bits(u64::from_str_radix(inp["bits"].as_str().unwrap().trim_start_matches("0x"), 16).unwrap()));
            } else if !ctx.replaying() {
                for k in -5830..=5830 {
                    let c = k as f64 * 180.0;
                    for d in -3..=3 {
                        inputs.push(step64(c, d));
                    }
                }
                for _ in 0..n {
                    let mag = match rng.below(4) {
                        0 => rng.range(0.0, 1048576.0),
                        1 => rng.range(0.0, 720.0),
                        2 => (rng.range(-690.0, 13.86)).exp(),
                        _ => (rng.below(2913) as f64) * 360.0 + rng.range(-1e-6, 1e-6),
                    };
                    let x = if rng.chance(0.5) { -mag } else { mag };
                    if x.abs() <= 1048576.0 {
                        inputs.push(x);
                    }
                }
            }
            for x in inputs {
                let s: f64 = $H::new(x).into_degrees();
                let p: f64 = $H::new(x).into_positive_degrees();
                let u = ulp64(x).max(ULP360_F64);
                let es = (s.abs() - 180.0).max(0.0) / u;
                let ep = (-p).max(p - 360.0).max(0.0) / u;
                // congruence: s - x is not always exact in f64; use an error-free difference
                let cs = circ_f64_diff(s, x) / ulp64(x).max(ulp64(s));
                let cp = circ_f64_diff(p, x) / ulp64(x).max(ulp64(p));
                m.evals(2);
                let worst = es.max(ep).max(cs).max(cp);
                m.dev(worst, || json!({"x": x, "signed": s, "unsigned": p, "hue": hname}));
                // the signed normal form read out through `From<Hue<f64>>`: as f64 it is into_degrees itself, as f32 it is that
                // value rounded to f32 (congruence within one f32 rounding of the normal form, not of the stored angle)
                let g: f64 = $H::new(x).into();
                let f: f32 = $H::new(x).into();
                m.evals(2);
                if g.to_bits() != s.to_bits() || !(((f as f64) - s).abs() <= 1.01 * ulp32(s as f32) as f64) {
                    m.violate(hname, "f64_from_hue_for_float", json!({"bits": format!("{:#018x}", x.to_bits()), "x": fjson(x)}), json!({"as_f32": fjson(f as f64), "as_f64": fjson(g)}), json!({"signed": fjson(s)}), "");
                }
                let (_, ex) = frexp_exp(x);
                m.cell(pvmon::rng::mix(pvmon::rng::hash_str(hname), (ex + 2000) as u64));
                if !(worst <= 2.0) {
                    m.violate(
                        hname,
                        if es > 2.0 || ep > 2.0 { "f64_range" } else { "f64_congruence" },
                        json!({"bits": format!("{:#018x}", x.to_bits()), "x": fjson(x)}),
                        json!({"signed": fjson(s), "unsigned": fjson(p)}),
                        json!("within [-180,180] / [0,360] and congruent mod 360 within 2 ulp"),
                        "",
                    );
                }
            }
            m.sample(|| json!({"hue": hname, "x": 540.0, "signed": $H::new(540.0f64).into_degrees(), "unsigned": $H::new(540.0f64).into_positive_degrees()}));
            $report.add(m);
        }

        // ---------------- equality across whole turns -----------------
        if ctx.enabled("equality_turns") {
            let mut m = Monitor::new(
                "equality_turns",
                "a (integers and dyadic fractions) vs a+360k with both exactly representable: hues must compare equal; \
                 pairs further apart than rounding mod 360 must compare unequal; distinct = (hue type, a, k) hashed",
            );
            m.tolerance = Some("exact (bool)".into());
            let amax: i64 = if ctx.quick() { 4000 } else { 100_000 };
            let kmax: i64 = if ctx.quick() { 40 } else { 100 };
            let replay = ctx.replay_input("equality_turns", hname);
            let mut check32 = |m: &mut Monitor, a: f32, b: f32, expect_eq: bool, class: &str| {
                let eq = $H::new(a) == $H::new(b);
                let eq2 = $H::new(b) == $H::new(a);
                let eq3 = $H::new(a) == b;
                m.eval();
                if eq != expect_eq || eq2 != expect_eq || eq3 != expect_eq {
                    m.violate(
                        hname,
                        class,
                        json!({"ty":"f32","a": format!("{:#010x}", a.to_bits()), "b": format!("{:#010x}", b.to_bits()), "a_val": fjson(a as f64), "b_val": fjson(b as f64), "expect_eq": expect_eq}),
                        json!({"a==b": eq, "b==a": eq2, "a==raw b": eq3}),
                        json!(expect_eq),
                        "",
                    );
                }
            };
            let mut check64 = |m: &mut Monitor, a: f64, b: f64, expect_eq: bool, class: &str| {
                let eq = $H::new(a) == $H::new(b);
                let eq2 = $H::new(b) == $H::new(a);
                m.eval();
                if eq != expect_eq || eq2 != expect_eq {
                    m.violate(
                        hname,
                        class,
                        json!({"ty":"f64","a": format!("{:#018x}", a.to_bits()), "b": format!("{:#018x}", b.to_bits()), "a_val": fjson(a), "b_val": fjson(b), "expect_eq": expect_eq}),
                        json!({"a==b": eq, "b==a": eq2}),
                        json!(expect_eq),
                        "",
                    );
                }
            };
            if let Some(inp) = replay {
                let e = inp["expect_eq"].as_bool().unwrap();
                if inp["ty"] == "f32" {
                    let a = f32::from_bits(u32::from_str_radix(inp["a"].as_str().unwrap().trim_start_matches("0x"), 16).unwrap());
                    let b = f32::from_bits(u32::from_str_radix(inp["b"].as_str().unwrap().trim_start_matches("0x"), 16).unwrap());
                    check32(&mut m, a, b, e, "replay");
                } else {
                    let a = f64::from_bits(u64::from_str_radix(inp["a"].as_str().unwrap().trim_start_matches("0x"), 16).unwrap());
                    let b = f64::from_bits(u64::from_str_radix(inp["b"].as_str().unwrap().trim_start_matches("0x"), 16).unwrap());
                    check64(&mut m, a, b, e, "replay");
                }
            } else if !ctx.replaying() {
                let astep = if ctx.quick() { 1 } else { 1 };
                let mut a = -amax;
                while a <= amax {
                    for k in -kmax..=kmax {
                        let b = a + 360 * k;
                        // integers below 2^24 are exact in f32
                        check32(&mut m, a as f32, b as f32, true, "eq_integer_turns_f32");
                        if k % 7 == 0 {
                            check64(&mut m, a as f64, b as f64, true, "eq_integer_turns_f64");
                        }
                    }
                    m.cell(pvmon::rng::mix(pvmon::rng::hash_str(hname), a as u64));
                    a += astep;
                }
                // the named cases of the property
                for (a, b) in [(0.0f32, 360.0f32), (0.0, -360.0), (360.0, -360.0), (180.0, -180.0), (540.0, -180.0), (0.0, 720.0)] {
                    check32(&mut m, a, b, true, "eq_named_f32");
                    check64(&mut m, a as f64, b as f64, true, "eq_named_f64");
                }
                // dyadic fractions a = n/8 in (-360,360), shifted by k turns while exactly representable
                let mut rng = ctx.rng(&format!("eq{}", hname), 0);
                for _ in 0..ctx.n(200_000, 5_000_000) {
                    let a = (rng.below(5760) as f64 - 2880.0) / 8.0;
                    let k = rng.below(400) as f64 - 200.0;
                    let b = a + 360.0 * k;
                    if (b as f32) as f64 == b {
                        check32(&mut m, a as f32, b as f32, true, "eq_dyadic_turns_f32");
                    }
                    check64(&mut m, a, b, true, "eq_dyadic_turns_f64");
                }
                // inequality: differ by clearly more than rounding modulo 360
                for _ in 0..ctx.n(300_000, 10_000_000) {
                    let x = rng.range(-1048576.0, 1048576.0) as f32;
                    let k = (rng.below(200) as f64 - 100.0) * 360.0;
                    let u = ulp32(x).max(ULP360_F32);
                    let delta = u * rng.range(8.0, 64.0) * if rng.chance(0.5) { 1.0 } else { -1.0 };
                    let y = (x as f64 + k + delta) as f32;
                    if y.abs() > 1048576.0 {
                        continue;
                    }
                    let uu = u.max(ulp32(y));
                    if circ(y as f64 - x as f64) > 4.0 * uu {
                        check32(&mut m, x, y, false, "neq_beyond_rounding_f32");
                    }
                    let xd = rng.range(-1048576.0, 1048576.0);
                    let ud = ulp64(xd).max(ULP360_F64);
                    let yd = xd + k + ud * rng.range(8.0, 64.0);
                    if yd.abs() <= 1048576.0 && circ_f64_diff(yd, xd) > 4.0 * ud.max(ulp64(yd)) {
                        check64(&mut m, xd, yd, false, "neq_beyond_rounding_f64");
                    }
                }
                // far apart hues
                for _ in 0..ctx.n(100_000, 2_000_000) {
                    let x = rng.range(-2000.0, 2000.0) as f32;
                    let d = rng.range(0.01, 359.99);
                    let y = (x as f64 + d) as f32;
                    if circ(y as f64 - x as f64) > 1e-3 {
                        check32(&mut m, x, y, false, "neq_far_f32");
                        check64(&mut m, x as f64, y as f64, false, "neq_far_f64");
                    }
                }
            }
            m.sample(|| json!({"hue": hname, "a": 0.0, "b": -360.0, "equal": $H::new(0.0f32) == $H::new(-360.0f32)}));
            m.sample(|| json!({"hue": hname, "a": 180.0, "b": -180.0, "equal": $H::new(180.0f32) == $H::new(-180.0f32)}));
            $report.add(m);
        }

        // ---------------- cartesian round trip + degree/radian accessors -----------------
        if ctx.enabled("cartesian_radians") {
            let mut m = Monitor::new(
                "cartesian_radians",
                "directions theta: into_cartesian -> from_cartesian keeps the direction; vectors (a,b): from_cartesian -> into_cartesian is parallel; \
                 degree/radian accessors agree; distinct = (hue type, float type, octant, clause)",
            );
            m.tolerance = Some("f32: 2e-4 deg / 4e-6 unit vector; f64: 1e-10 deg / 1e-13; accessors 4 ulp".into());
            let mut rng = ctx.rng(&format!("cart{}", hname), 0);
            let n = ctx.n(200_000, 5_000_000);
            let mut thetas: Vec<f64> = Vec::new();
            if let Some(inp) = ctx.replay_input("cartesian_radians", hname) {
                thetas.push(inp["theta"].as_f64().unwrap());
            } else if !ctx.replaying() {
                for k in -16..=16 {
                    for d in [-1e-3, 0.0, 1e-3] {
                        thetas.push(k as f64 * 45.0 + d);
                    }
                }
                for _ in 0..n {
                    thetas.push(rng.range(-720.0, 720.0));
                }
            }
            for th in thetas {
                // f64
                {
                    let h = $H::new(th);
                    let (a, b) = h.into_cartesian();
                    let back = $H::from_cartesian(a, b);
                    let bd: f64 = back.into_raw_degrees();
                    let d = circ(bd - th);
                    let rng_ok = bd >= -1e-9 && bd <= 360.0 + 1e-9;
                    let unit = ((a * a + b * b).sqrt() - 1.0).abs();
                    let ea = (a - th.to_radians().cos()).abs().max((b - th.to_radians().sin()).abs());
                    m.evals(3);
                    m.dev(d, || json!({"theta": th, "back": bd, "ty": "f64", "hue": hname}));
                    if !(d <= 1e-10) || !rng_ok || !(unit <= 1e-13) || !(ea <= 1e-13) {
                        m.violate(hname, "cartesian_roundtrip_f64", json!({"theta": th}), json!({"a": fjson(a), "b": fjson(b), "back": fjson(bd)}), json!("same direction, a=cos, b=sin, back in [0,360]"), "");
                    }
                    // accessors
                    let deg: f64 = h.into_degrees();
                    let rad: f64 = h.into_radians();
                    let pdeg: f64 = h.into_positive_degrees();
                    let prad: f64 = h.into_positive_radians();
                    let rraw: f64 = h.into_raw_radians();
                    let fr: f64 = $H::from_radians(rraw).into_raw_degrees();
                    let tol = |x: f64| 4.0 * ulp64(x).max(1e-300);
                    let bad = (rad - deg.to_radians()).abs() > tol(rad)
                        || (prad - pdeg.to_radians()).abs() > tol(prad)
                        || (rraw - th.to_radians()).abs() > tol(rraw)
                        || (fr - th).abs() > 4.0 * ulp64(th).max(1e-300)
                        || h.into_raw_degrees() != th
                        || h.into_inner() != th
                        || $H::from_degrees(th).into_raw_degrees() != th;
                    m.evals(6);
                    if bad {
                        m.violate(hname, "accessors_f64", json!({"theta": th}), json!({"deg": deg, "rad": rad, "pdeg": pdeg, "prad": prad, "rraw": rraw, "from_radians": fr}), json!("radian accessor == degree accessor * pi/180"), "");
                    }
                }
                // f32
                {
                    let t32 = th as f32;
                    let h = $H::new(t32);
                    let (a, b) = h.into_cartesian();
                    let back = $H::from_cartesian(a, b);
                    let bd: f32 = back.into_raw_degrees();
                    let d = circ(bd as f64 - t32 as f64);
                    let rng_ok = bd >= -1e-4 && bd <= 360.0 + 1e-4;
                    let ea = ((a as f64) - (t32 as f64).to_radians().cos()).abs().max(((b as f64) - (t32 as f64).to_radians().sin()).abs());
                    m.evals(3);
                    if !(d <= 2e-4) || !rng_ok || !(ea <= 4e-6) {
                        m.violate(hname, "cartesian_roundtrip_f32", json!({"theta": th}), json!({"a": fjson(a as f64), "b": fjson(b as f64), "back": fjson(bd as f64)}), json!("same direction, a=cos, b=sin, back in [0,360]"), "");
                    }
                    let deg: f32 = h.into_degrees();
                    let rad: f32 = h.into_radians();
                    let pdeg: f32 = h.into_positive_degrees();
                    let prad: f32 = h.into_positive_radians();
                    let tol = |x: f32| 4.0 * ulp32(x).max(1e-40);
                    let bad = ((rad as f64) - (deg as f64).to_radians()).abs() > tol(rad) || ((prad as f64) - (pdeg as f64).to_radians()).abs() > tol(prad) || h.into_raw_degrees() != t32;
                    m.evals(3);
                    if bad {
                        m.violate(hname, "accessors_f32", json!({"theta": th}), json!({"deg": deg, "rad": rad, "pdeg": pdeg, "prad": prad}), json!("radian accessor == degree accessor * pi/180"), "");
                    }
                    // From<Hue> for float = signed normal form
                    let f: f32 = h.into();
                    let g: f64 = h.into();
                    if f.to_bits() != deg.to_bits() || g != deg as f64 {
                        m.violate(hname, "from_hue_for_float", json!({"theta": th}), json!({"f32": f, "f64": g}), json!(deg), "");
                    }
                }
                // arbitrary vector
                {
                    let r = (rng.range(-20.0, 20.0)).exp2();
                    let (a0, b0) = (r * th.to_radians().cos(), r * th.to_radians().sin());
                    let (a, b) = $H::from_cartesian(a0, b0).into_cartesian();
                    let cross = (a * b0 - b * a0) / r;
                    let dot = (a * a0 + b * b0) / r;
                    m.eval();
                    if !(cross.abs() <= 1e-12) || !(dot > 0.999999) {
                        m.violate(hname, "vector_direction_f64", json!({"theta": th, "a": a0, "b": b0}), json!({"a": a, "b": b}), json!("parallel unit vector"), "");
                    }
                }
                let oct = ((th.rem_euclid(360.0)) / 45.0) as u64;
                m.cell(pvmon::rng::mix(pvmon::rng::hash_str(hname), oct));
            }
            m.sample(|| {
                let (a, b) = $H::new(123.0f64).into_cartesian();
                json!({"hue": hname, "theta": 123.0, "a": a, "b": b, "back": $H::from_cartesian(a, b).into_raw_degrees()})
            });
            $report.add(m);
        }

        // ---------------- u8 hues -----------------
        if ctx.enabled("u8_hue") {
            let mut m = Monitor::new(
                "u8_hue",
                "all 256 u8 hues -> float -> u8; floats k*360/256 +- ulps and seeded angles -> u8 against exact round(frac*256) mod 256; \
                 onto and wrap-around; distinct = (hue type, float type, code)",
            );
            m.tolerance = Some("exact except inside |t - (k+0.5)| < 1e-3 tie band".into());
            let mut seen32 = [false; 256];
            let mut seen64 = [false; 256];
            let expected = |x: f64| -> (u8, bool) {
                let mut r = x % 360.0;
                if r < 0.0 {
                    r += 360.0;
                }
                let t = r / 360.0 * 256.0;
                let frac = t - t.floor();
                let tie = (frac - 0.5).abs() < 1e-3;
                ((t.round() as u64 % 256) as u8, tie)
            };
            let mut xs: Vec<f64> = Vec::new();
            if let Some(inp) = ctx.replay_input("u8_hue", hname) {
                xs.push(inp["x"].as_f64().unwrap());
            } else if !ctx.replaying() {
                for c in 0..=255u8 {
                    let h8 = $H::<u8>::new(c);
                    let f: $H<f32> = h8.into_format();
                    let d: $H<f64> = h8.into_format();
                    let b32: $H<u8> = f.into_format();
                    let b64: $H<u8> = d.into_format();
                    let want = c as f64 * 360.0 / 256.0;
                    m.evals(4);
                    if b32.into_inner() != c || b64.into_inner() != c || (f.into_inner() as f64 - want).abs() > 4e-5 || (d.into_inner() - want).abs() > 1e-12 {
                        m.violate(hname, "u8_roundtrip", json!({"code": c}), json!({"f32": f.into_inner(), "f64": d.into_inner(), "back32": b32.into_inner(), "back64": b64.into_inner()}), json!({"float": want, "back": c}), "");
                    }
                    // u8 equality / From
                    let raw: u8 = h8.into();
                    if raw != c || !(h8 == $H::<u8>::new(c)) || (h8 == $H::<u8>::new(c.wrapping_add(1))) {
                        m.violate(hname, "u8_eq", json!({"code": c}), json!(raw), json!(c), "");
                    }
                    let _ = AngleEq::angle_eq(&c, &c);
                }
                for turn in [-2i32, -1, 0, 1, 3] {
                    for k in 0..=512 {
                        let c = k as f64 * 360.0 / 512.0 + turn as f64 * 360.0;
                        for d in -2..=2 {
                            xs.push(step32(c as f32, d) as f64);
                            xs.push(step64(c, d));
                        }
                    }
                }
                let mut rng = ctx.rng(&format!("u8{}", hname), 0);
                for _ in 0..ctx.n(100_000, 3_000_000) {
                    xs.push(rng.range(-1500.0, 1500.0));
                }
            }
            for x in xs {
                let (e64, tie64) = expected(x);
                let g64: u8 = <u8 as FromAngle<f64>>::from_angle(x);
                let via: u8 = $H::<f64>::new(x).into_format::<u8>().into_inner();
                m.evals(2);
                seen64[g64 as usize] = true;
                let ok = g64 == e64 || (tie64 && (g64 == e64.wrapping_sub(1) || g64 == e64.wrapping_add(1)));
                if !ok || via != g64 {
                    m.violate(hname, "f64_to_u8", json!({"x": x}), json!({"from_angle": g64, "into_format": via}), json!(e64), "");
                }
                let x32 = x as f32;
                let (e32, tie32) = expected(x32 as f64);
                let g32: u8 = <u8 as FromAngle<f32>>::from_angle(x32);
                let via32: u8 = $H::<f32>::new(x32).into_format::<u8>().into_inner();
                seen32[g32 as usize] = true;
                m.evals(2);
                // f32 arithmetic: the normalised fraction carries up to ~2 ulp(360) error
                let t = {
                    let mut r = (x32 as f64) % 360.0;
                    if r < 0.0 {
                        r += 360.0;
                    }
                    r / 360.0 * 256.0
                };
                let near_tie = ((t - t.floor()) - 0.5).abs() < 1e-3 + 256.0 / 360.0 * 4.0 * ulp32(x32).max(ULP360_F32);
                let ok = g32 == e32 || ((tie32 || near_tie) && (g32 == e32.wrapping_sub(1) || g32 == e32.wrapping_add(1)));
                if !ok || via32 != g32 {
                    m.violate(hname, "f32_to_u8", json!({"x": x32}), json!({"from_angle": g32, "into_format": via32}), json!(e32), "");
                }
                m.cell(pvmon::rng::mix(pvmon::rng::hash_str(hname), g64 as u64));
            }
            if !ctx.replaying() {
                let n32 = seen32.iter().filter(|b| **b).count();
                let n64 = seen64.iter().filter(|b| **b).count();
                m.counters.insert("codes_reached_f32".into(), n32 as u64);
                m.counters.insert("codes_reached_f64".into(), n64 as u64);
                m.eval();
                if n32 != 256 || n64 != 256 {
                    m.violate(hname, "u8_not_onto", json!({}), json!({"f32": n32, "f64": n64}), json!(256), "");
                }
            }
            m.sample(|| json!({"hue": hname, "x": 359.9, "u8": <u8 as FromAngle<f32>>::from_angle(359.9f32), "x2": 45.0, "u8_2": <u8 as FromAngle<f32>>::from_angle(45.0f32)}));
            $report.add(m);
        }
    }};
}

fn frexp_exp(x: f64) -> (f64, i32) {
    if x == 0.0 || !x.is_finite() {
        return (x, 0);
    }
    let e = ((x.to_bits() >> 52) & 0x7ff) as i32 - 1022;
    (x, e)
}

/// circular distance of (a - b) to a multiple of 360, robust to the rounding of a - b:
/// both reduced exactly first.
fn circ_f64_diff(a: f64, b: f64) -> f64 {
    let ra = a % 360.0;
    let rb = b % 360.0;
    circ(ra - rb)
}

fn main() {
    let ctx = Ctx::from_args("C11");
    let mut report = Report::new(&ctx);
    let _ = Rng::new(0);
    // the angle traits directly (they back every hue type)
    if ctx.enabled("angle_traits") && !ctx.replaying() {
        let mut m = Monitor::new("angle_traits", "normalize_signed/unsigned_angle and angle_eq on the raw float types agree with the hue accessors; distinct = inputs");
        let mut rng = ctx.rng("angle_traits", 0);
        for i in 0..ctx.n(100_000, 2_000_000) {
            let x = rng.range(-1048576.0, 1048576.0);
            let s = x.normalize_signed_angle();
            let u = x.normalize_unsigned_angle();
            let hs: f64 = RgbHue::new(x).into_degrees();
            let hu: f64 = RgbHue::new(x).into_positive_degrees();
            m.evals(2);
            if s.to_bits() != hs.to_bits() || u.to_bits() != hu.to_bits() || !x.angle_eq(&x) {
                m.violate("f64", "trait_vs_accessor", json!({"x": x}), json!({"s": s, "u": u}), json!({"s": hs, "u": hu}), "");
            }
            let x32 = x as f32;
            let s32 = x32.normalize_signed_angle();
            let hs32: f32 = LabHue::new(x32).into_degrees();
            if s32.to_bits() != hs32.to_bits() {
                m.violate("f32", "trait_vs_accessor", json!({"x": x32}), json!(s32), json!(hs32), "");
            }
            if i < 4096 {
                m.cell(x.to_bits());
            }
        }
        m.sample(|| json!({"x": -190.0, "signed": (-190.0f64).normalize_signed_angle(), "unsigned": (-190.0f64).normalize_unsigned_angle()}));
        report.add(m);
    }
    hue_monitors!(RgbHue, "RgbHue", &ctx, report);
    hue_monitors!(LabHue, "LabHue", &ctx, report);
    hue_monitors!(LuvHue, "LuvHue", &ctx, report);
    hue_monitors!(OklabHue, "OklabHue", &ctx, report);
    hue_monitors!(Cam16Hue, "Cam16Hue", &ctx, report);
    report.finish();
}
