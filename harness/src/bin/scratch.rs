use palette::{Clamp, IsWithinBounds, Srgba};
fn main() {
    let c = Srgba::<f32>::new(0.5, 0.5, 0.5, 2.0);
    println!("is_within_bounds = {:?}", c.is_within_bounds());
    println!("clamp = {:?}", c.clamp());
    let d = Srgba::<f32>::new(0.5, 0.5, 0.5, -1.0);
    println!("is_within_bounds = {:?} clamp = {:?}", d.is_within_bounds(), d.clamp());
}
