use palette::{convert::FromColorUnclamped, Hsl, Hsv};
fn main(){
    let hsv = Hsv::new_srgb(60.0f32, 2e-9f32, 1.0f32);
    let hsl = Hsl::from_color_unclamped(hsv);
    println!("{:?}", hsl);
    let i = pvmon::conv_table::types().iter().position(|t| t.name=="Hsv<Srgb>/f32").unwrap();
    let j = pvmon::conv_table::types().iter().position(|t| t.name=="Hsl<Srgb>/f32").unwrap();
    println!("{:?}", pvmon::conv_table::convert(i,j,[60.0, 2e-9f32 as f64, 1.0]));
    let l = pvmon::gen::lattice(pvmon::conv_table::types()[i].space);
    println!("{}", l.iter().filter(|v| v[2]==1.0 && v[1]>0.0 && v[1]<1e-7).count());
}
