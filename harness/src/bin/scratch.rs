use pvmon::refmodel::ok::*;
use palette::{FromColor, LinSrgb, Okhsl, Okhsv};
fn main(){
    for c in [[0.0,0.0,1.0],[0.0,0.0,0.5],[0.0,1e-9,0.5],[-4e-10,1e-9,0.5],[0.0,0.0,0.1],[1.0,0.0,0.0],[0.5,0.0,0.0],[0.0,0.5,0.0],[0.2,0.5,0.7]] {
        let m = linear_srgb_to_okhsl(c);
        let p = Okhsl::from_color(LinSrgb::new(c[0],c[1],c[2]));
        let mv = linear_srgb_to_okhsv(c);
        let pv = Okhsv::from_color(LinSrgb::new(c[0],c[1],c[2]));
        println!("{:?}\n  model okhsl {:?}\n  palette     [{}, {}, {}]\n  model okhsv {:?}\n  palette     [{}, {}, {}]", c, m, p.hue.into_positive_degrees(), p.saturation, p.lightness, mv, pv.hue.into_positive_degrees(), pv.saturation, pv.value);
    }
}
