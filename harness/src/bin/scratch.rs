use palette::convert::FromColorUnclamped;
use palette::{Okhsl, Okhsv, Srgb};
fn main() {
    // where does Okhsv / Okhsl saturation exceed 1 + 1e-3 for in-gamut colours (f64)?
    let mut buckets = std::collections::BTreeMap::new();
    for r in (0..=255).step_by(1) { for g in (0..=255).step_by(1) { for b in (0..=255).step_by(1) {
        if r != 0 && g != 0 && b != 0 && r != 255 && g != 255 && b != 255 { continue; }
        let c = Srgb::new(r as f64 / 255.0, g as f64 / 255.0, b as f64 / 255.0);
        let h = Okhsv::from_color_unclamped(c);
        let hl = Okhsl::from_color_unclamped(c);
        let ex = (h.saturation - 1.0).max(hl.saturation - 1.0).max(h.value - 1.0);
        if ex > 1e-4 {
            let e = buckets.entry((h.hue.into_positive_degrees() / 2.0) as i32 * 2).or_insert((0u32, 0.0f64, [0, 0, 0]));
            e.0 += 1; if ex > e.1 { e.1 = ex; e.2 = [r, g, b]; }
        }
    }}}
    for (k, v) in buckets { println!("hue {}..{}: n={} max excess {:.3e} at {:?}", k, k + 2, v.0, v.1, v.2); }
}
