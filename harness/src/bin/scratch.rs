use palette::{Lab, Lch, FromColor, white_point::D65, color_difference::Ciede2000};
fn main(){
    let b = ["0x40424c001ac601d0", "0x3ff39d44fd28f481", "0x405fd35585232b9c", "0x40424c03e3cd0100", "0x3ff3a0cc23a8b862", "0x405fd347ee4dfdd2"];
    let v: Vec<f64> = b.iter().map(|s| f64::from_bits(u64::from_str_radix(s.trim_start_matches("0x"),16).unwrap())).collect();
    let la = Lab::<D65,f64>::new(v[0],v[1],v[2]); let lb = Lab::<D65,f64>::new(v[3],v[4],v[5]);
    println!("{:?} {:?}", la, lb);
    let (ca, cb) = (Lch::from_color(la), Lch::from_color(lb));
    println!("{:?} {:?}", ca, cb);
    println!("lab {} lch {} lab(lch) {} model {:?}", la.difference(lb), ca.difference(cb), Lab::from_color(ca).difference(Lab::from_color(cb)), pvmon::refmodel::diff::ciede2000([v[0],v[1],v[2]],[v[3],v[4],v[5]]));
}
