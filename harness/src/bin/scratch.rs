use palette::color_difference::DeltaE;
use palette::white_point::D65;
use palette::Lch;
fn main() {
    let mut n = 0; let mut tot = 0;
    for k in 0..1000 {
        let d = 128.0 * 1e-9 * (1.0 + 0.37 * (k as f64 / 1000.0));
        for c in [64.0f64, 32.0, 128.0 - 2e-7, 1.28e-7, 50.3] {
            let v = Lch::<D65, f64>::new(50.0, c, 40.0).delta_e(Lch::new(50.0, c + d, 40.0));
            tot += 1; if v.is_nan() { n += 1; }
        }
    }
    println!("nan {} of {}", n, tot);
    println!("{}", Lch::<D65, f32>::new(50.0, 50.0, 40.0).delta_e(Lch::new(50.0, 50.001, 40.0)));
    println!("{}", Lch::<D65, f64>::new(50.0, 64.0, 40.0).delta_e(Lch::new(50.0, 64.00000013, 40.0)));
}
