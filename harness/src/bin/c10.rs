//! C10 — colour operators obey their algebra and all their variants agree.
//!
//! Oracle: relations between real calls (by-value vs assigning vs slice vs Alpha-wrapped forms
//! are compared bit for bit) + a small model of the documented semantics (lerp, relative / fixed
//! lighten towards the documented limit, shortest hue arc, hue shifts of the colour schemes).

#![allow(clippy::all)]
use palette::cast::{self, ArrayCast};
use palette::color_theory::*;
use palette::hues::Cam16Hue;
use palette::*;
use pvmon::conv_table::Flt;
use pvmon::report::{fvec, Ctx, Monitor, Report};
use pvmon::{json, Rng};
use std::ops::{Add, AddAssign, Div, DivAssign, Mul, MulAssign, Sub, SubAssign};

trait Fl: Flt + PartialOrd + core::fmt::Debug + Add<Output = Self> + Sub<Output = Self> + Mul<Output = Self> + Div<Output = Self> + 'static {
    const NAME: &'static str;
    const EPS: f64;
}
impl Fl for f32 {
    const NAME: &'static str = "f32";
    const EPS: f64 = 1.2e-7;
}
impl Fl for f64 {
    const NAME: &'static str = "f64";
    const EPS: f64 = 2.3e-16;
}

trait C3<T: Fl>: ArrayCast<Array = [T; 3]> + Clone + 'static {}
impl<T: Fl, X: ArrayCast<Array = [T; 3]> + Clone + 'static> C3<T> for X {}

fn arr<T: Fl, C: C3<T>>(c: &C) -> [f64; 3] {
    let a = cast::into_array(c.clone());
    [a[0].d(), a[1].d(), a[2].d()]
}
fn mk<T: Fl, C: C3<T>>(v: [f64; 3]) -> C {
    cast::from_array([T::f(v[0]), T::f(v[1]), T::f(v[2])])
}
fn same(a: &[f64; 3], b: &[f64; 3]) -> bool {
    (0..3).all(|k| a[k].to_bits() == b[k].to_bits() || (a[k].is_nan() && b[k].is_nan()))
}
fn circ(d: f64) -> f64 {
    let r = (d % 360.0).abs();
    r.min(360.0 - r)
}

/// per-type description: nominal ranges per component (hue: None)
#[derive(Clone, Copy)]
struct Desc {
    name: &'static str,
    ranges: [(f64, f64); 3],
    hue: Option<usize>,
    /// components moved by lighten with their documented [min, max]
    light: &'static [(usize, f64, f64)],
    /// components moved by saturate
    sat: &'static [(usize, f64, f64)],
    hwb: bool,
}

fn gen(d: &Desc, rng: &mut Rng) -> [f64; 3] {
    let mut v = [0.0; 3];
    for k in 0..3 {
        if d.hue == Some(k) {
            v[k] = match rng.below(6) {
                0 => *rng.pick(&[0.0, 180.0, -180.0, 360.0, 90.0, 270.0]),
                1 => rng.range(-720.0, 720.0),
                _ => rng.range(0.0, 360.0),
            };
        } else {
            let (lo, hi) = d.ranges[k];
            v[k] = match rng.below(8) {
                0 => lo,
                1 => hi,
                _ => rng.range(lo, hi),
            };
        }
    }
    if d.hwb && v[1] + v[2] > 1.0 {
        let s = v[1] + v[2];
        v[1] /= s;
        v[2] /= s;
    }
    v
}

const FACTORS: [f64; 13] = [-1.0, -0.5, -0.0, 0.0, 1e-9, 0.25, 0.5, 1.0 - 1e-9, 1.0, 1.0 + 1e-9, 2.0, -2.0, 0.3333333333333333];

struct W<'a> {
    m: &'a mut Monitor,
    inst: String,
}
impl<'a> W<'a> {
    fn bad(&mut self, class: &str, input: pvmon::Value, obs: pvmon::Value, exp: pvmon::Value) {
        self.m.violate(&self.inst, class, input, obs, exp, "");
    }
}

// ------------------------------------------------------------------------------------------
fn mix_suite<T: Fl, C>(m: &mut Monitor, ctx: &Ctx, d: &Desc)
where
    C: C3<T> + Mix<Scalar = T> + MixAssign<Scalar = T>,
    Alpha<C, T>: Mix<Scalar = T> + MixAssign<Scalar = T>,
{
    let inst = format!("{}/{}", d.name, T::NAME);
    let mut rng = ctx.rng(&format!("mix{}", inst), 0);
    let mut w = W { m, inst };
    for q in 0..ctx.n(1500, 150_000) {
        let (a, b) = (gen(d, &mut rng), gen(d, &mut rng));
        let (ca, cb): (C, C) = (mk(a), mk(b));
        let (a, b) = (arr(&ca), arr(&cb));
        let f = if q % 3 == 0 { FACTORS[(q / 3) as usize % FACTORS.len()] } else { rng.range(-0.5, 1.5) };
        let ft = T::f(f);
        let r = arr(&ca.clone().mix(cb.clone(), ft));
        let inp = || json!({"a": fvec(&a), "b": fvec(&b), "factor": f});
        w.m.evals(6);
        // variants
        let mut asg = ca.clone();
        asg.mix_assign(cb.clone(), ft);
        if !same(&arr(&asg), &r) {
            w.bad("mix_assign_differs", inp(), fvec(&arr(&asg)), fvec(&r));
        }
        let (al_a, al_b) = (T::f(rng.unit()), T::f(rng.unit()));
        let wa = Alpha { color: ca.clone(), alpha: al_a };
        let wb = Alpha { color: cb.clone(), alpha: al_b };
        let wr = wa.clone().mix(wb.clone(), ft);
        let mut wasg = wa.clone();
        wasg.mix_assign(wb.clone(), ft);
        if !same(&arr(&wr.color), &r) || !same(&arr(&wasg.color), &r) || wasg.alpha.d().to_bits() != wr.alpha.d().to_bits() {
            w.bad("alpha_mix_color_differs", inp(), json!({"alpha_form": fvec(&arr(&wr.color)), "alpha_assign_form": fvec(&arr(&wasg.color))}), fvec(&r));
        }
        let fc = f.max(0.0).min(1.0);
        let want_alpha = al_a.d() + (al_b.d() - al_a.d()) * T::f(fc).d();
        if !((wr.alpha.d() - want_alpha).abs() <= 4.0 * T::EPS) {
            w.bad("alpha_mix_alpha", inp(), json!(wr.alpha.d()), json!(want_alpha));
        }
        // clamped factor
        let r0 = arr(&ca.clone().mix(cb.clone(), T::f(0.0)));
        let r1 = arr(&ca.clone().mix(cb.clone(), T::f(1.0)));
        if f <= 0.0 && !same(&r, &r0) {
            w.bad("factor_below_zero_not_nearest_end", inp(), fvec(&r), fvec(&r0));
        }
        if f >= 1.0 && !same(&r, &r1) {
            w.bad("factor_above_one_not_nearest_end", inp(), fvec(&r), fvec(&r1));
        }
        for k in 0..3 {
            let scale = a[k].abs().max(b[k].abs()).max(1e-30);
            let tol = 4.0 * T::EPS * scale.max(if d.hue == Some(k) { 360.0 } else { 0.0 });
            if d.hue == Some(k) {
                if !(circ(r0[k] - a[k]) <= tol) {
                    w.bad("mix_factor_zero_not_first", inp(), fvec(&r0), fvec(&a));
                }
                if !(circ(r1[k] - b[k]) <= tol) {
                    w.bad("mix_factor_one_not_second", inp(), fvec(&r1), fvec(&b));
                }
                // shorter way round: the result lies on the shorter arc between the two hues
                let short = circ(b[k] - a[k]);
                if (short - 180.0).abs() > 1e-6 && !(circ(r[k] - a[k]) + circ(b[k] - r[k]) <= short + 64.0 * tol) {
                    w.bad("mix_hue_not_on_shorter_arc", inp(), fvec(&r), json!({"a_hue": a[k], "b_hue": b[k], "shorter_arc": short}));
                }
                if (short - 180.0).abs() > 1e-6 && !((circ(r[k] - a[k]) - fc * short).abs() <= 64.0 * tol) {
                    w.bad("mix_hue_fraction", inp(), fvec(&r), json!({"expected_distance_from_a": fc * short}));
                }
            } else {
                if !((r0[k] - a[k]).abs() <= tol) {
                    w.bad("mix_factor_zero_not_first", inp(), fvec(&r0), fvec(&a));
                }
                if !((r1[k] - b[k]).abs() <= tol) {
                    w.bad("mix_factor_one_not_second", inp(), fvec(&r1), fvec(&b));
                }
                let (lo, hi) = (a[k].min(b[k]), a[k].max(b[k]));
                if !(r[k] >= lo - tol && r[k] <= hi + tol) {
                    w.bad("mix_not_between_inputs", inp(), fvec(&r), json!({"lo": lo, "hi": hi, "component": k}));
                }
                let want = a[k] + (b[k] - a[k]) * fc;
                if !((r[k] - want).abs() <= 8.0 * tol) {
                    w.bad("mix_not_lerp", inp(), fvec(&r), json!({"component": k, "lerp": want}));
                }
            }
        }
        if q < 64 {
            w.m.cell(pvmon::rng::mix(pvmon::rng::hash_str(&w.inst), q));
        }
    }
}

// ------------------------------------------------------------------------------------------
macro_rules! increase_suite {
    ($fname:ident, $Tr:ident, $TrA:ident, $De:ident, $DeA:ident, $inc:ident, $inc_fixed:ident, $inc_a:ident, $inc_fixed_a:ident, $dec:ident, $dec_fixed:ident, $dec_a:ident, $dec_fixed_a:ident, $which:ident, $label:expr, $alpha_assign:expr) => {
        fn $fname<T: Fl, C>(m: &mut Monitor, ctx: &Ctx, d: &Desc)
        where
            C: C3<T> + $Tr<Scalar = T> + $TrA<Scalar = T> + $De<Scalar = T> + $DeA<Scalar = T>,
            Alpha<C, T>: $Tr<Scalar = T> + $TrA<Scalar = T> + $De<Scalar = T> + $DeA<Scalar = T>,
            [C]: $TrA<Scalar = T> + $DeA<Scalar = T>,
            [Alpha<C, T>]: $TrA<Scalar = T>,
        {
            let inst = format!("{}/{}", d.name, T::NAME);
            let mut rng = ctx.rng(&format!("{}{}", $label, inst), 0);
            let mut w = W { m, inst };
            for q in 0..ctx.n(1200, 120_000) {
                let a0 = gen(d, &mut rng);
                let ca: C = mk(a0);
                let a = arr(&ca);
                let f = if q % 3 == 0 { FACTORS[(q / 3) as usize % FACTORS.len()] } else { rng.range(-1.0, 1.0) };
                let ft = T::f(f);
                let inp = || json!({"color": fvec(&a), "factor": f});
                let r = arr(&ca.clone().$inc(ft));
                let rf = arr(&ca.clone().$inc_fixed(ft));
                w.m.evals(8);
                // variants: assigning, negated darken/desaturate, Alpha-wrapped, slice
                let mut x = ca.clone();
                x.$inc_a(ft);
                let mut xf = ca.clone();
                xf.$inc_fixed_a(ft);
                if !same(&arr(&x), &r) || !same(&arr(&xf), &rf) {
                    w.bad(concat!($label, "_assign_differs"), inp(), json!({"relative": fvec(&arr(&x)), "fixed": fvec(&arr(&xf))}), json!({"relative": fvec(&r), "fixed": fvec(&rf)}));
                }
                let nft = T::f(-f);
                let dk = arr(&ca.clone().$dec(nft));
                let dkf = arr(&ca.clone().$dec_fixed(nft));
                let mut y = ca.clone();
                y.$dec_a(nft);
                let mut yf = ca.clone();
                yf.$dec_fixed_a(nft);
                if !same(&dk, &r) || !same(&dkf, &rf) || !same(&arr(&y), &r) || !same(&arr(&yf), &rf) {
                    w.bad(concat!($label, "_negated_counterpart_differs"), inp(), json!({"by_value": fvec(&dk), "fixed": fvec(&dkf), "assign": fvec(&arr(&y)), "fixed_assign": fvec(&arr(&yf))}), json!({"relative": fvec(&r), "fixed": fvec(&rf)}));
                }
                let al = T::f(0.625);
                let wa = Alpha { color: ca.clone(), alpha: al };
                let wr = wa.clone().$inc(ft);
                let wrf = wa.clone().$inc_fixed(ft);
                if !same(&arr(&wr.color), &r) || !same(&arr(&wrf.color), &rf) || wr.alpha.d() != 0.625 || wrf.alpha.d() != 0.625 {
                    w.bad(concat!($label, "_alpha_form_differs"), inp(), json!({"relative": fvec(&arr(&wr.color)), "fixed": fvec(&arr(&wrf.color)), "alpha": wr.alpha.d()}), json!({"relative": fvec(&r), "fixed": fvec(&rf), "alpha": 0.625}));
                }
                // every other Alpha-wrapped form: assigning, fixed assigning, the negated counterparts, a slice of Alpha colours
                {
                    let mut v1 = wa.clone();
                    v1.$inc_a(ft);
                    let mut v2 = wa.clone();
                    v2.$inc_fixed_a(ft);
                    let v3 = wa.clone().$dec(nft);
                    let v4 = wa.clone().$dec_fixed(nft);
                    let mut v5 = wa.clone();
                    v5.$dec_a(nft);
                    let mut v6 = wa.clone();
                    v6.$dec_fixed_a(nft);
                    let mut vs: Vec<Alpha<C, T>> = vec![wa.clone(), wa.clone()];
                    vs[..].$inc_fixed_a(ft);
                    let rel = [&v1, &v3, &v5];
                    let fix = [&v2, &v4, &v6, &vs[0], &vs[1]];
                    w.m.evals(7);
                    if !rel.iter().all(|x| same(&arr(&x.color), &r) && x.alpha.d() == 0.625) || !fix.iter().all(|x| same(&arr(&x.color), &rf) && x.alpha.d() == 0.625) {
                        w.bad(concat!($label, "_alpha_assign_or_negated_form_differs"), inp(), json!({"assign": fvec(&arr(&v1.color)), "fixed_assign": fvec(&arr(&v2.color)), "dec": fvec(&arr(&v3.color)), "dec_fixed": fvec(&arr(&v4.color)), "dec_assign": fvec(&arr(&v5.color)), "dec_fixed_assign": fvec(&arr(&v6.color)), "slice_fixed_assign": fvec(&arr(&vs[0].color))}), json!({"relative": fvec(&r), "fixed": fvec(&rf), "alpha": 0.625}));
                    }
                }
                for len in [0usize, 1, 7] {
                    let mut sl: Vec<C> = (0..len).map(|_| ca.clone()).collect();
                    let mut slf = sl.clone();
                    let mut sd = sl.clone();
                    let mut sdf = sl.clone();
                    sl[..].$inc_a(ft);
                    slf[..].$inc_fixed_a(ft);
                    sd[..].$dec_a(nft);
                    sdf[..].$dec_fixed_a(nft);
                    if !sl.iter().all(|c| same(&arr(c), &r)) || !slf.iter().all(|c| same(&arr(c), &rf)) || !sd.iter().all(|c| same(&arr(c), &r)) || !sdf.iter().all(|c| same(&arr(c), &rf)) {
                        w.bad(concat!($label, "_slice_form_differs"), inp(), json!({"len": len, "relative": sl.first().map(|c| fvec(&arr(c))), "fixed": slf.first().map(|c| fvec(&arr(c))), "dec": sd.first().map(|c| fvec(&arr(c))), "dec_fixed": sdf.first().map(|c| fvec(&arr(c)))}), json!({"relative": fvec(&r), "fixed": fvec(&rf)}));
                    }
                }
                // semantics on the affected components
                if !d.hwb {
                    let affected: Vec<usize> = d.$which.iter().map(|x| x.0).collect();
                    for k in 0..3 {
                        if !affected.contains(&k) && (r[k].to_bits() != a[k].to_bits() || rf[k].to_bits() != a[k].to_bits()) {
                            w.bad(concat!($label, "_touches_other_component"), inp(), json!({"relative": fvec(&r), "fixed": fvec(&rf)}), fvec(&a));
                        }
                    }
                    for &(k, lo, hi) in d.$which.iter() {
                        let tol = 8.0 * T::EPS * hi.abs().max(a[k].abs());
                        let room = if f >= 0.0 { (hi - a[k]).max(0.0) } else { a[k].max(0.0) };
                        let want = (a[k] + room * f).max(lo).min(hi);
                        let wantf = (a[k] + hi * f).max(lo).min(hi);
                        if !((r[k] - want).abs() <= tol) || !((rf[k] - wantf).abs() <= tol) {
                            w.bad(concat!($label, "_value"), inp(), json!({"relative": r[k], "fixed": rf[k], "component": k}), json!({"relative": want, "fixed": wantf}));
                        }
                        if !(r[k] >= lo && r[k] <= hi && rf[k] >= lo && rf[k] <= hi) {
                            w.bad(concat!($label, "_leaves_range"), inp(), json!({"relative": r[k], "fixed": rf[k]}), json!({"lo": lo, "hi": hi}));
                        }
                        if f == 1.0 && a[k] <= hi && r[k] != (hi as f64) && (r[k] - hi).abs() > tol {
                            w.bad(concat!($label, "_factor_one_does_not_reach_limit"), inp(), json!(r[k]), json!(hi));
                        }
                    }
                }
                // monotone in the factor (ladder of 33 steps) for in-range colours
                if q % 16 == 0 {
                    let mut prev: Option<[f64; 3]> = None;
                    for s in 0..=32 {
                        let fs = -1.0 + s as f64 / 16.0;
                        let v = arr(&ca.clone().$inc(T::f(fs)));
                        if let Some(p) = prev {
                            for &(k, lo, hi) in d.$which.iter() {
                                let tol = 8.0 * T::EPS * hi.abs().max(1.0);
                                let up = if d.hwb && k == 2 { p[k] - v[k] } else { v[k] - p[k] };
                                if a[k] >= lo && a[k] <= hi && !(up >= -tol) {
                                    w.bad(concat!($label, "_not_monotone_in_factor"), inp(), json!({"at_factor": fs, "value": v[k], "previous": p[k], "component": k}), json!("moves monotonically towards the limit"));
                                }
                            }
                        }
                        prev = Some(v);
                    }
                    w.m.count("ladders");
                }
                if q < 64 {
                    w.m.cell(pvmon::rng::mix(pvmon::rng::hash_str(&w.inst), q ^ pvmon::rng::hash_str($label)));
                }
            }
        }
    };
}
increase_suite!(lighten_suite, Lighten, LightenAssign, Darken, DarkenAssign, lighten, lighten_fixed, lighten_assign, lighten_fixed_assign, darken, darken_fixed, darken_assign, darken_fixed_assign, light, "lighten", true);
increase_suite!(saturate_suite, Saturate, SaturateAssign, Desaturate, DesaturateAssign, saturate, saturate_fixed, saturate_assign, saturate_fixed_assign, desaturate, desaturate_fixed, desaturate_assign, desaturate_fixed_assign, sat, "saturate", false);

// ------------------------------------------------------------------------------------------
fn hue_suite<T: Fl, C, H>(m: &mut Monitor, ctx: &Ctx, d: &Desc, hue_of: fn(T) -> H, hue_val: fn(H) -> T)
where
    H: Clone,
    C: C3<T> + ShiftHue<Scalar = T> + ShiftHueAssign<Scalar = T> + WithHue<H> + SetHue<H> + GetHue<Hue = H> + Complementary + SplitComplementary + Analogous + Triadic + Tetradic,
    Alpha<C, T>: ShiftHue<Scalar = T> + WithHue<H> + SetHue<H> + GetHue<Hue = H> + Complementary + Tetradic,
    [C]: ShiftHueAssign<Scalar = T> + SetHue<H>,
{
    let inst = format!("{}/{}", d.name, T::NAME);
    let hk = d.hue.unwrap();
    let mut rng = ctx.rng(&format!("hue{}", inst), 0);
    let mut w = W { m, inst };
    for q in 0..ctx.n(1200, 120_000) {
        let ca: C = mk(gen(d, &mut rng));
        let a = arr(&ca);
        let amt = match q % 5 {
            0 => *rng.pick(&[0.0, 180.0, -180.0, 360.0, 90.0, 1e-9, -0.0]),
            _ => rng.range(-720.0, 720.0),
        };
        let at = T::f(amt);
        let inp = || json!({"color": fvec(&a), "amount": amt});
        w.m.evals(7);
        let r = arr(&ca.clone().shift_hue(at));
        let mut x = ca.clone();
        x.shift_hue_assign(at);
        let wr = Alpha { color: ca.clone(), alpha: T::f(0.25) }.shift_hue(at);
        let mut sl: Vec<C> = vec![ca.clone(); 3];
        sl[..].shift_hue_assign(at);
        if !same(&arr(&x), &r) || !same(&arr(&wr.color), &r) || wr.alpha.d() != 0.25 || !sl.iter().all(|c| same(&arr(c), &r)) {
            w.bad("shift_hue_variants_differ", inp(), json!({"assign": fvec(&arr(&x)), "alpha": fvec(&arr(&wr.color)), "slice": fvec(&arr(&sl[0]))}), fvec(&r));
        }
        for k in 0..3 {
            if k != hk && r[k].to_bits() != a[k].to_bits() {
                w.bad("shift_hue_touches_other_component", inp(), fvec(&r), fvec(&a));
            }
        }
        let want = (a[hk] as f64) + at.d();
        if !((r[hk] - want).abs() <= 4.0 * T::EPS * want.abs().max(360.0)) {
            w.bad("shift_hue_value", inp(), json!(r[hk]), json!(want));
        }
        // with_hue / set_hue / get_hue
        let nh = T::f(rng.range(-400.0, 400.0));
        let wh = arr(&ca.clone().with_hue(hue_of(nh)));
        let mut sh = ca.clone();
        sh.set_hue(hue_of(nh));
        let wah = Alpha { color: ca.clone(), alpha: T::f(0.25) }.with_hue(hue_of(nh));
        let mut wsh = Alpha { color: ca.clone(), alpha: T::f(0.25) };
        wsh.set_hue(hue_of(nh));
        let mut sl2: Vec<C> = vec![ca.clone(); 2];
        sl2[..].set_hue(hue_of(nh));
        let mut want_set = a;
        want_set[hk] = nh.d();
        if !same(&wh, &want_set) || !same(&arr(&sh), &want_set) || !same(&arr(&wah.color), &want_set) || !same(&arr(&wsh.color), &want_set) || !sl2.iter().all(|c| same(&arr(c), &want_set)) || wah.alpha.d() != 0.25 {
            w.bad("with_or_set_hue_variants", inp(), json!({"with": fvec(&wh), "set": fvec(&arr(&sh)), "alpha_with": fvec(&arr(&wah.color)), "slice": fvec(&arr(&sl2[0]))}), fvec(&want_set));
        }
        let gh = hue_val(ca.get_hue()).d();
        let gah = hue_val(Alpha { color: ca.clone(), alpha: T::f(0.25) }.get_hue()).d();
        if gh.to_bits() != a[hk].to_bits() || gah.to_bits() != a[hk].to_bits() {
            w.bad("get_hue", inp(), json!({"bare": gh, "alpha": gah}), json!(a[hk]));
        }
        // colour schemes = fixed hue shifts
        let sh = |deg: f64| arr(&ca.clone().shift_hue(T::f(deg)));
        let comp = arr(&ca.clone().complementary());
        let (s1, s2) = ca.clone().split_complementary();
        let (a1, a2) = ca.clone().analogous();
        let (b1, b2) = ca.clone().analogous_secondary();
        let (t1, t2) = ca.clone().triadic();
        let (q1, q2, q3) = ca.clone().tetradic();
        let wcomp = Alpha { color: ca.clone(), alpha: T::f(0.25) }.complementary();
        let (w1, w2, w3) = Alpha { color: ca.clone(), alpha: T::f(0.25) }.tetradic();
        w.m.evals(6);
        let ok = same(&comp, &sh(180.0))
            && same(&arr(&s1), &sh(150.0))
            && same(&arr(&s2), &sh(210.0))
            && same(&arr(&a1), &sh(330.0))
            && same(&arr(&a2), &sh(30.0))
            && same(&arr(&b1), &sh(300.0))
            && same(&arr(&b2), &sh(60.0))
            && same(&arr(&t1), &sh(120.0))
            && same(&arr(&t2), &sh(240.0))
            && same(&arr(&q1), &sh(90.0))
            && same(&arr(&q2), &sh(180.0))
            && same(&arr(&q3), &sh(270.0))
            && same(&arr(&wcomp.color), &comp)
            && same(&arr(&w1.color), &sh(90.0))
            && same(&arr(&w2.color), &sh(180.0))
            && same(&arr(&w3.color), &sh(270.0))
            && wcomp.alpha.d() == 0.25
            && w3.alpha.d() == 0.25;
        if !ok {
            w.bad("color_scheme_not_documented_hue_shift", inp(), json!({"complementary": fvec(&comp), "triadic": [fvec(&arr(&t1)), fvec(&arr(&t2))], "tetradic": [fvec(&arr(&q1)), fvec(&arr(&q2)), fvec(&arr(&q3))]}), json!("hue shifted by 180 / 150,210 / 330,30 / 300,60 / 120,240 / 90,180,270"));
        }
        if q < 64 {
            w.m.cell(pvmon::rng::mix(pvmon::rng::hash_str(&w.inst), q ^ 0x4855));
        }
    }
}

// ------------------------------------------------------------------------------------------
fn arith_suite<T: Fl, C>(m: &mut Monitor, ctx: &Ctx, d: &Desc)
where
    C: C3<T> + Add<Output = C> + Sub<Output = C> + Add<T, Output = C> + Sub<T, Output = C> + AddAssign + SubAssign + AddAssign<T> + SubAssign<T>,
    Alpha<C, T>: Add<Output = Alpha<C, T>> + Sub<Output = Alpha<C, T>> + AddAssign + Add<T, Output = Alpha<C, T>>,
{
    let inst = format!("{}/{}", d.name, T::NAME);
    let mut rng = ctx.rng(&format!("arith{}", inst), 0);
    let mut w = W { m, inst };
    for q in 0..ctx.n(800, 80_000) {
        let (ca, cb): (C, C) = (mk(gen(d, &mut rng)), mk(gen(d, &mut rng)));
        let (a, b) = (arr(&ca), arr(&cb));
        let s = T::f(rng.range(-2.0, 2.0));
        let inp = || json!({"a": fvec(&a), "b": fvec(&b), "scalar": s.d()});
        let t = |x: f64| T::f(x);
        let exp = |f: &dyn Fn(T, T) -> T, other: &[f64; 3]| -> [f64; 3] { [f(t(a[0]), t(other[0])).d(), f(t(a[1]), t(other[1])).d(), f(t(a[2]), t(other[2])).d()] };
        let sv = [s.d(); 3];
        w.m.evals(8);
        let add = arr(&(ca.clone() + cb.clone()));
        let sub = arr(&(ca.clone() - cb.clone()));
        let adds = arr(&(ca.clone() + s));
        let subs = arr(&(ca.clone() - s));
        let mut x = ca.clone();
        x += cb.clone();
        let mut y = ca.clone();
        y -= cb.clone();
        let mut xs = ca.clone();
        xs += s;
        let mut ys = ca.clone();
        ys -= s;
        let ok = same(&add, &exp(&|p, q| p + q, &b)) && same(&sub, &exp(&|p, q| p - q, &b)) && same(&adds, &exp(&|p, q| p + q, &sv)) && same(&subs, &exp(&|p, q| p - q, &sv)) && same(&arr(&x), &add) && same(&arr(&y), &sub) && same(&arr(&xs), &adds) && same(&arr(&ys), &subs);
        if !ok {
            w.bad("add_sub_variants", inp(), json!({"add": fvec(&add), "sub": fvec(&sub), "add_scalar": fvec(&adds), "add_assign": fvec(&arr(&x)), "sub_assign": fvec(&arr(&y))}), json!({"add": fvec(&exp(&|p, q| p + q, &b)), "sub": fvec(&exp(&|p, q| p - q, &b))}));
        }
        let (al, bl) = (T::f(0.25), T::f(0.5));
        let wadd = Alpha { color: ca.clone(), alpha: al } + Alpha { color: cb.clone(), alpha: bl };
        let wsub = Alpha { color: ca.clone(), alpha: al } - Alpha { color: cb.clone(), alpha: bl };
        let mut wx = Alpha { color: ca.clone(), alpha: al };
        wx += Alpha { color: cb.clone(), alpha: bl };
        let wadds = Alpha { color: ca.clone(), alpha: al } + s;
        if !same(&arr(&wadd.color), &add) || !same(&arr(&wsub.color), &sub) || !same(&arr(&wx.color), &add) || wadd.alpha.d() != 0.75 || wsub.alpha.d() != -0.25 || !same(&arr(&wadds.color), &adds) || wadds.alpha.d() != (al + s).d() {
            w.bad("alpha_add_sub", inp(), json!({"add": fvec(&arr(&wadd.color)), "alpha": wadd.alpha.d(), "sub": fvec(&arr(&wsub.color))}), json!({"add": fvec(&add), "alpha": 0.75}));
        }
        if q < 32 {
            w.m.cell(pvmon::rng::mix(pvmon::rng::hash_str(&w.inst), q ^ 0x4152));
        }
    }
}

fn muldiv_suite<T: Fl, C>(m: &mut Monitor, ctx: &Ctx, d: &Desc)
where
    C: C3<T> + Mul<Output = C> + Div<Output = C> + Mul<T, Output = C> + Div<T, Output = C> + MulAssign + DivAssign + MulAssign<T> + DivAssign<T>,
    Alpha<C, T>: Mul<Output = Alpha<C, T>> + Div<T, Output = Alpha<C, T>>,
{
    let inst = format!("{}/{}", d.name, T::NAME);
    let mut rng = ctx.rng(&format!("muldiv{}", inst), 0);
    let mut w = W { m, inst };
    for q in 0..ctx.n(800, 80_000) {
        let (ca, cb): (C, C) = (mk(gen(d, &mut rng)), mk(gen(d, &mut rng)));
        let (a, b) = (arr(&ca), arr(&cb));
        let s = T::f(rng.range(0.1, 3.0));
        let inp = || json!({"a": fvec(&a), "b": fvec(&b), "scalar": s.d()});
        let t = |x: f64| T::f(x);
        let exp = |f: &dyn Fn(T, T) -> T, other: &[f64; 3]| -> [f64; 3] { [f(t(a[0]), t(other[0])).d(), f(t(a[1]), t(other[1])).d(), f(t(a[2]), t(other[2])).d()] };
        let sv = [s.d(); 3];
        w.m.evals(8);
        let mul = arr(&(ca.clone() * cb.clone()));
        let div = arr(&(ca.clone() / cb.clone()));
        let muls = arr(&(ca.clone() * s));
        let divs = arr(&(ca.clone() / s));
        let mut x = ca.clone();
        x *= cb.clone();
        let mut y = ca.clone();
        y /= cb.clone();
        let mut xs = ca.clone();
        xs *= s;
        let mut ys = ca.clone();
        ys /= s;
        let ok = same(&mul, &exp(&|p, q| p * q, &b)) && same(&div, &exp(&|p, q| p / q, &b)) && same(&muls, &exp(&|p, q| p * q, &sv)) && same(&divs, &exp(&|p, q| p / q, &sv)) && same(&arr(&x), &mul) && same(&arr(&y), &div) && same(&arr(&xs), &muls) && same(&arr(&ys), &divs);
        if !ok {
            w.bad("mul_div_variants", inp(), json!({"mul": fvec(&mul), "div": fvec(&div), "mul_scalar": fvec(&muls), "mul_assign": fvec(&arr(&x)), "div_assign": fvec(&arr(&y))}), json!({"mul": fvec(&exp(&|p, q| p * q, &b)), "div": fvec(&exp(&|p, q| p / q, &b))}));
        }
        let wmul = Alpha { color: ca.clone(), alpha: T::f(0.5) } * Alpha { color: cb.clone(), alpha: T::f(0.5) };
        let wdivs = Alpha { color: ca.clone(), alpha: T::f(0.5) } / s;
        if !same(&arr(&wmul.color), &mul) || wmul.alpha.d() != 0.25 || !same(&arr(&wdivs.color), &divs) || wdivs.alpha.d() != (T::f(0.5) / s).d() {
            w.bad("alpha_mul_div", inp(), json!({"mul": fvec(&arr(&wmul.color)), "alpha": wmul.alpha.d()}), json!({"mul": fvec(&mul), "alpha": 0.25}));
        }
        if q < 32 {
            w.m.cell(pvmon::rng::mix(pvmon::rng::hash_str(&w.inst), q ^ 0x4d44));
        }
    }
}

// ------------------------------------------------------------------------------------------
type St = palette::encoding::Srgb;
type Lin = palette::encoding::Linear<St>;
type Wp = palette::white_point::D65;

const U: (f64, f64) = (0.0, 1.0);
const HUE: (f64, f64) = (0.0, 360.0);
// ------------------------------------------------------------------------------------------
/// clamp: by-value, assigning, slice and Alpha-wrapped forms on colours whose components are independently far below, just
/// below, inside, just above and far above their ranges (every sign pattern) agree bit for bit
fn clamp_suite<T: Fl, C>(m: &mut Monitor, ctx: &Ctx, d: &Desc)
where
    C: C3<T> + Clamp + ClampAssign,
    Alpha<C, T>: Clamp + ClampAssign + Clone,
    [C]: ClampAssign,
{
    let inst = format!("{}/{}", d.name, T::NAME);
    let mut rng = ctx.rng(&format!("clamp{}", inst), 0);
    let mut w = W { m, inst };
    let n = ctx.n(3000, 300_000);
    for q in 0..n {
        let mut v = [0.0; 3];
        // the first 125 cases enumerate the 5^3 class patterns, the rest are seeded
        let mut pat = q;
        for k in 0..3 {
            let (lo, hi) = if d.hue == Some(k) { (0.0, 360.0) } else { d.ranges[k] };
            let span = hi - lo;
            let class = if q < 125 { let c = pat % 5; pat /= 5; c } else { rng.below(5) };
            v[k] = match class {
                0 => lo - span * rng.range(0.5, 3.0),
                1 => lo - span * 1e-6,
                2 => lo + span * rng.unit(),
                3 => hi + span * 1e-6,
                _ => hi + span * rng.range(0.5, 3.0),
            };
        }
        let ca: C = mk(v);
        let a = arr(&ca);
        let r = arr(&ca.clone().clamp());
        let mut x = ca.clone();
        x.clamp_assign();
        w.m.evals(4);
        let inp = || json!({"color": fvec(&a)});
        if !same(&arr(&x), &r) {
            w.bad("clamp_assign_differs_from_clamp", inp(), fvec(&arr(&x)), fvec(&r));
        }
        for len in [1usize, 5] {
            let mut sl: Vec<C> = (0..len).map(|_| ca.clone()).collect();
            sl[..].clamp_assign();
            if !sl.iter().all(|c| same(&arr(c), &r)) {
                w.bad("clamp_slice_form_differs", inp(), json!({"len": len, "first": fvec(&arr(&sl[0]))}), fvec(&r));
            }
        }
        for al in [-0.5, 0.625, 1.75] {
            let wa = Alpha { color: ca.clone(), alpha: T::f(al) };
            let wr = wa.clone().clamp();
            let mut wx = wa.clone();
            wx.clamp_assign();
            let want_alpha = T::f(al.max(0.0).min(1.0)).d();
            if !same(&arr(&wr.color), &r) || !same(&arr(&wx.color), &r) || wr.alpha.d() != want_alpha || wx.alpha.d() != want_alpha {
                w.bad("clamp_alpha_form_differs", json!({"color": fvec(&a), "alpha": al}), json!({"by_value": fvec(&arr(&wr.color)), "assign": fvec(&arr(&wx.color)), "alpha_by_value": wr.alpha.d(), "alpha_assign": wx.alpha.d()}), json!({"color": fvec(&r), "alpha": want_alpha}));
            }
        }
        if q < 125 {
            w.m.cell(pvmon::rng::mix(pvmon::rng::hash_str(&w.inst), q ^ pvmon::rng::hash_str("clamp")));
        }
    }
}

// ------------------------------------------------------------------------------------------
/// single-channel luma has its own macro invocations for mix, lighten, clamp and the arithmetic operators: the same
/// variant-agreement and semantic checks on its one component
fn luma_suite<T, S>(mm: &mut Monitor, ml: &mut Monitor, mc: &mut Monitor, ma: &mut Monitor, ctx: &Ctx, name: &str)
where
    T: Fl + palette::stimulus::Stimulus + palette::num::Real + palette::num::Zero + palette::num::One + palette::num::Arithmetics + palette::num::Clamp + palette::num::ClampAssign + palette::num::MinMax + palette::num::PartialCmp + palette::bool_mask::HasBoolMask<Mask = bool> + AddAssign + SubAssign + MulAssign + DivAssign,
    S: 'static,
    palette::luma::Luma<S, T>: Clone,
{
    use palette::luma::Luma;
    let inst = format!("{}/{}", name, T::NAME);
    let mut rng = ctx.rng(&format!("luma{}", inst), 0);
    let l = |x: f64| -> Luma<S, T> { Luma::new(T::f(x)) };
    let v = |c: &Luma<S, T>| -> f64 { c.luma.d() };
    let bits = |x: f64| x.to_bits();
    for q in 0..ctx.n(3000, 300_000) {
        let a0 = match q % 6 { 0 => 0.0, 1 => 1.0, _ => rng.unit() };
        let b0 = rng.unit();
        let f = if q % 3 == 0 { FACTORS[(q / 3) as usize % FACTORS.len()] } else { rng.range(-1.0, 2.0) };
        let (ca, cb, ft) = (l(a0), l(b0), T::f(f));
        let (a, b) = (v(&ca), v(&cb));
        let tol = 8.0 * T::EPS;
        // ---- mix
        {
            let r = v(&ca.clone().mix(cb.clone(), ft));
            let fc = T::f(f.max(0.0).min(1.0));
            let want_end = v(&ca.clone().mix(cb.clone(), fc));
            let mut x = ca.clone();
            x.mix_assign(cb.clone(), ft);
            let wa = Alpha { color: ca.clone(), alpha: T::f(0.25) }.mix(Alpha { color: cb.clone(), alpha: T::f(0.75) }, ft);
            mm.evals(4);
            let lerp = a + fc.d() * (b - a);
            if bits(r) != bits(want_end) || bits(v(&x)) != bits(r) || bits(v(&wa.color)) != bits(r) || !((r - lerp).abs() <= tol) || !(r >= a.min(b) - tol && r <= a.max(b) + tol) || !((wa.alpha.d() - (0.25 + fc.d() * 0.5)).abs() <= tol) {
                mm.violate(&inst, "luma_mix", json!({"a": a, "b": b, "factor": f}), json!({"by_value": r, "assign": v(&x), "alpha_form": v(&wa.color), "alpha": wa.alpha.d()}), json!({"lerp": lerp}), "");
            }
        }
        // ---- lighten / darken, relative and fixed
        {
            let r = v(&ca.clone().lighten(ft));
            let rf = v(&ca.clone().lighten_fixed(ft));
            let mut x = ca.clone();
            x.lighten_assign(ft);
            let mut xf = ca.clone();
            xf.lighten_fixed_assign(ft);
            let nft = T::f(-f);
            let dk = v(&ca.clone().darken(nft));
            let dkf = v(&ca.clone().darken_fixed(nft));
            let mut sl: Vec<Luma<S, T>> = vec![ca.clone(); 3];
            sl[..].lighten_assign(ft);
            let mut slf: Vec<Luma<S, T>> = vec![ca.clone(); 3];
            slf[..].lighten_fixed_assign(ft);
            let wa = Alpha { color: ca.clone(), alpha: T::f(0.625) }.lighten(ft);
            ml.evals(8);
            let room = if f >= 0.0 { 1.0 - a } else { a };
            let want = (a + room * f).max(0.0).min(1.0);
            let wantf = (a + f).max(0.0).min(1.0);
            let same_all = bits(v(&x)) == bits(r) && bits(v(&xf)) == bits(rf) && bits(dk) == bits(r) && bits(dkf) == bits(rf) && sl.iter().all(|c| bits(v(c)) == bits(r)) && slf.iter().all(|c| bits(v(c)) == bits(rf)) && bits(v(&wa.color)) == bits(r) && wa.alpha.d() == 0.625;
            if !same_all || !((r - want).abs() <= tol) || !((rf - wantf).abs() <= tol) || !(r >= 0.0 && r <= 1.0 && rf >= 0.0 && rf <= 1.0) {
                ml.violate(&inst, "luma_lighten", json!({"luma": a, "factor": f}), json!({"relative": r, "fixed": rf, "assign": v(&x), "fixed_assign": v(&xf), "darken": dk, "darken_fixed": dkf, "alpha_form": v(&wa.color)}), json!({"relative": want, "fixed": wantf}), "");
            }
        }
        // ---- clamp
        {
            let out = match q % 5 { 0 => -rng.range(0.5, 3.0), 1 => -1e-6, 2 => rng.unit(), 3 => 1.0 + 1e-6, _ => 1.0 + rng.range(0.5, 3.0) };
            let co = l(out);
            let r = v(&co.clone().clamp());
            let mut x = co.clone();
            x.clamp_assign();
            let mut sl: Vec<Luma<S, T>> = vec![co.clone(); 3];
            sl[..].clamp_assign();
            let wa = Alpha { color: co.clone(), alpha: T::f(1.5) }.clamp();
            mc.evals(4);
            let want = T::f(out).d().max(0.0).min(1.0);
            if bits(r) != bits(want) || bits(v(&x)) != bits(r) || !sl.iter().all(|c| bits(v(c)) == bits(r)) || bits(v(&wa.color)) != bits(r) || wa.alpha.d() != 1.0 {
                mc.violate(&inst, "luma_clamp", json!({"luma": out}), json!({"by_value": r, "assign": v(&x), "alpha_form": v(&wa.color), "alpha": wa.alpha.d()}), json!(want), "");
            }
        }
        // ---- arithmetic
        {
            let (ta, tb) = (T::f(a0), T::f(b0.max(0.125)));
            let cb = l(b0.max(0.125));
            let got = [v(&(ca.clone() + cb.clone())), v(&(ca.clone() - cb.clone())), v(&(ca.clone() * cb.clone())), v(&(ca.clone() / cb.clone())), v(&(ca.clone() + tb)), v(&(ca.clone() - tb)), v(&(ca.clone() * tb)), v(&(ca.clone() / tb))];
            let want = [(ta + tb).d(), (ta - tb).d(), (ta * tb).d(), (ta / tb).d(), (ta + tb).d(), (ta - tb).d(), (ta * tb).d(), (ta / tb).d()];
            let mut x = ca.clone();
            x += cb.clone();
            x -= tb;
            x *= cb.clone();
            x /= tb;
            let wantx = (((ta + tb) - tb) * tb / tb).d();
            ma.evals(9);
            if got.map(bits) != want.map(bits) || bits(v(&x)) != bits(wantx) {
                ma.violate(&inst, "luma_arithmetic", json!({"a": a, "b": tb.d()}), json!({"ops": got.to_vec(), "assign_chain": v(&x)}), json!({"ops": want.to_vec(), "assign_chain": wantx}), "");
            }
        }
        if q < 32 {
            for m in [&mut *mm, &mut *ml, &mut *mc, &mut *ma] {
                m.cell(pvmon::rng::mix(pvmon::rng::hash_str(&inst), q));
            }
        }
    }
}

macro_rules! desc {
    ($name:expr, $r:expr, $hue:expr, $light:expr, $sat:expr) => {
        Desc { name: $name, ranges: $r, hue: $hue, light: $light, sat: $sat, hwb: false }
    };
}

fn main() {
    let ctx = Ctx::from_args("C10");
    let mut report = Report::new(&ctx);
    let rgb = desc!("Rgb<Srgb>", [U, U, U], None, &[(0, 0.0, 1.0), (1, 0.0, 1.0), (2, 0.0, 1.0)], &[]);
    let lin = desc!("Rgb<Linear<Srgb>>", [U, U, U], None, &[(0, 0.0, 1.0), (1, 0.0, 1.0), (2, 0.0, 1.0)], &[]);
    let hsl = desc!("Hsl", [HUE, U, U], Some(0), &[(2, 0.0, 1.0)], &[(1, 0.0, 1.0)]);
    let hsv = desc!("Hsv", [HUE, U, U], Some(0), &[(2, 0.0, 1.0)], &[(1, 0.0, 1.0)]);
    let hwb = Desc { name: "Hwb", ranges: [HUE, U, U], hue: Some(0), light: &[(1, 0.0, 1.0), (2, 0.0, 1.0)], sat: &[], hwb: true };
    let lab = desc!("Lab", [(0.0, 100.0), (-128.0, 127.0), (-128.0, 127.0)], None, &[(0, 0.0, 100.0)], &[]);
    let lch = desc!("Lch", [(0.0, 100.0), (0.0, 128.0), HUE], Some(2), &[(0, 0.0, 100.0)], &[(1, 0.0, 128.0)]);
    let luv = desc!("Luv", [(0.0, 100.0), (-84.0, 176.0), (-135.0, 108.0)], None, &[(0, 0.0, 100.0)], &[]);
    let lchuv = desc!("Lchuv", [(0.0, 100.0), (0.0, 180.0), HUE], Some(2), &[(0, 0.0, 100.0)], &[(1, 0.0, 180.0)]);
    let hsluv = desc!("Hsluv", [HUE, (0.0, 100.0), (0.0, 100.0)], Some(0), &[(2, 0.0, 100.0)], &[(1, 0.0, 100.0)]);
    let xyz = desc!("Xyz", [(0.0, 0.95047), (0.0, 1.0), (0.0, 1.08883)], None, &[(0, 0.0, 0.95047), (1, 0.0, 1.0), (2, 0.0, 1.08883)], &[]);
    let xyz50 = desc!("Xyz<D50>", [(0.0, 0.96422), (0.0, 1.0), (0.0, 0.82521)], None, &[(0, 0.0, 0.96422), (1, 0.0, 1.0), (2, 0.0, 0.82521)], &[]);
    let lms = desc!("Lms<VonKries,D65>", [U, U, U], None, &[], &[]);
    let yxy = desc!("Yxy", [U, U, U], None, &[(2, 0.0, 1.0)], &[]);
    let oklab = desc!("Oklab", [U, (-0.4, 0.4), (-0.4, 0.4)], None, &[(0, 0.0, 1.0)], &[]);
    let oklch = desc!("Oklch", [U, (0.0, 0.4), HUE], Some(2), &[(0, 0.0, 1.0)], &[]);
    let okhsl = desc!("Okhsl", [HUE, U, U], Some(0), &[(2, 0.0, 1.0)], &[(1, 0.0, 1.0)]);
    let okhsv = desc!("Okhsv", [HUE, U, U], Some(0), &[(2, 0.0, 1.0)], &[(1, 0.0, 1.0)]);
    let okhwb = Desc { name: "Okhwb", ranges: [HUE, U, U], hue: Some(0), light: &[(1, 0.0, 1.0), (2, 0.0, 1.0)], sat: &[], hwb: true };
    let jab = desc!("Cam16UcsJab", [(0.0, 100.0), (-50.0, 50.0), (-50.0, 50.0)], None, &[(0, 0.0, 100.0)], &[]);
    let jmh = desc!("Cam16UcsJmh", [(0.0, 100.0), (0.0, 50.0), HUE], Some(2), &[(0, 0.0, 100.0)], &[(1, 0.0, 50.0)]);

    let mut mm = Monitor::new("mix", "Mix / MixAssign on bare and Alpha-wrapped colours of every colour type and on PreAlpha<LinSrgb> (f32/f64): factor 0 and 1 give the ends, factors outside [0,1] equal the nearest end bit for bit, each component stays between the inputs and equals the lerp, hues travel the shorter arc by the factor's fraction; assigning and Alpha forms bit-identical to the by-value form; distinct = (type, case)");
    let mut ml = Monitor::new("lighten_darken", "Lighten / Darken (relative and fixed; by value, assigning, slices of length 0/1/7, Alpha-wrapped) for every type that offers them: value equals the documented formula, stays in range, leaves other components bit-identical, factor 1 reaches the limit, monotone over a 33-step factor ladder, darken(x) == lighten(-x) and all variants bit-identical; distinct = (type, case)");
    let mut ms = Monitor::new("saturate_desaturate", "Saturate / Desaturate with the same checks as lighten on the saturation-like component; distinct = (type, case)");
    let mut mh = Monitor::new("hue_ops_and_schemes", "ShiftHue(Assign), WithHue, SetHue, GetHue on bare, Alpha-wrapped and slice forms; complementary, split complementary, analogous (both), triadic and tetradic equal the documented hue shifts; other components bit-identical; distinct = (type, case)");
    let mut ma = Monitor::new("component_arithmetic", "Add / Sub / Mul / Div with colours and scalars, their assigning forms and Alpha-wrapped forms against plain component arithmetic in the same float type, bit for bit; distinct = (type, case)");
    let mut mc = Monitor::new("clamp_variants", "Clamp / ClampAssign on bare colours, slices and Alpha-wrapped colours of every colour type (f32/f64), inputs with each component independently far below, just below, inside, just above and far above its range (all 125 class patterns, then seeded): the assigning, slice and Alpha forms give bit for bit the colour of the by-value form, the alpha is clamped to [0, 1]; distinct = (type, class pattern)");
    for m in [&mut mm, &mut ml, &mut ms, &mut mh, &mut ma, &mut mc] {
        m.tolerance = Some("variant agreement bit-exact; semantic formulas 8 ulp of the component scale".into());
    }
    let only = |n: &str| ctx.enabled(n) && !ctx.replaying();

    macro_rules! for_floats {
        ($body:ident, $($args:tt)*) => { $body!(f32, $($args)*); $body!(f64, $($args)*); };
    }
    macro_rules! mixes {
        ($T:ty, $($C:ty => $d:expr),+) => { $( mix_suite::<$T, $C>(&mut mm, &ctx, &$d); )+ };
    }
    macro_rules! lights {
        ($T:ty, $($C:ty => $d:expr),+) => { $( lighten_suite::<$T, $C>(&mut ml, &ctx, &$d); )+ };
    }
    macro_rules! sats {
        ($T:ty, $($C:ty => $d:expr),+) => { $( saturate_suite::<$T, $C>(&mut ms, &ctx, &$d); )+ };
    }
    macro_rules! clamps {
        ($T:ty, $($C:ty => $d:expr),+) => { $( clamp_suite::<$T, $C>(&mut mc, &ctx, &$d); )+ };
    }
    macro_rules! ariths {
        ($T:ty, $($C:ty => $d:expr),+) => { $( arith_suite::<$T, $C>(&mut ma, &ctx, &$d); )+ };
    }
    macro_rules! muldivs {
        ($T:ty, $($C:ty => $d:expr),+) => { $( muldiv_suite::<$T, $C>(&mut ma, &ctx, &$d); )+ };
    }
    macro_rules! hues {
        ($T:ty, $($C:ty, $H:ident => $d:expr),+) => { $( hue_suite::<$T, $C, $H<$T>>(&mut mh, &ctx, &$d, |x| $H::new(x), |h| h.into_raw_degrees()); )+ };
    }
    macro_rules! all_mix {
        ($T:ty, ) => {
            mixes!($T, rgb::Rgb<St, $T> => rgb, rgb::Rgb<Lin, $T> => lin, Hsl<St, $T> => hsl, Hsv<St, $T> => hsv, Hwb<St, $T> => hwb, Lab<Wp, $T> => lab, Lch<Wp, $T> => lch, Luv<Wp, $T> => luv, Lchuv<Wp, $T> => lchuv, Hsluv<Wp, $T> => hsluv,
                Xyz<Wp, $T> => xyz, Yxy<Wp, $T> => yxy, Oklab<$T> => oklab, Oklch<$T> => oklch, Okhsl<$T> => okhsl, Okhsv<$T> => okhsv, Okhwb<$T> => okhwb, cam16::Cam16UcsJab<$T> => jab, cam16::Cam16UcsJmh<$T> => jmh, palette::lms::VonKriesLms<Wp, $T> => lms);
        };
    }
    macro_rules! all_light {
        ($T:ty, ) => {
            lights!($T, rgb::Rgb<St, $T> => rgb, rgb::Rgb<Lin, $T> => lin, Hsl<St, $T> => hsl, Hsv<St, $T> => hsv, Hwb<St, $T> => hwb, Lab<Wp, $T> => lab, Lch<Wp, $T> => lch, Luv<Wp, $T> => luv, Lchuv<Wp, $T> => lchuv, Hsluv<Wp, $T> => hsluv,
                Yxy<Wp, $T> => yxy, Oklab<$T> => oklab, Oklch<$T> => oklch, Okhsl<$T> => okhsl, Okhsv<$T> => okhsv, Okhwb<$T> => okhwb, cam16::Cam16UcsJab<$T> => jab, cam16::Cam16UcsJmh<$T> => jmh,
                Xyz<Wp, $T> => xyz, Xyz<palette::white_point::D50, $T> => xyz50);
        };
    }
    macro_rules! all_clamp {
        ($T:ty, ) => {
            clamps!($T, rgb::Rgb<St, $T> => rgb, rgb::Rgb<Lin, $T> => lin, Hsl<St, $T> => hsl, Hsv<St, $T> => hsv, Hwb<St, $T> => hwb, Lab<Wp, $T> => lab, Lch<Wp, $T> => lch, Luv<Wp, $T> => luv, Lchuv<Wp, $T> => lchuv, Hsluv<Wp, $T> => hsluv,
                Xyz<Wp, $T> => xyz, Xyz<palette::white_point::D50, $T> => xyz50, Yxy<Wp, $T> => yxy, Oklab<$T> => oklab, Oklch<$T> => oklch, Okhsl<$T> => okhsl, Okhsv<$T> => okhsv, Okhwb<$T> => okhwb, cam16::Cam16UcsJab<$T> => jab, cam16::Cam16UcsJmh<$T> => jmh,
                palette::lms::VonKriesLms<Wp, $T> => lms);
        };
    }
    macro_rules! all_sat {
        ($T:ty, ) => {
            sats!($T, Hsl<St, $T> => hsl, Hsv<St, $T> => hsv, Lch<Wp, $T> => lch, Lchuv<Wp, $T> => lchuv, Hsluv<Wp, $T> => hsluv, Okhsl<$T> => okhsl, Okhsv<$T> => okhsv, cam16::Cam16UcsJmh<$T> => jmh);
        };
    }
    macro_rules! all_hue {
        ($T:ty, ) => {
            hues!($T, Hsl<St, $T>, RgbHue => hsl, Hsv<St, $T>, RgbHue => hsv, Hwb<St, $T>, RgbHue => hwb, Lch<Wp, $T>, LabHue => lch, Lchuv<Wp, $T>, LuvHue => lchuv, Hsluv<Wp, $T>, LuvHue => hsluv,
                Oklch<$T>, OklabHue => oklch, Okhsl<$T>, OklabHue => okhsl, Okhsv<$T>, OklabHue => okhsv, Okhwb<$T>, OklabHue => okhwb, cam16::Cam16UcsJmh<$T>, Cam16Hue => jmh);
        };
    }
    macro_rules! all_arith {
        ($T:ty, ) => {
            ariths!($T, rgb::Rgb<Lin, $T> => lin, Hsl<St, $T> => hsl, Hsv<St, $T> => hsv, Hwb<St, $T> => hwb, Lab<Wp, $T> => lab, Lch<Wp, $T> => lch, Luv<Wp, $T> => luv, Lchuv<Wp, $T> => lchuv, Hsluv<Wp, $T> => hsluv,
                Xyz<Wp, $T> => xyz, Yxy<Wp, $T> => yxy, Oklab<$T> => oklab, Oklch<$T> => oklch, Okhsl<$T> => okhsl, Okhsv<$T> => okhsv, Okhwb<$T> => okhwb, cam16::Cam16UcsJab<$T> => jab, cam16::Cam16UcsJmh<$T> => jmh);
            muldivs!($T, rgb::Rgb<Lin, $T> => lin, Lab<Wp, $T> => lab, Luv<Wp, $T> => luv, Xyz<Wp, $T> => xyz, Yxy<Wp, $T> => yxy, Oklab<$T> => oklab, cam16::Cam16UcsJab<$T> => jab);
        };
    }
    if only("mix") {
        for_floats!(all_mix,);
        // premultiplied colours: the alpha is one more interpolated component
        macro_rules! pre_mix {
            ($T:ty, $name:expr) => {{
                use palette::blend::PreAlpha;
                let mut rng = ctx.rng($name, 0);
                for it in 0..ctx.n(2000, 200_000) {
                    let g = |r: &mut Rng| -> PreAlpha<rgb::Rgb<Lin, $T>> {
                        let a = match r.below(4) { 0 => 0.0, 1 => 1.0, _ => r.unit() } as $T;
                        PreAlpha { color: rgb::Rgb::new(r.unit() as $T * a, r.unit() as $T * a, r.unit() as $T * a), alpha: a }
                    };
                    let (a, b) = (g(&mut rng), g(&mut rng));
                    let f = match it % 8 { 0 => 0.0, 1 => 1.0, 2 => -1.0, 3 => 1.5, 4 => -1e-9, 5 => 1.0 + 1e-6, 6 => 0.5, _ => rng.range(-0.5, 1.5) } as $T;
                    let fc = f.max(0.0).min(1.0);
                    let got = a.mix(b, f);
                    let want = a.mix(b, fc);
                    let mut asg = a;
                    asg.mix_assign(b, f);
                    let arr4 = |c: &PreAlpha<rgb::Rgb<Lin, $T>>| [c.color.red as f64, c.color.green as f64, c.color.blue as f64, c.alpha as f64];
                    let (g4, w4, s4, a4, b4) = (arr4(&got), arr4(&want), arr4(&asg), arr4(&a), arr4(&b));
                    mm.evals(3);
                    let inp = || json!({"a": fvec(&a4), "b": fvec(&b4), "factor": f as f64});
                    if g4.map(f64::to_bits) != w4.map(f64::to_bits) {
                        mm.violate($name, "factor_outside_unit_interval_not_nearest_end", inp(), fvec(&g4), fvec(&w4), "");
                    }
                    if g4.map(f64::to_bits) != s4.map(f64::to_bits) {
                        mm.violate($name, "mix_assign_differs", inp(), fvec(&s4), fvec(&g4), "");
                    }
                    let u = if core::mem::size_of::<$T>() == 4 { 2.4e-7 } else { 4.5e-16 };
                    for k in 0..4 {
                        let (lo, hi) = (a4[k].min(b4[k]), a4[k].max(b4[k]));
                        let lerp = a4[k] + (fc as f64) * (b4[k] - a4[k]);
                        if !(g4[k] >= lo - 4.0 * u && g4[k] <= hi + 4.0 * u) || !((g4[k] - lerp).abs() <= 8.0 * u) {
                            mm.violate($name, "component_not_between_inputs_or_not_the_lerp", inp(), fvec(&g4), json!({"lerp": lerp, "component": k}), "");
                            break;
                        }
                    }
                    mm.cell_s(&format!("{}{}", $name, it % 8));
                }
            }};
        }
        pre_mix!(f32, "PreAlpha<Rgb<Linear<Srgb>>>/f32");
        pre_mix!(f64, "PreAlpha<Rgb<Linear<Srgb>>>/f64");
    }
    if only("lighten_darken") {
        for_floats!(all_light,);
    }
    if only("saturate_desaturate") {
        for_floats!(all_sat,);
    }
    if only("hue_ops_and_schemes") {
        for_floats!(all_hue,);
    }
    if only("component_arithmetic") {
        for_floats!(all_arith,);
    }
    if only("clamp_variants") {
        for_floats!(all_clamp,);
    }
    if !ctx.replaying() && ctx.enabled("mix") && ctx.enabled("lighten_darken") && ctx.enabled("clamp_variants") && ctx.enabled("component_arithmetic") {
        luma_suite::<f32, St>(&mut mm, &mut ml, &mut mc, &mut ma, &ctx, "Luma<Srgb>");
        luma_suite::<f64, St>(&mut mm, &mut ml, &mut mc, &mut ma, &ctx, "Luma<Srgb>");
        luma_suite::<f32, palette::encoding::Linear<palette::white_point::D50>>(&mut mm, &mut ml, &mut mc, &mut ma, &ctx, "Luma<Linear<D50>>");
        luma_suite::<f64, palette::encoding::Linear<palette::white_point::D50>>(&mut mm, &mut ml, &mut mc, &mut ma, &ctx, "Luma<Linear<D50>>");
    }
    mm.sample(|| json!({"type": "Hsl<Srgb,f64>", "a": [350.0, 0.5, 0.5], "b": [10.0, 0.5, 0.5], "factor": 0.5, "mixed": fvec(&arr(&Hsl::<St, f64>::new(350.0, 0.5, 0.5).mix(Hsl::new(10.0, 0.5, 0.5), 0.5)))}));
    ml.sample(|| json!({"type": "Hsl<Srgb,f64>", "color": [120.0, 0.5, 0.4], "lighten(0.5)": fvec(&arr(&Hsl::<St, f64>::new(120.0, 0.5, 0.4).lighten(0.5))), "darken_fixed(0.1)": fvec(&arr(&Hsl::<St, f64>::new(120.0, 0.5, 0.4).darken_fixed(0.1)))}));
    ms.sample(|| json!({"type": "Hsv<Srgb,f64>", "color": [120.0, 0.5, 0.4], "saturate(0.5)": fvec(&arr(&Hsv::<St, f64>::new(120.0, 0.5, 0.4).saturate(0.5)))}));
    mh.sample(|| json!({"type": "Lch<D65,f64>", "color": [50.0, 30.0, 300.0], "tetradic_first": fvec(&arr(&Lch::<Wp, f64>::new(50.0, 30.0, 300.0).tetradic().0))}));
    ma.sample(|| json!({"type": "Lab<D65,f32>", "a+b": fvec(&arr(&(Lab::<Wp, f32>::new(50.0, 1.0, 2.0) + Lab::new(1.0, 2.0, 3.0))))}));
    mc.sample(|| json!({"type": "Hwb<Srgb,f64>", "color": [10.0, -0.5, 1.25], "clamp": fvec(&arr(&Hwb::<St, f64>::new(10.0, -0.5, 1.25).clamp())), "clamp_assign": fvec(&arr(&{ let mut c = Hwb::<St, f64>::new(10.0, -0.5, 1.25); c.clamp_assign(); c }))}));
    for m in [mm, ml, ms, mh, ma, mc] {
        if ctx.enabled(&m.name) {
            report.add(m);
        }
    }
    report.finish();
}
