//! C13 (second driver) - guard chains whose guard types are left to inference.
//!
//! The typed driver (c13.rs) names every guard type; if a continuation method of the library ever declares a different
//! guard type than documented, that driver stops compiling and can only report "inconclusive". This one never names the
//! type of a guard returned by a continuation method and observes the buffer after the guard is dropped.

#![allow(clippy::all)]
use palette::cast::{self, ArrayCast};
use palette::convert::{FromColorMutGuard, FromColorUnclampedMutGuard};
use palette::rgb::Rgb;
use palette::*;
use pvmon::report::{Ctx, Monitor, Report};
use pvmon::{json, Value};

type A3 = [f32; 3];

fn beq(a: &A3, b: &A3) -> bool {
    (0..3).all(|i| a[i].to_bits() == b[i].to_bits() || (a[i].is_nan() && b[i].is_nan()))
}
fn bv(a: &A3) -> Value {
    json!(a.iter().map(|x| format!("{:#010x}", x.to_bits())).collect::<Vec<_>>())
}
fn arrs<X: ArrayCast<Array = A3> + Clone>(xs: &[X]) -> Vec<A3> {
    xs.iter().map(|x| cast::into_array(x.clone())).collect()
}
fn all_eq(a: &[A3], b: &[A3]) -> bool {
    a.len() == b.len() && a.iter().zip(b).all(|(x, y)| beq(x, y))
}

/// Guard chains whose guard types are left to inference and which end by `drop`: whatever type a continuation method
/// declares for the guard it returns, the buffer - which the caller still types as the original colour - must afterwards
/// hold the single-step back-conversion of the guard's last contents. (The typed driver above names every guard type and
/// stops compiling when a declaration changes; this one keeps compiling and observes the buffer.)
fn inferred_guard_chains(m: &mut Monitor, ctx: &Ctx) {
    if ctx.replaying() || (ctx.nshards > 1 && ctx.shard != 0) {
        return;
    }
    use palette::convert::{FromColorUnclamped, IntoColorMut, IntoColorUnclampedMut};
    type St = palette::encoding::Srgb;
    type Wp = palette::white_point::D65;
    let mut rng = ctx.rng("inferred_guard_chains", 0);
    let n = if ctx.is_miri() { 6 } else { ctx.n(400, 40_000) };
    macro_rules! chain {
        ($name:expr, $U:ty, $T:ty, $C:ty) => {{
            for it in 0..n {
                let len = (it % 4) as usize;
                let init: Vec<$U> = (0..len).map(|_| cast::from_array([0.1 + 0.8 * rng.unit() as f32, 0.1 + 0.8 * rng.unit() as f32, 0.1 + 0.8 * rng.unit() as f32])).collect();
                for combo in 0..4u32 {
                    let mut buf: Vec<$U> = init.clone();
                    let last: Vec<$C>;
                    {
                        // first guard clamped or unclamped, continuation of the other or the same kind
                        macro_rules! cont {
                            ($g:expr) => {{
                                if combo & 1 == 0 {
                                    let g2 = $g.then_into_color_unclamped_mut::<[$C]>();
                                    last = g2.to_vec();
                                    drop(g2);
                                } else {
                                    let g2 = $g.then_into_color_mut::<[$C]>();
                                    last = g2.to_vec();
                                    drop(g2);
                                }
                            }};
                        }
                        if combo & 2 == 0 {
                            let g: FromColorMutGuard<[$T], [$U]> = buf[..].into_color_mut();
                            cont!(g)
                        } else {
                            let g: FromColorUnclampedMutGuard<[$T], [$U]> = buf[..].into_color_unclamped_mut();
                            cont!(g)
                        }
                    }
                    // drop converts back without clamping in the unclamped continuation and with clamping in the clamped one
                    let want: Vec<A3> = last.iter().map(|c| if combo & 1 == 0 { cast::into_array(<$U>::from_color_unclamped(c.clone())) } else { cast::into_array(<$U as FromColor<$C>>::from_color(c.clone())) }).collect();
                    let got = arrs(&buf);
                    m.evals(1);
                    if !all_eq(&got, &want) {
                        m.violate($name, "inferred_guard_chain_buffer_after_drop", json!({"len": len, "first_guard": if combo & 2 == 0 { "clamped" } else { "unclamped" }, "continuation": if combo & 1 == 0 { "then_into_color_unclamped_mut" } else { "then_into_color_mut" }}), json!(got.iter().map(bv).collect::<Vec<_>>()), json!(want.iter().map(bv).collect::<Vec<_>>()), "the original type's single-step back-conversion of the last guard's contents");
                    }
                    m.cell(pvmon::rng::mix(pvmon::rng::hash_str($name), (combo as u64) << 4 | len as u64));
                }
            }
        }};
    }
    chain!("Srgb->Hsv->Lab (inferred guards)", Rgb<St, f32>, Hsv<St, f32>, Lab<Wp, f32>);
    chain!("Lab->Lch->Srgb (inferred guards)", Lab<Wp, f32>, Lch<Wp, f32>, Rgb<St, f32>);
    chain!("Oklab->Okhsl->Hsl (inferred guards)", Oklab<f32>, Okhsl<f32>, Hsl<St, f32>);
}


fn main() {
    let ctx = Ctx::from_args("C13");
    let mut report = Report::new(&ctx);
    let mut m = Monitor::new(
        "guard_chains_inferred_types",
        "from_color_mut / from_color_unclamped_mut on slices of length 0..=3 continued by then_into_color_mut / then_into_color_unclamped_mut (all four kind combinations) with the returned guard's type left to inference, ended by drop: the buffer, still typed as the original colour, holds the single-step back-conversion (clamped or unclamped, as the last guard says) of the last guard's contents, bit for bit; three type triples; distinct = (chain, combination, length)",
    );
    m.tolerance = Some("exact".into());
    m.min_events = 10;
    inferred_guard_chains(&mut m, &ctx);
    m.sample(|| json!({"chain": "Srgb -> Hsv (clamped guard) -> then_into_color_unclamped_mut::<[Lab]>() -> drop", "checked": "buffer == Srgb::from_color_unclamped(lab_i)"}));
    report.add(m);
    report.finish();
}
