//! C08 — blending and compositing follow the W3C formulas and Porter-Duff identities.
//!
//! Oracle: the W3C Compositing and Blending Level 1 formulas evaluated in f64 on the (rounded)
//! inputs + the algebraic identities between real calls. A small-footprint mode runs the same
//! driver under Miri / ASan (the blend loops go through cast::into_array(_mut)).

#![allow(clippy::all)]
use palette::blend::{Blend, BlendWith, Compose, Equation, Equations, Parameter, PreAlpha, Premultiply};
use palette::cast::{self, ArrayCast};
use palette::*;
use pvmon::conv_table::Flt;
use pvmon::report::{fvec, Ctx, Monitor, Report};
use pvmon::{json, Rng};

trait Fl: Flt + PartialOrd + core::fmt::Debug + 'static {
    const NAME: &'static str;
    const U: f64;
    const MINPOS: f64;
}
impl Fl for f32 {
    const NAME: &'static str = "f32";
    const U: f64 = 5.96e-8;
    const MINPOS: f64 = 1.1754944e-38;
}
impl Fl for f64 {
    const NAME: &'static str = "f64";
    const U: f64 = 1.11e-16;
    const MINPOS: f64 = 2.2250738585072014e-308;
}

// W3C separable blend functions B(cb, cs)
fn hard_light(cb: f64, cs: f64) -> f64 {
    if cs <= 0.5 {
        cb * 2.0 * cs
    } else {
        let s = 2.0 * cs - 1.0;
        cb + s - cb * s
    }
}
fn blend_fn(mode: usize, cb: f64, cs: f64) -> f64 {
    match mode {
        0 => cb * cs,
        1 => cb + cs - cb * cs,
        2 => hard_light(cs, cb), // overlay = hard light with the layers swapped
        3 => cb.min(cs),
        4 => cb.max(cs),
        5 => {
            if cb == 0.0 {
                0.0
            } else if cs >= 1.0 {
                1.0
            } else {
                (cb / (1.0 - cs)).min(1.0)
            }
        }
        6 => {
            if cb >= 1.0 {
                1.0
            } else if cs <= 0.0 {
                0.0
            } else {
                1.0 - ((1.0 - cb) / cs).min(1.0)
            }
        }
        7 => hard_light(cb, cs),
        8 => {
            if cs <= 0.5 {
                cb - (1.0 - 2.0 * cs) * cb * (1.0 - cb)
            } else {
                let d = if cb <= 0.25 { ((16.0 * cb - 12.0) * cb + 4.0) * cb } else { cb.sqrt() };
                cb + (2.0 * cs - 1.0) * (d - cb)
            }
        }
        9 => (cb - cs).abs(),
        _ => cb + cs - 2.0 * cb * cs,
    }
}
const MODES: [&str; 11] = ["multiply", "screen", "overlay", "darken", "lighten", "dodge", "burn", "hard_light", "soft_light", "difference", "exclusion"];
const COMMUTATIVE: [bool; 11] = [true, true, false, true, true, false, false, false, false, true, true];
const OPS: [&str; 6] = ["over", "inside", "outside", "atop", "xor", "plus"];

/// (co premultiplied, alpha) per Porter-Duff operator
fn compose_fn(op: usize, cs: f64, as_: f64, cb: f64, ab: f64) -> (f64, f64) {
    // cs, cb premultiplied
    match op {
        0 => (cs + cb * (1.0 - as_), as_ + ab - as_ * ab),
        1 => (cs * ab, as_ * ab),
        2 => (cs * (1.0 - ab), as_ * (1.0 - ab)),
        3 => (cs * ab + cb * (1.0 - as_), ab),
        4 => (cs * (1.0 - ab) + cb * (1.0 - as_), as_ + ab - 2.0 * as_ * ab),
        _ => (cs + cb, (as_ + ab).min(1.0)),
    }
}

macro_rules! apply_mode {
    ($mode:expr, $a:expr, $b:expr) => {
        match $mode {
            0 => $a.multiply($b),
            1 => $a.screen($b),
            2 => $a.overlay($b),
            3 => Blend::darken($a, $b),
            4 => Blend::lighten($a, $b),
            5 => $a.dodge($b),
            6 => $a.burn($b),
            7 => $a.hard_light($b),
            8 => $a.soft_light($b),
            9 => $a.difference($b),
            _ => $a.exclusion($b),
        }
    };
}
macro_rules! apply_op {
    ($op:expr, $a:expr, $b:expr) => {
        match $op {
            0 => $a.over($b),
            1 => $a.inside($b),
            2 => $a.outside($b),
            3 => $a.atop($b),
            4 => $a.xor($b),
            _ => $a.plus($b),
        }
    };
}

fn level<T: Fl>(rng: &mut Rng) -> f64 {
    let v = match rng.below(14) {
        0 => 0.0,
        1 => 1.0,
        2 => 0.5,
        3 => 0.25,
        4 => 0.75,
        // straddle the branch points 2s = 1, 4d = 1, s = 1, d = 0
        5 => 0.5 + *rng.pick(&[-1.0, 1.0, 2.0, -2.0]) * T::U * 0.5 * 2.0,
        6 => 0.25 + *rng.pick(&[-1.0, 1.0]) * T::U * 0.25 * 2.0,
        7 => 1.0 - *rng.pick(&[1.0, 2.0, 8.0]) * T::U,
        8 => *rng.pick(&[1.0, 2.0, 1e3]) * T::MINPOS,
        9 => 1e-9,
        _ => rng.unit(),
    };
    T::f(v).d()
}
fn alpha_level<T: Fl>(rng: &mut Rng) -> f64 {
    let v = match rng.below(10) {
        0 => 0.0,
        1 => 1.0,
        2 => T::MINPOS,
        3 => 1e-9,
        4 => 0.5,
        _ => rng.unit(),
    };
    T::f(v).d()
}

/// blend modes exist for stimulus colours only; the other Premultiply types get the compose part
trait ModeSet<T, C> {
    fn mode_pre(mode: usize, a: PreAlpha<C>, b: PreAlpha<C>) -> Option<PreAlpha<C>>
    where
        C: Premultiply<Scalar = T>;
    fn mode_alpha(mode: usize, a: Alpha<C, T>, b: Alpha<C, T>) -> Option<Alpha<C, T>>;
    fn mode_opaque(mode: usize, a: C, b: C) -> Option<C>;
}
struct WithModes;
struct NoModes;
impl<T, C> ModeSet<T, C> for WithModes
where
    C: Premultiply<Scalar = T> + Blend,
    Alpha<C, T>: Blend,
    PreAlpha<C>: Blend,
{
    fn mode_pre(mode: usize, a: PreAlpha<C>, b: PreAlpha<C>) -> Option<PreAlpha<C>> {
        Some(apply_mode!(mode, a, b))
    }
    fn mode_alpha(mode: usize, a: Alpha<C, T>, b: Alpha<C, T>) -> Option<Alpha<C, T>> {
        Some(apply_mode!(mode, a, b))
    }
    fn mode_opaque(mode: usize, a: C, b: C) -> Option<C> {
        Some(apply_mode!(mode, a, b))
    }
}
impl<T, C: Premultiply<Scalar = T>> ModeSet<T, C> for NoModes {
    fn mode_pre(_: usize, _: PreAlpha<C>, _: PreAlpha<C>) -> Option<PreAlpha<C>> {
        None
    }
    fn mode_alpha(_: usize, _: Alpha<C, T>, _: Alpha<C, T>) -> Option<Alpha<C, T>> {
        None
    }
    fn mode_opaque(_: usize, _: C, _: C) -> Option<C> {
        None
    }
}

fn suite<T: Fl, C, M: ModeSet<T, C>, const N: usize>(mb: &mut Monitor, mc: &mut Monitor, mp: &mut Monitor, ctx: &Ctx, name: &str)
where
    C: ArrayCast<Array = [T; N]> + Premultiply<Scalar = T> + Clone + Compose + 'static,
    Alpha<C, T>: Compose + BlendWith<Color = C> + Clone,
    PreAlpha<C>: Compose + BlendWith<Color = C> + Clone + From<C> + From<Alpha<C, T>>,
    C: From<PreAlpha<C>>,
    Equations: palette::blend::BlendFunction<C>,
{
    let inst = format!("{}/{}", name, T::NAME);
    if ctx.nshards > 1 && pvmon::rng::hash_str(&inst) % ctx.nshards != ctx.shard {
        return;
    }
    let mut rng = ctx.rng(&format!("blend{}", inst), 0);
    let lean = ctx.mode != "native" && ctx.mode != "native-dev";
    let n = if ctx.is_miri() { ctx.n(5, 60) } else if lean { ctx.n(3000, 100_000) } else { ctx.n(6000, 600_000) };
    let mkc = |v: &[f64]| -> C { cast::from_array(core::array::from_fn(|k| T::f(v[k]))) };
    let arrc = |c: &C| -> Vec<f64> { cast::into_array(c.clone()).iter().map(|x| x.d()).collect() };
    let tolv = |scale: f64| 64.0 * T::U * scale.max(1.0) + 1e-12;
    for q in 0..n {
        let cs: Vec<f64> = (0..N).map(|_| level::<T>(&mut rng)).collect();
        let cb: Vec<f64> = (0..N).map(|_| level::<T>(&mut rng)).collect();
        let (as_, ab) = (alpha_level::<T>(&mut rng), alpha_level::<T>(&mut rng));
        let (s, b) = (mkc(&cs), mkc(&cb));
        let inp = || json!({"cs": cs, "as": as_, "cb": cb, "ab": ab});
        let sa = Alpha { color: s.clone(), alpha: T::f(as_) };
        let ba = Alpha { color: b.clone(), alpha: T::f(ab) };
        let sp: PreAlpha<C> = <PreAlpha<C> as From<Alpha<C, T>>>::from(sa.clone());
        let bp: PreAlpha<C> = <PreAlpha<C> as From<Alpha<C, T>>>::from(ba.clone());
        let csp: Vec<f64> = arrc(&sp.color);
        let cbp: Vec<f64> = arrc(&bp.color);
        // ---------------- premultiply / unpremultiply
        if ctx.enabled("premultiply") {
            mp.evals(3);
            let want: Vec<f64> = cs.iter().map(|c| T::f(c * as_).d()).collect();
            if !(0..N).all(|k| (csp[k] - want[k]).abs() <= 2.0 * T::U) || sp.alpha.d() != as_ {
                mp.violate(&inst, "premultiply_value", inp(), json!({"color": csp, "alpha": sp.alpha.d()}), json!({"color": want, "alpha": as_}), "");
            }
            let back: Alpha<C, T> = Alpha::from(sp.clone());
            let bv = arrc(&back.color);
            if as_ == 0.0 {
                if !bv.iter().all(|x| *x == 0.0) || back.alpha.d() != 0.0 {
                    mp.violate(&inst, "unpremultiply_zero_alpha_not_zero_color", inp(), json!({"color": bv, "alpha": back.alpha.d()}), json!("zero colour, zero alpha"), "");
                }
            } else if as_ >= 1e-30 {
                if !(0..N).all(|k| (bv[k] - cs[k]).abs() <= 4.0 * T::U * cs[k].abs().max(T::MINPOS / as_.max(1e-300) * 4.0).max(1e-300)) || back.alpha.d() != as_ {
                    mp.violate(&inst, "premultiply_unpremultiply_roundtrip", inp(), json!({"color": bv, "alpha": back.alpha.d()}), json!({"color": cs, "alpha": as_}), "");
                }
            }
            let (uc, ua) = C::unpremultiply(s.clone().premultiply(T::f(as_)));
            if arrc(&uc) != bv || ua.d() != as_ {
                mp.violate(&inst, "premultiply_trait_vs_from", inp(), json!({"color": arrc(&uc)}), json!({"color": bv}), "");
            }
            // the remaining conversion forms: PreAlpha -> bare colour (the type's own From impl) unpremultiplies and drops the
            // alpha, bare colour -> PreAlpha is the opaque colour, the inherent unpremultiply equals the From impl
            let bare: C = C::from(sp.clone());
            let opaque: PreAlpha<C> = <PreAlpha<C> as From<C>>::from(s.clone());
            let inh: Alpha<C, T> = sp.clone().unpremultiply();
            mp.evals(3);
            if arrc(&bare) != bv || arrc(&opaque.color) != cs || opaque.alpha.d() != 1.0 || arrc(&inh.color) != bv || inh.alpha.d() != back.alpha.d() {
                mp.violate(&inst, "premultiplied_conversion_forms_disagree", inp(), json!({"C::from(pre)": arrc(&bare), "PreAlpha::from(c)": arrc(&opaque.color), "opaque_alpha": opaque.alpha.d(), "pre.unpremultiply()": arrc(&inh.color)}), json!({"unpremultiplied": bv, "color": cs}), "");
            }
            if q < 32 {
                mp.cell(pvmon::rng::mix(pvmon::rng::hash_str(&inst), q));
            }
        }
        // ---------------- blend modes
        if ctx.enabled("blend_modes") {
            for mode in 0..11 {
                // model, premultiplied result
                let ao = as_ + ab - as_ * ab;
                // a PreAlpha operand only carries the premultiplied colour: the blend function sees colour/alpha
                // (rounded to the component type), which is what the W3C formula prescribes for premultiplied input
                let un = |p: f64, a: f64| if a == 0.0 || !(p / a).is_finite() { 0.0 } else { T::f(p / a).d() };
                let co: Vec<f64> = (0..N).map(|k| csp[k] * (1.0 - ab) + as_ * ab * blend_fn(mode, un(cbp[k], ab), un(csp[k], as_)) + (1.0 - as_) * cbp[k]).collect();
                let co_alpha_form: Vec<f64> = (0..N).map(|k| csp[k] * (1.0 - ab) + as_ * ab * blend_fn(mode, cb[k], cs[k]) + (1.0 - as_) * cbp[k]).collect();
                let rp: PreAlpha<C> = match M::mode_pre(mode, sp.clone(), bp.clone()) {
                    Some(r) => r,
                    None => break,
                };
                let ra: Alpha<C, T> = M::mode_alpha(mode, sa.clone(), ba.clone()).unwrap();
                let ro: C = M::mode_opaque(mode, s.clone(), b.clone()).unwrap();
                mb.evals(4);
                let rpv = arrc(&rp.color);
                let t = tolv(1.0);
                let class = |what: &str| format!("{}_{}", MODES[mode], what);
                if !(0..N).all(|k| (rpv[k] - co[k]).abs() <= t) || !((rp.alpha.d() - ao).abs() <= t) {
                    mb.violate(&inst, &class("prealpha_vs_w3c"), inp(), json!({"color": rpv, "alpha": rp.alpha.d()}), json!({"color": co, "alpha": ao}), "");
                }
                // Alpha form: compare in premultiplied terms
                let rav: Vec<f64> = arrc(&ra.color).iter().map(|c| c * ra.alpha.d()).collect();
                if !(0..N).all(|k| (rav[k] - co_alpha_form[k]).abs() <= 4.0 * t) || !((ra.alpha.d() - ao).abs() <= t) {
                    mb.violate(&inst, &class("alpha_form_vs_w3c"), inp(), json!({"premultiplied": rav, "alpha": ra.alpha.d()}), json!({"color": co_alpha_form, "alpha": ao}), "");
                }
                // opaque form = plain B(cb, cs)
                let rov = arrc(&ro);
                let wo: Vec<f64> = (0..N).map(|k| blend_fn(mode, cb[k], cs[k])).collect();
                if !(0..N).all(|k| (rov[k] - wo[k]).abs() <= t) {
                    mb.violate(&inst, &class("opaque_form_not_plain_blend_function"), inp(), json!(rov), json!(wo), "");
                }
                // range
                let r = 4.0 * T::U + 1e-30;
                if !rpv.iter().chain(rov.iter()).all(|x| *x >= -r && *x <= 1.0 + r) || !(rp.alpha.d() >= 0.0 && rp.alpha.d() <= 1.0) || !(ra.alpha.d() >= 0.0 && ra.alpha.d() <= 1.0) {
                    mb.violate(&inst, &class("result_outside_unit_range"), inp(), json!({"pre": rpv, "opaque": rov, "alpha": rp.alpha.d()}), json!("[0, 1]"), "");
                }
                if !rpv.iter().chain(rov.iter()).all(|x| x.is_finite()) || !arrc(&ra.color).iter().all(|x| x.is_finite()) {
                    mb.violate(&inst, &class("nonfinite"), inp(), json!({"pre": fvec(&rpv), "alpha_form": fvec(&arrc(&ra.color))}), json!("finite"), "");
                }
                if COMMUTATIVE[mode] {
                    let rq: PreAlpha<C> = M::mode_pre(mode, bp.clone(), sp.clone()).unwrap();
                    let rqv = arrc(&rq.color);
                    mb.eval();
                    if !(0..N).all(|k| (rqv[k] - rpv[k]).abs() <= t) || !((rq.alpha.d() - rp.alpha.d()).abs() <= t) {
                        mb.violate(&inst, &class("not_symmetric"), inp(), json!({"a_b": rpv, "b_a": rqv}), json!("symmetric"), "");
                    }
                }
                if !lean {
                    let arm = (cs.iter().any(|c| 2.0 * c <= 1.0) as u64) | ((cb.iter().any(|c| 4.0 * c <= 1.0) as u64) << 1) | (((as_ == 0.0) as u64) << 2) | (((ab == 1.0) as u64) << 3);
                    mb.cell(pvmon::rng::mix(pvmon::rng::hash_str(&inst), ((mode as u64) << 8) | arm));
                }
            }
        }
        // ---------------- Porter-Duff operators
        if ctx.enabled("compose") {
            for op in 0..6 {
                let rp: PreAlpha<C> = apply_op!(op, sp.clone(), bp.clone());
                let ra: Alpha<C, T> = apply_op!(op, sa.clone(), ba.clone());
                let ro: C = apply_op!(op, s.clone(), b.clone());
                mc.evals(3);
                let t = tolv(2.0);
                let class = |what: &str| format!("{}_{}", OPS[op], what);
                let rpv = arrc(&rp.color);
                let mut want = Vec::new();
                let mut wa = 0.0;
                for k in 0..N {
                    let (c, a) = compose_fn(op, csp[k], as_, cbp[k], ab);
                    want.push(c);
                    wa = a;
                }
                if !(0..N).all(|k| (rpv[k] - want[k]).abs() <= t) || !((rp.alpha.d() - wa).abs() <= t) {
                    mc.violate(&inst, &class("prealpha_vs_porter_duff"), inp(), json!({"color": rpv, "alpha": rp.alpha.d()}), json!({"color": want, "alpha": wa}), "");
                }
                let rav: Vec<f64> = arrc(&ra.color).iter().map(|c| c * ra.alpha.d()).collect();
                if !(0..N).all(|k| (rav[k] - want[k]).abs() <= 4.0 * t) || !((ra.alpha.d() - wa).abs() <= t) {
                    mc.violate(&inst, &class("alpha_form_vs_porter_duff"), inp(), json!({"premultiplied": rav, "alpha": ra.alpha.d()}), json!({"color": want, "alpha": wa}), "");
                }
                // opaque operands: alpha 1 on both sides
                let wo: Vec<f64> = (0..N).map(|k| {
                    let (c, a) = compose_fn(op, cs[k], 1.0, cb[k], 1.0);
                    if a == 0.0 { 0.0 } else { c / a }
                }).collect();
                let rov = arrc(&ro);
                if !(0..N).all(|k| (rov[k] - wo[k]).abs() <= t) {
                    mc.violate(&inst, &class("opaque_form"), inp(), json!(rov), json!(wo), "");
                }
                if !(rp.alpha.d() >= 0.0 && rp.alpha.d() <= 1.0) || !rpv.iter().all(|x| x.is_finite()) || !arrc(&ra.color).iter().all(|x| x.is_finite()) {
                    mc.violate(&inst, &class("alpha_range_or_nonfinite"), inp(), json!({"alpha": rp.alpha.d(), "color": fvec(&rpv)}), json!("alpha in [0,1], finite"), "");
                }
                if op == 4 || op == 5 {
                    let rq: PreAlpha<C> = apply_op!(op, bp.clone(), sp.clone());
                    let rqv = arrc(&rq.color);
                    if !(0..N).all(|k| (rqv[k] - rpv[k]).abs() <= t) {
                        mc.violate(&inst, &class("not_symmetric"), inp(), json!({"a_b": rpv, "b_a": rqv}), json!("symmetric"), "");
                    }
                }
                if !lean {
                    mc.cell(pvmon::rng::mix(pvmon::rng::hash_str(&inst), ((op as u64) << 8) | ((as_ == 0.0) as u64) | (((as_ == 1.0) as u64) << 1) | (((ab == 0.0) as u64) << 2) | (((ab == 1.0) as u64) << 3)));
                }
            }
            // identities in premultiplied terms
            let transparent: PreAlpha<C> = PreAlpha { color: mkc(&vec![0.0; N]), alpha: T::f(0.0) };
            let r = transparent.clone().over(bp.clone());
            mc.evals(3);
            if arrc(&r.color) != cbp || r.alpha.d() != ab {
                mc.violate(&inst, "transparent_source_over_backdrop_is_not_backdrop", inp(), json!({"color": arrc(&r.color), "alpha": r.alpha.d()}), json!({"color": cbp, "alpha": ab}), "");
            }
            let opaque: PreAlpha<C> = PreAlpha { color: s.clone(), alpha: T::f(1.0) };
            let r = opaque.over(bp.clone());
            // as + ab - as*ab is evaluated as (1 + ab) - ab: one rounding away from 1 is allowed for the alpha
            if arrc(&r.color) != cs || !((r.alpha.d() - 1.0).abs() <= 2.0 * T::U) {
                mc.violate(&inst, "opaque_source_over_anything_is_not_source", inp(), json!({"color": arrc(&r.color), "alpha": r.alpha.d()}), json!({"color": cs, "alpha": 1.0}), "");
            }
            // BlendWith: a closure implementing source-over and the fixed-function equations
            let viaw: PreAlpha<C> = sp.clone().blend_with(bp.clone(), |a: PreAlpha<C>, b: PreAlpha<C>| a.over(b));
            let direct = sp.clone().over(bp.clone());
            let eq: PreAlpha<C> = sp.clone().blend_with(bp.clone(), Equations::from_equations(Equation::Add, Equation::Add));
            let eqv = arrc(&eq.color);
            let eqmin: PreAlpha<C> = sp.clone().blend_with(bp.clone(), Equations::from_equations(Equation::Min, Equation::Max));
            let eqp: PreAlpha<C> = sp.clone().blend_with(bp.clone(), Equations::from_parameters(Parameter::SourceAlpha, Parameter::OneMinusSourceAlpha));
            let eqpv = arrc(&eqp.color);
            let t = tolv(2.0);
            if arrc(&viaw.color) != arrc(&direct.color) || viaw.alpha.d() != direct.alpha.d() {
                mc.violate(&inst, "blend_with_closure", inp(), json!(arrc(&viaw.color)), json!(arrc(&direct.color)), "");
            }
            if !(0..N).all(|k| (eqv[k] - (csp[k] + cbp[k])).abs() <= t) || !((eq.alpha.d() - (as_ + ab)).abs() <= t) {
                mc.violate(&inst, "equations_add_add", inp(), json!({"color": eqv, "alpha": eq.alpha.d()}), json!({"color": (0..N).map(|k| csp[k] + cbp[k]).collect::<Vec<_>>(), "alpha": as_ + ab}), "");
            }
            if !(0..N).all(|k| arrc(&eqmin.color)[k] == csp[k].min(cbp[k])) || eqmin.alpha.d() != as_.max(ab) {
                mc.violate(&inst, "equations_min_max", inp(), json!({"color": arrc(&eqmin.color), "alpha": eqmin.alpha.d()}), json!({"alpha": as_.max(ab)}), "");
            }
            if !(0..N).all(|k| (eqpv[k] - (csp[k] * as_ + cbp[k] * (1.0 - as_))).abs() <= t) || !((eqp.alpha.d() - (as_ * as_ + ab * (1.0 - as_))).abs() <= t) {
                mc.violate(&inst, "equations_source_alpha_parameters", inp(), json!({"color": eqpv, "alpha": eqp.alpha.d()}), json!("src*as + dst*(1-as)"), "");
            }
            let wa: Alpha<C, T> = sa.clone().blend_with(ba.clone(), |a: PreAlpha<C>, b: PreAlpha<C>| a.over(b));
            let da = sa.clone().over(ba.clone());
            if arrc(&wa.color) != arrc(&da.color) || wa.alpha.d() != da.alpha.d() {
                mc.violate(&inst, "blend_with_closure_alpha_form", inp(), json!(arrc(&wa.color)), json!(arrc(&da.color)), "");
            }
        }
    }
}

type St = palette::encoding::Srgb;
type Lin = palette::encoding::Linear<St>;
type Wp = palette::white_point::D65;

fn main() {
    let ctx = Ctx::from_args("C08");
    let mut report = Report::new(&ctx);
    let mut mb = Monitor::new("blend_modes", "the eleven separable blend modes on PreAlpha, Alpha and opaque colours of every Premultiply type (f32/f64): inputs on a level grid {0, 1/4, 1/2, 3/4, 1}, +-ulp straddle points of every branch (2s = 1, 4d = 1, s = 1, d = 0), tiny and seeded values, alphas {0, MIN_POSITIVE, 1e-9, 1/2, 1, seeded}; oracle: W3C general formula co = cs as (1-ab) + as ab B(cb,cs) + (1-as) ab cb with the W3C B functions, opaque form = plain B, results in [0,1], commutative modes symmetric, finite; distinct = (type, mode, branch arms hit, alpha class)");
    let mut mc = Monitor::new("compose", "the six Porter-Duff operators on PreAlpha, Alpha and opaque colours against the premultiplied formulas, result alpha in [0,1], xor/plus symmetric, transparent source over b == b and opaque source over anything == source bit for bit, BlendWith with a closure and with Equations (add/add, min/max, source-alpha parameters); distinct = (type, operator, alpha class)");
    let mut mp = Monitor::new("premultiply", "premultiply equals colour * alpha, unpremultiply(premultiply(c, a)) returns c for a != 0 and the zero colour for a == 0, trait functions agree with the From impls; distinct = (type, case)");
    for m in [&mut mb, &mut mc, &mut mp] {
        m.tolerance = Some("64 u + 1e-12 on premultiplied values (4x for the Alpha form); identities bit-exact; range +-4 u".into());
    }
    macro_rules! run {
        ($T:ty) => {
            suite::<$T, rgb::Rgb<Lin, $T>, WithModes, 3>(&mut mb, &mut mc, &mut mp, &ctx, "LinSrgb");
            suite::<$T, rgb::Rgb<St, $T>, WithModes, 3>(&mut mb, &mut mc, &mut mp, &ctx, "Srgb");
            suite::<$T, Xyz<Wp, $T>, WithModes, 3>(&mut mb, &mut mc, &mut mp, &ctx, "Xyz");
            suite::<$T, luma::Luma<Lin2, $T>, WithModes, 1>(&mut mb, &mut mc, &mut mp, &ctx, "LinLuma");
            suite::<$T, Yxy<Wp, $T>, NoModes, 3>(&mut mb, &mut mc, &mut mp, &ctx, "Yxy");
            suite::<$T, Lab<Wp, $T>, NoModes, 3>(&mut mb, &mut mc, &mut mp, &ctx, "Lab");
            suite::<$T, Luv<Wp, $T>, NoModes, 3>(&mut mb, &mut mc, &mut mp, &ctx, "Luv");
            suite::<$T, Oklab<$T>, NoModes, 3>(&mut mb, &mut mc, &mut mp, &ctx, "Oklab");
            suite::<$T, cam16::Cam16UcsJab<$T>, NoModes, 3>(&mut mb, &mut mc, &mut mp, &ctx, "Cam16UcsJab");
            suite::<$T, lms::Lms<lms::matrix::Bradford, $T>, WithModes, 3>(&mut mb, &mut mc, &mut mp, &ctx, "Lms");
        };
    }
    type Lin2 = palette::encoding::Linear<Wp>;
    if !ctx.replaying() {
        run!(f32);
        run!(f64);
    }
    mb.sample(|| {
        let a = Alpha { color: LinSrgb::<f64>::new(0.8, 0.2, 0.1), alpha: 0.5 };
        let b = Alpha { color: LinSrgb::<f64>::new(0.1, 0.6, 0.9), alpha: 0.75 };
        let r = a.multiply(b);
        json!({"source": [0.8, 0.2, 0.1, 0.5], "backdrop": [0.1, 0.6, 0.9, 0.75], "multiply": [r.color.red, r.color.green, r.color.blue, r.alpha]})
    });
    mc.sample(|| {
        let a = Alpha { color: LinSrgb::<f64>::new(0.8, 0.2, 0.1), alpha: 0.5 };
        let b = Alpha { color: LinSrgb::<f64>::new(0.1, 0.6, 0.9), alpha: 0.75 };
        let r = a.over(b);
        json!({"source": [0.8, 0.2, 0.1, 0.5], "backdrop": [0.1, 0.6, 0.9, 0.75], "over": [r.color.red, r.color.green, r.color.blue, r.alpha]})
    });
    mp.sample(|| json!({"color": [0.8, 0.2, 0.1], "alpha": 0.5, "premultiplied": format!("{:?}", LinSrgb::<f64>::new(0.8, 0.2, 0.1).premultiply(0.5))}));
    for m in [mb, mc, mp] {
        if ctx.enabled(&m.name) {
            report.add(m);
        }
    }
    report.finish();
}
