//! C17 — results do not depend on the component representation (scalar f32/f64 vs SIMD lanes).

use palette::bool_mask::{BoolMask, HasBoolMask, LazySelect, Select};
use palette::cast::{self, ArrayCast};
use palette::convert::IntoColorUnclamped;
use palette::encoding;
use palette::num::{FromScalarArray, IntoScalarArray, PartialCmp};
use palette::white_point::D65;
use palette::{Alpha, Clamp, ClampAssign, LightenAssign, Darken, Hsl, Hsluv, Hsv, Hwb, IsWithinBounds, Lab, Lch, Lchuv, Lighten, Luv, Mix, Oklab, Oklch, Saturate, ShiftHue, Xyz, Yxy};
use pvmon::conv_table as ct;
use pvmon::gen;
use pvmon::judge;
use pvmon::refmodel::space::{Space, Wp, V3, LIN_SRGB, SRGB};
use pvmon::report::{bits64, fvec, par, parse_bits64, Ctx, Monitor, Report};
use pvmon::{json, Rng};
use wide::{f32x4, f32x8, f64x2, f64x4};

trait Sc: Copy + Default + PartialEq + core::fmt::Debug + 'static {
    const IS32: bool;
    fn f(x: f64) -> Self;
    fn d(self) -> f64;
}
impl Sc for f32 {
    const IS32: bool = true;
    fn f(x: f64) -> f32 {
        x as f32
    }
    fn d(self) -> f64 {
        self as f64
    }
}
impl Sc for f64 {
    const IS32: bool = false;
    fn f(x: f64) -> f64 {
        x
    }
    fn d(self) -> f64 {
        self
    }
}

type TSrgb<T> = palette::rgb::Rgb<encoding::Srgb, T>;
type TLin<T> = palette::rgb::Rgb<encoding::Linear<encoding::Srgb>, T>;
type THsl<T> = Hsl<encoding::Srgb, T>;
type THsv<T> = Hsv<encoding::Srgb, T>;
type THwb<T> = Hwb<encoding::Srgb, T>;
type TXyz<T> = Xyz<D65, T>;
type TYxy<T> = Yxy<D65, T>;
type TLab<T> = Lab<D65, T>;
type TLch<T> = Lch<D65, T>;
type TLuv<T> = Luv<D65, T>;
type TLchuv<T> = Lchuv<D65, T>;
type THsluv<T> = Hsluv<D65, T>;
type TOklab<T> = Oklab<T>;
type TOklch<T> = Oklch<T>;
type TOkhsl<T> = palette::Okhsl<T>;
type TOkhsv<T> = palette::Okhsv<T>;
type TOkhwb<T> = palette::Okhwb<T>;
type TJab<T> = palette::cam16::Cam16UcsJab<T>;
type TJmh<T> = palette::cam16::Cam16UcsJmh<T>;

fn sp(name: &str) -> Space {
    match name {
        "TSrgb" => Space::Rgb(SRGB),
        "TLin" => Space::Rgb(LIN_SRGB),
        "THsl" => Space::Hsl(SRGB),
        "THsv" => Space::Hsv(SRGB),
        "THwb" => Space::Hwb(SRGB),
        "TXyz" => Space::Xyz(Wp::D65),
        "TYxy" => Space::Yxy(Wp::D65),
        "TLab" => Space::Lab(Wp::D65),
        "TLch" => Space::Lch(Wp::D65),
        "TLuv" => Space::Luv(Wp::D65),
        "TLchuv" => Space::Lchuv(Wp::D65),
        "THsluv" => Space::Hsluv(Wp::D65),
        "TOklab" => Space::Oklab,
        "TOklch" => Space::Oklch,
        _ => unreachable!(),
    }
}

fn mk<C: ArrayCast<Array = [S; 3]>, S: Sc>(x: &V3) -> C {
    cast::from_array([S::f(x[0]), S::f(x[1]), S::f(x[2])])
}
fn un<C: ArrayCast<Array = [S; 3]>, S: Sc>(c: C) -> V3 {
    let a: [S; 3] = cast::into_array(c);
    [a[0].d(), a[1].d(), a[2].d()]
}

/// inputs of a source space: in-gamut lattice + seeded in-gamut fill (greys, primaries, near black, near white) + seeded
/// points of the nominal range; shuffled so that neighbouring lanes take different branches
fn inputs(src: Space, rng: &mut Rng, n: u64) -> Vec<V3> {
    let mut v: Vec<V3> = Vec::new();
    for x in gen::lattice(src) {
        let lin = pvmon::refmodel::space::mat_vec(&pvmon::refmodel::space::RgbSpaceM { prim: pvmon::refmodel::space::Prim::Srgb, wp: src.wp() }.xyz_to_rgb(), src.to_xyz(x));
        if lin.iter().all(|c| *c >= -1e-9 && *c <= 1.0 + 1e-9) {
            v.push(x);
        }
    }
    for _ in 0..n {
        v.push(gen::gamut_fill(src, rng));
    }
    // nearly white / nearly black / nearly grey colours, where the branch-free formulas differ most from the scalar ones
    for _ in 0..n / 4 {
        let e = [1e-7, 1e-6, 1e-5, 1e-4, 1e-3][rng.below(5) as usize];
        let base = if rng.chance(0.5) { 1.0 } else { rng.unit() };
        let lin = [(base - e * rng.unit()).max(0.0), (base - e * rng.unit()).max(0.0), (base - e * rng.unit()).max(0.0)];
        v.push(gen::from_lin_srgb_like(src, lin));
    }
    // shuffle
    for i in (1..v.len()).rev() {
        let j = rng.below(i as u64 + 1) as usize;
        v.swap(i, j);
    }
    v.retain(|x| x.iter().all(|c| c.is_finite()));
    v
}

#[allow(clippy::too_many_arguments)]
fn conv<AS, AV, BS, BV, S, const N: usize>(m: &mut Monitor, inst: &str, src: Space, dst: Space, xs: &[V3], replaying: bool)
where
    S: Sc,
    AS: ArrayCast<Array = [S; 3]> + Copy + IntoColorUnclamped<BS>,
    BS: ArrayCast<Array = [S; 3]> + Copy,
    AV: From<[AS; N]> + IntoColorUnclamped<BV>,
    [BS; N]: From<BV>,
{
    let is32 = S::IS32;
    let mut worst = 0.0f64;
    for chunk in xs.chunks(N) {
        // a short tail is filled up with the first colour
        let lane_x: [V3; N] = core::array::from_fn(|k| {
            let x = chunk.get(k).copied().unwrap_or(chunk[0]);
            [S::f(x[0]).d(), S::f(x[1]).d(), S::f(x[2]).d()]
        });
        let arr: [AS; N] = core::array::from_fn(|k| mk::<AS, S>(&lane_x[k]));
        let packed: AV = arr.into();
        let out: BV = packed.into_color_unclamped();
        let lanes: [BS; N] = out.into();
        for k in 0..N {
            let want = un::<BS, S>(arr[k].into_color_unclamped());
            let got = un::<BS, S>(lanes[k]);
            m.eval();
            let nan_w = want.iter().any(|c| !c.is_finite());
            let nan_g = got.iter().any(|c| !c.is_finite());
            if nan_w && nan_g {
                m.count("both_not_finite");
                continue;
            }
            let x = lane_x[k];
            let tol = judge::tolerance(src, dst, &x, is32);
            if !tol.is_finite() {
                m.count("not_judged_no_finite_model_sensitivity");
                continue;
            }
            let d = if nan_w != nan_g { f64::INFINITY } else { judge::dist(&dst.cmp_vec(got), &dst.cmp_vec(want)) };
            if d <= tol {
                let r = d / tol;
                if r > worst {
                    worst = r;
                }
                if got.map(f64::to_bits) == want.map(f64::to_bits) {
                    m.count("bit_identical");
                }
            } else {
                let lanes_in: Vec<_> = lane_x.iter().map(|v| fvec(v)).collect();
                m.violate(inst, if nan_w != nan_g { "lane_finite_scalar_not_or_vice_versa" } else { "lane_differs_from_scalar" }, json!({"bits": bits64(&x), "x": fvec(&x), "lane": k, "all_lanes": lanes_in}), fvec(&got), json!({"scalar": fvec(&want), "tolerance": tol, "deviation": d}), "");
            }
            if !replaying {
                let w = dst.cmp_vec(want);
                m.cell2(pvmon::rng::hash_str(inst), ((w[0] * 4.0 / dst.scale()) as i64 & 7) as u64 | (((want[1].abs() * 3.0) as u64 & 3) << 3) | ((k as u64) << 6));
            }
        }
    }
    m.counter_max("max:deviation_over_tolerance_milli", (worst * 1000.0) as u64);
    if worst > m.max_dev {
        m.max_dev = worst;
        m.argmax = Some(json!({"inst": inst, "ratio": worst}));
    }
}

macro_rules! pair_all {
    ($m:expr, $ctx:expr, $rng:expr, $replay:expr, $t:expr, $idx:expr, $A:ident, $B:ident) => {{
        let (src, dst) = (sp(stringify!($A)), sp(stringify!($B)));
        let base = format!("{}->{}", &stringify!($A)[1..], &stringify!($B)[1..]);
        $idx += 1;
        let mine = match &$replay {
            Some((inst, _)) => inst.starts_with(&format!("{}/", base)),
            None => $idx % $ctx.threads == $t,
        };
        if mine {
            let xs: Vec<V3> = match &$replay {
                Some((_, lanes)) => lanes.clone(),
                None => inputs(src, &mut $rng, $ctx.n(300, 100_000)),
            };
            let rp = $replay.is_some();
            let want = |s: &str| $replay.as_ref().map_or(true, |(inst, _)| inst.ends_with(s));
            if want("/f32x4") {
                conv::<$A<f32>, $A<f32x4>, $B<f32>, $B<f32x4>, f32, 4>(&mut $m, &format!("{}/f32x4", base), src, dst, &xs, rp);
            }
            if want("/f32x8") {
                conv::<$A<f32>, $A<f32x8>, $B<f32>, $B<f32x8>, f32, 8>(&mut $m, &format!("{}/f32x8", base), src, dst, &xs, rp);
            }
            if want("/f64x2") {
                conv::<$A<f64>, $A<f64x2>, $B<f64>, $B<f64x2>, f64, 2>(&mut $m, &format!("{}/f64x2", base), src, dst, &xs, rp);
            }
            if want("/f64x4") {
                conv::<$A<f64>, $A<f64x4>, $B<f64>, $B<f64x4>, f64, 4>(&mut $m, &format!("{}/f64x4", base), src, dst, &xs, rp);
            }
        }
    }};
}

fn conversions(ctx: &Ctx, report: &mut Report) {
    let mname = "simd_conversion_lanes_equal_scalar";
    if !ctx.enabled(mname) {
        return;
    }
    let mon = Monitor::new(
        mname,
        "for each listed conversion (every colour type that supports wide components, to and from Srgb, LinSrgb and Xyz, plus the direct neighbours Lab<->Lch, Luv<->Lchuv<->Hsluv, Hsv<->Hsl<->Hwb, Oklab<->Oklch, Xyz<->Yxy) x wide::{f32x4, f32x8, f64x2, f64x4}: scalar colours are packed with From<[Color<T>; N]>, converted as one SIMD colour, unpacked with Into<[Color<T>; N]>, and each lane is compared with the scalar conversion of that lane's input (cartesian form, tolerance = the model's sensitivity bound for the scalar type); inputs are shuffled so lanes mix branches (grey / sector / near white / near black / knee); distinct = (conversion, vector type, lane, output cell)",
    );
    let replay: Option<(String, Vec<V3>)> = ctx.replay.as_ref().filter(|r| r.monitor == mname).map(|r| {
        let lanes: Vec<V3> = r.input["all_lanes"].as_array().unwrap().iter().map(|l| {
            let a: Vec<f64> = l.as_array().unwrap().iter().map(|v| v.as_f64().unwrap_or(f64::NAN)).collect();
            [a[0], a[1], a[2]]
        }).collect();
        let _ = parse_bits64;
        (r.inst.clone(), lanes)
    });
    let res = par(if replay.is_some() { 1 } else { ctx.threads }, |t| {
        let mut m = mon.like();
        let mut rng = ctx.rng(mname, t as u64);
        let mut idx = 0usize;
        macro_rules! p {
            ($A:ident, $B:ident) => {
                pair_all!(m, ctx, rng, replay, t, idx, $A, $B)
            };
        }
        macro_rules! both {
            ($A:ident, $B:ident) => {
                p!($A, $B);
                p!($B, $A);
            };
        }
        // hubs
        p!(TSrgb, TLin);
        p!(TLin, TSrgb);
        p!(TSrgb, TXyz);
        p!(TXyz, TSrgb);
        p!(TLin, TXyz);
        p!(TXyz, TLin);
        p!(TSrgb, THsl);
        p!(THsl, TSrgb);
        p!(TSrgb, THsv);
        p!(THsv, TSrgb);
        p!(TSrgb, THwb);
        p!(THwb, TSrgb);
        p!(TSrgb, TYxy);
        p!(TYxy, TSrgb);
        p!(TSrgb, TLab);
        p!(TLab, TSrgb);
        p!(TSrgb, TLch);
        p!(TLch, TSrgb);
        // (scalar only) p!(TSrgb, TLuv);
        // (scalar only) p!(TLuv, TSrgb);
        // (scalar only) p!(TSrgb, TLchuv);
        // (scalar only) p!(TLchuv, TSrgb);
        // (scalar only) p!(TSrgb, THsluv);
        // (scalar only) p!(THsluv, TSrgb);
        p!(TSrgb, TOklab);
        p!(TOklab, TSrgb);
        p!(TSrgb, TOklch);
        p!(TOklch, TSrgb);
        p!(TLin, TLab);
        p!(TLab, TLin);
        // (scalar only) p!(TLin, TLuv);
        // (scalar only) p!(TLuv, TLin);
        p!(TLin, TOklab);
        p!(TOklab, TLin);
        p!(TLin, TOklch);
        p!(TOklch, TLin);
        p!(TLin, TYxy);
        p!(TYxy, TLin);
        // (scalar only) p!(TLin, THsluv);
        // (scalar only) p!(THsluv, TLin);
        p!(TXyz, TYxy);
        p!(TYxy, TXyz);
        p!(TXyz, TLab);
        p!(TLab, TXyz);
        p!(TXyz, TLch);
        p!(TLch, TXyz);
        // (scalar only) p!(TXyz, TLuv);
        // (scalar only) p!(TLuv, TXyz);
        // (scalar only) p!(TXyz, TLchuv);
        // (scalar only) p!(TLchuv, TXyz);
        // (scalar only) p!(TXyz, THsluv);
        // (scalar only) p!(THsluv, TXyz);
        p!(TXyz, TOklab);
        p!(TOklab, TXyz);
        p!(TXyz, TOklch);
        p!(TOklch, TXyz);
        p!(TXyz, THsl);
        p!(THsl, TXyz);
        p!(TXyz, THsv);
        p!(THsv, TXyz);
        // neighbours
        p!(TLab, TLch);
        p!(TLch, TLab);
        p!(TLuv, TLchuv);
        p!(TLchuv, TLuv);
        // (scalar only) p!(TLchuv, THsluv);
        // (scalar only) p!(THsluv, TLchuv);
        p!(THsv, THsl);
        p!(THsl, THsv);
        p!(THsv, THwb);
        p!(THwb, THsv);
        p!(THsl, THwb);
        p!(THwb, THsl);
        p!(TOklab, TOklch);
        p!(TOklch, TOklab);
        // (scalar only) p!(TLab, TLuv);
        // (scalar only) p!(TLuv, TLab);
        // (scalar only) p!(TLch, TLchuv);
        // (scalar only) p!(TLchuv, TLch);
        p!(TOklab, TLab);
        p!(TLab, TOklab);
        vec![m]
    });
    for mut m in res {
        m.tolerance = Some("per lane: judge::tolerance of the scalar type (f64: 2e-8 S + sensitivity to 64 ulp; f32: 16u S + sensitivity to 512 ulp); max_deviation_observed is the worst deviation/tolerance ratio".into());
        m.sample(|| {
            let a = [TSrgb::<f32>::new(1.0, 0.5, 0.25), TSrgb::new(0.2, 0.2, 0.2), TSrgb::new(0.0, 0.0, 1.0), TSrgb::new(0.999, 1.0, 0.998)];
            let v: TSrgb<f32x4> = a.into();
            let h: THsl<f32x4> = v.into_color_unclamped();
            let lanes: [THsl<f32>; 4] = h.into();
            json!({"Srgb f32x4 -> Hsl lanes": lanes.iter().map(|c| vec![c.hue.into_inner(), c.saturation, c.lightness]).collect::<Vec<_>>()})
        });
        report.add(m);
    }
}

// ------------------------------------------------------------------------------------------------------------
/// masks, comparison, selection, bounds, clamp and the operators, lane by lane
macro_rules! masks_and_ops_impl {
    ($fname:ident, $V:ty, $S:ty, $N:expr) => {
        fn $fname(m: &mut Monitor, vname: &str, rng: &mut Rng, n: u64) {
            type V = $V;
            type S = $S;
            const N: usize = $N;
    let vals = |rng: &mut Rng| -> [S; N] {
        core::array::from_fn(|_| match rng.below(8) {
            0 => S::f(0.0),
            1 => S::f(1.0),
            2 => S::f(-0.0),
            3 => S::f(0.5),
            4 => S::f(rng.range(-0.5, 1.5)),
            5 => S::f(1.0 + 1e-7),
            _ => S::f(rng.unit()),
        })
    };
    // a mask with chosen lanes, built through the public API only: lt of lane-wise chosen values
    let zero: [S; N] = [S::f(0.0); N];
    for it in 0..n {
        let (a, b, c, d) = (vals(rng), vals(rng), vals(rng), vals(rng));
        let (va, vb, vc, vd) = (V::from_array(a), V::from_array(b), V::from_array(c), V::from_array(d));
        let inp = || json!({"a": a.map(|v| v.d()).to_vec(), "b": b.map(|v| v.d()).to_vec(), "c": c.map(|v| v.d()).to_vec(), "d": d.map(|v| v.d()).to_vec()});
        let ulp_s = if S::IS32 { 2.4e-7 } else { 4.5e-16 };
        // ---- comparisons, select, lazy_select
        macro_rules! cmp {
            ($op:ident, $sop:tt, $name:expr) => {{
                let mask = PartialCmp::$op(&va, &vb);
                let want: [bool; N] = core::array::from_fn(|k| a[k] $sop b[k]);
                let sel = mask.select(vc, vd).into_array();
                let lazy = mask.lazy_select(|| vc, || vd).into_array();
                m.evals(2);
                for k in 0..N {
                    let w = if want[k] { c[k] } else { d[k] };
                    if sel[k].d().to_bits() != w.d().to_bits() || lazy[k].d().to_bits() != w.d().to_bits() {
                        m.violate(&format!("{}/{}", $name, vname), "compare_select_differs_from_scalar", inp(), json!({"select": sel.map(|v| v.d()).to_vec(), "lazy_select": lazy.map(|v| v.d()).to_vec(), "lane": k}), json!(w.d()), "");
                        break;
                    }
                }
                // all-lanes / no-lanes predicates
                let (all, none) = (want.iter().all(|b| *b), want.iter().all(|b| !*b));
                if mask.is_true() != all || mask.is_false() != none {
                    m.violate(&format!("{}/{}", $name, vname), "is_true_or_is_false_differs_from_all_or_none", inp(), json!({"is_true": mask.is_true(), "is_false": mask.is_false()}), json!({"lanes": want.to_vec()}), "is_true = all lanes, is_false = no lane");
                }
                m.cell_s(&format!("{}{}{}{}", $name, vname, all, none));
                (mask, want)
            }};
        }
        let (m_lt, w_lt) = cmp!(lt, <, "lt");
        let (m_ge, w_ge) = cmp!(gt_eq, >=, "gt_eq");
        let _ = cmp!(gt, >, "gt");
        let _ = cmp!(lt_eq, <=, "lt_eq");
        let (m_eq, w_eq) = cmp!(eq, ==, "eq");
        let _ = cmp!(neq, !=, "neq");
        // mask algebra
        {
            let and = (m_lt & m_eq).select(vc, vd).into_array();
            let or = (m_lt | m_eq).select(vc, vd).into_array();
            let not = (!m_ge).select(vc, vd).into_array();
            let xor = (m_lt ^ m_ge).select(vc, vd).into_array();
            m.eval();
            for k in 0..N {
                let pick = |b: bool| if b { c[k] } else { d[k] }.d().to_bits();
                if and[k].d().to_bits() != pick(w_lt[k] && w_eq[k]) || or[k].d().to_bits() != pick(w_lt[k] || w_eq[k]) || not[k].d().to_bits() != pick(!w_ge[k]) || xor[k].d().to_bits() != pick(w_lt[k] ^ w_ge[k]) {
                    m.violate(&format!("mask_ops/{}", vname), "mask_and_or_not_xor_differ_from_scalar", inp(), json!({"lane": k}), json!(null), "");
                    break;
                }
            }
            let t = <<V as HasBoolMask>::Mask as BoolMask>::from_bool(true);
            let f = <<V as HasBoolMask>::Mask as BoolMask>::from_bool(false);
            if !t.is_true() || t.is_false() || f.is_true() || !f.is_false() {
                m.violate(&format!("mask_ops/{}", vname), "from_bool", json!(null), json!(null), json!(null), "");
            }
        }
        // ---- colours: bounds, clamp, operators
        let cols: [TSrgb<S>; N] = core::array::from_fn(|k| TSrgb::new(a[k], b[k], c[k]));
        let vcol: TSrgb<V> = cols.into();
        // round trip of the packing itself
        let back: [TSrgb<S>; N] = vcol.into();
        m.eval();
        if (0..N).any(|k| un::<_, S>(back[k]).map(f64::to_bits) != un::<_, S>(cols[k]).map(f64::to_bits)) {
            m.violate(&format!("pack/{}", vname), "pack_unpack_not_identity", inp(), json!(null), json!(null), "");
        }
        // packing of every colour family, bare and with alpha (each component and the alpha carry distinct values)
        macro_rules! pack {
            ($name:expr, $C:ident) => {{
                let cols: [$C<S>; N] = core::array::from_fn(|k| mk::<$C<S>, S>(&[a[k].d(), b[k].d() + 2.0, c[k].d() + 4.0]));
                let v: $C<V> = cols.into();
                let back: [$C<S>; N] = v.into();
                let acols: [Alpha<$C<S>, S>; N] = core::array::from_fn(|k| Alpha { color: cols[k], alpha: S::f(d[k].d() + 6.0) });
                let av: Alpha<$C<V>, V> = acols.into();
                let aback: [Alpha<$C<S>, S>; N] = av.into();
                // the packed form holds lane k of every component
                let comp: [V; 3] = cast::into_array(v);
                let lanes_ok = (0..3).all(|i| { let l = comp[i].into_array(); (0..N).all(|k| l[k].d().to_bits() == un::<_, S>(cols[k])[i].to_bits()) });
                m.evals(3);
                if (0..N).any(|k| un::<_, S>(back[k]).map(f64::to_bits) != un::<_, S>(cols[k]).map(f64::to_bits)) || !lanes_ok {
                    m.violate(&format!("pack:{}/{}", $name, vname), "pack_unpack_not_identity", inp(), json!({"unpacked": back.iter().map(|c| fvec(&un::<_, S>(*c))).collect::<Vec<_>>()}), json!({"packed_from": cols.iter().map(|c| fvec(&un::<_, S>(*c))).collect::<Vec<_>>()}), "");
                }
                if (0..N).any(|k| un::<_, S>(aback[k].color).map(f64::to_bits) != un::<_, S>(cols[k]).map(f64::to_bits) || aback[k].alpha.d().to_bits() != acols[k].alpha.d().to_bits()) {
                    m.violate(&format!("pack_alpha:{}/{}", $name, vname), "pack_unpack_not_identity", inp(), json!({"unpacked": aback.iter().map(|c| (fvec(&un::<_, S>(c.color)), c.alpha.d())).collect::<Vec<_>>()}), json!({"packed_from": acols.iter().map(|c| (fvec(&un::<_, S>(c.color)), c.alpha.d())).collect::<Vec<_>>()}), "");
                }
                m.cell_s(&format!("pack{}{}", $name, vname));
            }};
        }
        if it % 4 == 0 {
            pack!("Srgb", TSrgb);
            pack!("LinSrgb", TLin);
            pack!("Hsl", THsl);
            pack!("Hsv", THsv);
            pack!("Hwb", THwb);
            pack!("Xyz", TXyz);
            pack!("Yxy", TYxy);
            pack!("Lab", TLab);
            pack!("Lch", TLch);
            pack!("Luv", TLuv);
            pack!("Lchuv", TLchuv);
            pack!("Hsluv", THsluv);
            pack!("Oklab", TOklab);
            pack!("Oklch", TOklch);
            pack!("Okhsl", TOkhsl);
            pack!("Okhsv", TOkhsv);
            pack!("Okhwb", TOkhwb);
            pack!("Cam16UcsJab", TJab);
            pack!("Cam16UcsJmh", TJmh);
        }
        // MinMax on vectors, and the WCAG contrast of SIMD colours (the lighter / darker luminance is chosen lane by lane)
        {
            use palette::color_difference::Wcag21RelativeContrast;
            use palette::num::MinMax;
            let (mn, mx) = va.min_max(vb);
            let (mn, mx, mn1, mx1) = (mn.into_array(), mx.into_array(), MinMax::min(va, vb).into_array(), MinMax::max(va, vb).into_array());
            m.eval();
            for k in 0..N {
                let (lo, hi) = if a[k].d() <= b[k].d() { (a[k].d(), b[k].d()) } else { (b[k].d(), a[k].d()) };
                if mn[k].d() != lo || mx[k].d() != hi || mn1[k].d() != lo || mx1[k].d() != hi {
                    m.violate(&format!("min_max/{}", vname), "lane_differs_from_scalar", inp(), json!({"lane": k, "min_max": [mn[k].d(), mx[k].d()], "min": mn1[k].d(), "max": mx1[k].d()}), json!([lo, hi]), "");
                    break;
                }
            }
            let unit = |x: S| S::f(x.d().max(0.0).min(1.0));
            let c1: [TSrgb<S>; N] = core::array::from_fn(|k| TSrgb::new(unit(a[k]), unit(b[k]), unit(c[k])));
            let c2: [TSrgb<S>; N] = core::array::from_fn(|k| TSrgb::new(unit(d[k]), unit(a[k]), unit(b[k])));
            let (v1, v2): (TSrgb<V>, TSrgb<V>) = (c1.into(), c2.into());
            let r = v1.relative_contrast(v2).into_array();
            let p = v1.has_min_contrast_text(v2).select(V::from_array([S::f(1.0); N]), V::from_array(zero)).into_array();
            let l1: [palette::SrgbLuma<S>; N] = core::array::from_fn(|k| palette::SrgbLuma::new(unit(a[k])));
            let l2: [palette::SrgbLuma<S>; N] = core::array::from_fn(|k| palette::SrgbLuma::new(unit(d[k])));
            let lv1 = palette::SrgbLuma::<V>::new(V::from_array(core::array::from_fn(|k| l1[k].luma)));
            let lv2 = palette::SrgbLuma::<V>::new(V::from_array(core::array::from_fn(|k| l2[k].luma)));
            let rl = lv1.relative_contrast(lv2).into_array();
            m.evals(3);
            for k in 0..N {
                let w = c1[k].relative_contrast(c2[k]).d();
                let wl = l1[k].relative_contrast(l2[k]).d();
                let t = (if S::IS32 { 2e-4 } else { 1e-9 }) * w.max(wl);
                if !((r[k].d() - w).abs() <= t) || (p[k].d() == 1.0) != (r[k].d() >= 4.5) || !((rl[k].d() - wl).abs() <= t) {
                    m.violate(&format!("wcag_relative_contrast/{}", vname), "lane_differs_from_scalar", json!({"lane": k, "srgb1": fvec(&un::<_, S>(c1[k])), "srgb2": fvec(&un::<_, S>(c2[k]))}), json!({"rgb": r[k].d(), "min_contrast_text": p[k].d() == 1.0, "luma": rl[k].d()}), json!({"rgb": w, "luma": wl}), "");
                    break;
                }
            }
            m.cell_s(&format!("wcag{}", vname));
        }
        // hues several turns outside [0, 360): every lane wraps on its own
        {
            let hs: [S; N] = core::array::from_fn(|k| S::f(if it % 3 == 0 { (a[k].d() * 9.0).floor() * 360.0 - 1440.0 + b[k].d() * 5.0 } else { a[k].d() * 3000.0 - 1200.0 }));
            let hv: palette::RgbHue<V> = palette::RgbHue::from(V::from_array(hs));
            let pos = hv.into_positive_degrees().into_array();
            let sig = hv.into_degrees().into_array();
            m.eval();
            for k in 0..N {
                let hk = palette::RgbHue::<S>::from(hs[k]);
                let (wp, ws): (S, S) = (hk.into_positive_degrees(), hk.into_degrees());
                let t = 8.0 * ulp_s * hs[k].d().abs().max(360.0);
                let circ = |x: f64, y: f64| { let r = (x - y).rem_euclid(360.0); r.min(360.0 - r) };
                if !(circ(pos[k].d(), wp.d()) <= t) || !(circ(sig[k].d(), ws.d()) <= t) || !(pos[k].d() >= -t && pos[k].d() <= 360.0 + t) || !(sig[k].d().abs() <= 180.0 + t) {
                    m.violate(&format!("hue_normal_forms/{}", vname), "lane_differs_from_scalar", json!({"hues": hs.map(|v| v.d()).to_vec(), "lane": k}), json!({"positive": pos[k].d(), "signed": sig[k].d()}), json!({"positive": wp.d(), "signed": ws.d()}), "");
                    break;
                }
            }
            let sat: [S; N] = core::array::from_fn(|k| S::f(0.25 + 0.5 * b[k].d().max(0.0).min(1.0)));
            let val: [S; N] = core::array::from_fn(|k| S::f(0.25 + 0.5 * c[k].d().max(0.0).min(1.0)));
            macro_rules! turns {
                ($name:expr, $C:ident) => {{
                    let cols: [$C<S>; N] = core::array::from_fn(|k| mk::<$C<S>, S>(&[hs[k].d(), sat[k].d() * 0.5, val[k].d() * 0.5]));
                    let v: $C<V> = cols.into();
                    let out: TSrgb<V> = v.into_color_unclamped();
                    let got: [TSrgb<S>; N] = out.into();
                    m.eval();
                    for k in 0..N {
                        let w = un::<_, S>(IntoColorUnclamped::<TSrgb<S>>::into_color_unclamped(cols[k]));
                        let g = un::<_, S>(got[k]);
                        let t = 64.0 * ulp_s * (1.0 + hs[k].d().abs() / 60.0);
                        if !(0..3).all(|i| (g[i] - w[i]).abs() <= t) {
                            m.violate(&format!("{}_many_turns_to_rgb/{}", $name, vname), "lane_differs_from_scalar", json!({"color": fvec(&un::<_, S>(cols[k])), "lane": k}), fvec(&g), fvec(&w), "");
                            break;
                        }
                    }
                    m.cell_s(&format!("turns{}{}", $name, vname));
                }};
            }
            turns!("Hsv", THsv);
            turns!("Hsl", THsl);
            turns!("Hwb", THwb);
        }
        // is_within_bounds: mask lanes equal scalar answers; slice form = AND over the elements, lane by lane
        {
            let mask = vcol.is_within_bounds();
            let want: [bool; N] = core::array::from_fn(|k| cols[k].is_within_bounds());
            let got = mask.select(V::from_array([S::f(1.0); N]), V::from_array(zero)).into_array();
            m.eval();
            if (0..N).any(|k| (got[k].d() == 1.0) != want[k]) {
                m.violate(&format!("is_within_bounds/{}", vname), "lane_differs_from_scalar", inp(), json!(got.map(|v| v.d()).to_vec()), json!(want.to_vec()), "");
            }
            // slice of SIMD colours: lanes go out of bounds at different elements
            let len = 1 + (it % 5) as usize;
            let rows: Vec<[TSrgb<S>; N]> = (0..len)
                .map(|_| {
                    let (x, y, z) = (vals(rng), vals(rng), vals(rng));
                    core::array::from_fn(|k| TSrgb::new(x[k], y[k], z[k]))
                })
                .collect();
            let simd_rows: Vec<TSrgb<V>> = rows.iter().map(|r| (*r).into()).collect();
            let mask = simd_rows[..].is_within_bounds();
            let got = mask.select(V::from_array([S::f(1.0); N]), V::from_array(zero)).into_array();
            let want: [bool; N] = core::array::from_fn(|k| rows.iter().all(|r| r[k].is_within_bounds()));
            m.eval();
            if (0..N).any(|k| (got[k].d() == 1.0) != want[k]) {
                let rj: Vec<Vec<Vec<f64>>> = rows.iter().map(|r| r.iter().map(|c| un::<_, S>(*c).to_vec()).collect()).collect();
                m.violate(&format!("is_within_bounds_slice/{}", vname), "lane_differs_from_scalar", json!({"rows": rj}), json!(got.map(|v| v.d()).to_vec()), json!(want.to_vec()), "");
            }
            m.cell_s(&format!("wb{}{}{:?}", vname, len, want.iter().filter(|b| **b).count()));
        }
        macro_rules! lanewise {
            ($name:expr, $C:ident, $mkc:expr, $simd:expr, $scalar:expr, $tol:expr) => {{
                let cols: [$C<S>; N] = core::array::from_fn($mkc);
                let v: $C<V> = cols.into();
                let got: [$C<S>; N] = $simd(v).into();
                m.eval();
                for k in 0..N {
                    let w = un::<_, S>($scalar(cols[k], k));
                    let g = un::<_, S>(got[k]);
                    let ok = (0..3).all(|i| g[i].to_bits() == w[i].to_bits() || (g[i] - w[i]).abs() <= $tol * (1.0 + w[i].abs()) || (g[i].is_nan() && w[i].is_nan()));
                    if g.map(f64::to_bits) == w.map(f64::to_bits) {
                        m.count(concat!("bit_identical:", $name));
                    }
                    if !ok {
                        m.violate(&format!("{}/{}", $name, vname), "lane_differs_from_scalar", json!({"color": fvec(&un::<_, S>(cols[k])), "params": inp(), "lane": k}), fvec(&g), fvec(&w), "");
                        break;
                    }
                }
                m.cell_s(&format!("{}{}", $name, vname));
            }};
        }
        let ulp = if S::IS32 { 2.4e-7 } else { 4.5e-16 };
        let f = d; // factors, lane-wise different
        let vf = vd;
        lanewise!("clamp_srgb", TSrgb, |k| TSrgb::new(a[k], b[k], c[k]), |v: TSrgb<V>| v.clamp(), |c: TSrgb<S>, _k| c.clamp(), 0.0);
        lanewise!("clamp_lab", TLab, |k| TLab::new(S::f(a[k].d() * 150.0 - 20.0), S::f(b[k].d() * 300.0 - 150.0), S::f(c[k].d() * 300.0 - 150.0)), |v: TLab<V>| v.clamp(), |c: TLab<S>, _k| c.clamp(), 0.0);
        lanewise!("clamp_hsv", THsv, |k| THsv::new(S::f(a[k].d() * 720.0 - 180.0), b[k], c[k]), |v: THsv<V>| v.clamp(), |c: THsv<S>, _k| c.clamp(), 0.0);
        lanewise!("clamp_hwb", THwb, |k| THwb::new(S::f(a[k].d() * 720.0 - 180.0), b[k], c[k]), |v: THwb<V>| v.clamp(), |c: THwb<S>, _k| c.clamp(), 4.0 * ulp);
        // in-place forms and types with a lower-bound-only component (chroma)
        lanewise!("clamp_lch", TLch, |k| TLch::new(S::f(a[k].d() * 150.0 - 20.0), S::f(b[k].d() * 250.0 - 50.0), S::f(c[k].d() * 720.0 - 180.0)), |v: TLch<V>| v.clamp(), |c: TLch<S>, _k| c.clamp(), 0.0);
        lanewise!("clamp_assign_lch", TLch, |k| TLch::new(S::f(a[k].d() * 150.0 - 20.0), S::f(b[k].d() * 250.0 - 50.0), S::f(c[k].d() * 720.0 - 180.0)), |mut v: TLch<V>| { v.clamp_assign(); v }, |c: TLch<S>, _k| c.clamp(), 0.0);
        lanewise!("clamp_assign_oklch", TOklch, |k| TOklch::new(S::f(a[k].d() * 1.5 - 0.2), S::f(b[k].d() - 0.3), S::f(c[k].d() * 720.0 - 180.0)), |mut v: TOklch<V>| { v.clamp_assign(); v }, |c: TOklch<S>, _k| c.clamp(), 0.0);
        lanewise!("clamp_assign_srgb", TSrgb, |k| TSrgb::new(a[k], b[k], c[k]), |mut v: TSrgb<V>| { v.clamp_assign(); v }, |c: TSrgb<S>, _k| c.clamp(), 0.0);
        lanewise!("clamp_assign_hwb", THwb, |k| THwb::new(S::f(a[k].d() * 720.0 - 180.0), b[k], c[k]), |mut v: THwb<V>| { v.clamp_assign(); v }, |c: THwb<S>, _k| c.clamp(), 4.0 * ulp);
        lanewise!("lighten_assign_lch", TLch, |k| TLch::new(S::f(a[k].d() * 100.0), S::f(b[k].d() * 100.0), S::f(c[k].d() * 360.0)), |mut v: TLch<V>| { v.lighten_assign(vf); v }, |x: TLch<S>, k| x.lighten(f[k]), 4.0 * ulp);
        lanewise!("lighten_fixed_assign_hwb", THwb, |k| THwb::new(S::f(a[k].d() * 360.0), S::f(b[k].d() * 0.5), S::f(c[k].d() * 0.5)), |mut v: THwb<V>| { v.lighten_fixed_assign(vf); v }, |x: THwb<S>, k| x.lighten_fixed(f[k]), 4.0 * ulp);
        lanewise!("mix_srgb", TSrgb, |k| TSrgb::new(a[k], b[k], c[k]), |v: TSrgb<V>| v.mix(TSrgb::<V>::new(vb, vc, va), vf), |x: TSrgb<S>, k| x.mix(TSrgb::new(b[k], c[k], a[k]), f[k]), 4.0 * ulp);
        lanewise!("mix_hsv", THsv, |k| THsv::new(S::f(a[k].d() * 360.0), b[k], c[k]), |v: THsv<V>| v.mix(THsv::<V>::new(vb * V::splat(360.0), vc, va), vf), |x: THsv<S>, k| x.mix(THsv::<S>::new(b[k] * (360.0 as S), c[k], a[k]), f[k]), 64.0 * ulp);
        lanewise!("lighten_lab", TLab, |k| TLab::new(S::f(a[k].d() * 100.0), S::f(b[k].d() * 100.0), c[k]), |v: TLab<V>| v.lighten(vf), |x: TLab<S>, k| x.lighten(f[k]), 4.0 * ulp);
        lanewise!("darken_fixed_hsv", THsv, |k| THsv::new(S::f(a[k].d() * 360.0), b[k], c[k]), |v: THsv<V>| v.darken_fixed(vf), |x: THsv<S>, k| x.darken_fixed(f[k]), 4.0 * ulp);
        lanewise!("saturate_hsv", THsv, |k| THsv::new(S::f(a[k].d() * 360.0), b[k], c[k]), |v: THsv<V>| v.saturate(vf), |x: THsv<S>, k| x.saturate(f[k]), 4.0 * ulp);
        lanewise!("shift_hue_hsv", THsv, |k| THsv::new(S::f(a[k].d() * 360.0), b[k], c[k]), |v: THsv<V>| v.shift_hue(vf * V::splat(400.0)), |x: THsv<S>, k| x.shift_hue(f[k] * (400.0 as S)), 64.0 * ulp);
        lanewise!("add_mul_srgb", TSrgb, |k| TSrgb::new(a[k], b[k], c[k]), |v: TSrgb<V>| (v + TSrgb::<V>::new(vb, vc, va)) * vf, |x: TSrgb<S>, k| (x + TSrgb::new(b[k], c[k], a[k])) * f[k], 0.0);
    }
        }
    };
}
masks_and_ops_impl!(masks_f32x4, f32x4, f32, 4);
masks_and_ops_impl!(masks_f32x8, f32x8, f32, 8);
masks_and_ops_impl!(masks_f64x2, f64x2, f64, 2);
masks_and_ops_impl!(masks_f64x4, f64x4, f64, 4);

fn masks(ctx: &Ctx, report: &mut Report) {
    let mname = "simd_masks_packing_and_operators";
    if !ctx.enabled(mname) || ctx.replaying() {
        return;
    }
    let mon = Monitor::new(
        mname,
        "wide::{f32x4, f32x8, f64x2, f64x4}: PartialCmp (lt, lt_eq, gt, gt_eq, eq, neq) + Select + LazySelect + mask and/or/not/xor give, in every lane, what the scalar comparison and `if` give; BoolMask::is_true = all lanes, is_false = no lane, on mixed masks; packing/unpacking is the identity; is_within_bounds on a SIMD colour and on slices of SIMD colours (lanes leaving the bounds at different elements) equals the scalar answers lane by lane; clamp and clamp_assign (Srgb, Lab, Hsv, Hwb, Lch, Oklch), mix, lighten, lighten_assign, lighten_fixed_assign, darken_fixed, saturate, shift_hue, + and * with lane-wise different factors equal the scalar operator per lane (bit-exact or within a few ulp); distinct = (operation, vector type, mask shape)",
    );
    let n = ctx.n(4000, 2_000_000);
    let res = par(4, |t| {
        let mut m = mon.like();
        let mut rng = ctx.rng(mname, t as u64);
        match t {
            0 => masks_f32x4(&mut m, "f32x4", &mut rng, n),
            1 => masks_f32x8(&mut m, "f32x8", &mut rng, n),
            2 => masks_f64x2(&mut m, "f64x2", &mut rng, n),
            _ => masks_f64x4(&mut m, "f64x4", &mut rng, n),
        }
        vec![m]
    });
    for mut m in res {
        m.tolerance = Some("comparisons, selects, clamp, + and *: bit-exact; mix/lighten/darken/saturate: 4 ulp relative; hue operators: 64 ulp".into());
        report.add(m);
    }
}

/// The published definitions do not say what a transfer curve or a gamut-bounded cylinder does with
/// negative linear light: events whose model image in an RGB-based space involved has a clearly
/// negative linear component are not judged (palette extends the linear toe / clips, others mirror).
fn outside_definition(sp: Space, same_anchor: bool, mid: &V3) -> bool {
    let a = match sp.anchor() {
        Some(a) => a,
        None => return matches!(sp, Space::Luma(..)) && !same_anchor && mid[1] < -1e-7,
    };
    // the intermediate is the shared anchor's linear RGB when both spaces have the same anchor, XYZ otherwise
    let lin = if same_anchor { *mid } else { pvmon::refmodel::space::mat_vec(&a.xyz_to_rgb(), *mid) };
    let gamut_bounded = matches!(sp, Space::Hsl(_) | Space::Hsv(_) | Space::Hwb(_) | Space::Okhsl | Space::Okhsv | Space::Okhwb);
    let n = lin.iter().fold(0.0f64, |a, c| a.max(c.abs()));
    if gamut_bounded {
        // clipping / the gamut-intersection search are discontinuous at the gamut surface: any negative component is outside
        lin.iter().any(|c| *c < 0.0 || *c > 1.0 + 1e-9)
    } else {
        lin.iter().any(|c| *c < -1e-7 || *c < -1e-6 * n)
    }
}

// ------------------------------------------------------------------------------------------------------------
fn f32_vs_f64(ctx: &Ctx, report: &mut Report) {
    let mname = "f32_agrees_with_f64";
    if !ctx.enabled(mname) {
        return;
    }
    let mon = Monitor::new(
        mname,
        "every conversion pair of the table that exists for both float types: the f32 conversion of an f32-representable in-gamut input and the f64 conversion of the same input describe the same colour (cartesian form; tolerance = the f32 bound of the model's sensitivity: 16u S + 512 ulp on inputs and intermediate); both not finite counts as agreement; distinct = (pair, output cell)",
    );
    let types = ct::types();
    let pairs = ct::pairs();
    let replay = ctx.replay.as_ref().filter(|r| r.monitor == mname).map(|r| (r.inst.clone(), parse_bits64(&r.input["bits"])));
    let primaries_hues: Vec<f64> = [[1.0, 0.0, 0.0], [0.0, 1.0, 0.0], [0.0, 0.0, 1.0]]
        .iter()
        .map(|p| {
            let lab = pvmon::refmodel::ok::linear_srgb_to_oklab(*p);
            lab[2].atan2(lab[1]).to_degrees().rem_euclid(360.0)
        })
        .collect();
    let res = par(if replay.is_some() { 1 } else { ctx.threads }, |t| {
        let mut m = mon.like();
        let mut rng = ctx.rng(mname, t as u64);
        for (pi, &(i, j)) in pairs.iter().enumerate() {
            if !types[i].is_f32 {
                continue;
            }
            // the f64 twin of both types
            let n64 = |n: &str| n.replace("/f32", "/f64");
            let (i64_, j64_) = match (types.iter().position(|t| t.name == n64(types[i].name)), types.iter().position(|t| t.name == n64(types[j].name))) {
                (Some(a), Some(b)) => (a, b),
                _ => continue,
            };
            let inst = format!("{}->{}", types[i].name, types[j].name);
            if let Some((rinst, _)) = &replay {
                if *rinst != inst {
                    continue;
                }
            } else if pi % ctx.threads != t {
                continue;
            }
            let (src, dst) = (types[i].space, types[j].space);
            let xs: Vec<V3> = match &replay {
                Some((_, b)) => vec![[b[0], b[1], b[2]]],
                None => {
                    let mut v = inputs(src, &mut rng, ctx.n(150, 50_000));
                    v.retain(|x| src.in_nominal_range(x));
                    v
                }
            };
            let ok_family = |s: Space| matches!(s, Space::Okhsl | Space::Okhsv | Space::Okhwb);
            for x in xs {
                let x = [x[0] as f32 as f64, x[1] as f32 as f64, x[2] as f32 as f64];
                if !src.in_nominal_range(&x) {
                    continue;
                }
                let (g32, g64) = match (ct::convert(i, j, x), ct::convert(i64_, j64_, x)) {
                    (Some(a), Some(b)) => (a, b),
                    _ => continue,
                };
                // same definitional filter as the C02 monitor: gamut-bounded spaces are only defined inside the gamut
                let (_, mid) = src.convert_to(dst, x);
                let same = src.anchor().is_some() && src.anchor() == dst.anchor();
                if outside_definition(src, same, &mid) || outside_definition(dst, same, &mid) {
                    m.count("not_judged_outside_definition");
                    continue;
                }
                // a gamut-bounded destination whose f64 result is itself far outside its bounds (near-white / near-black
                // amplification of a residual chroma) is the business of C15, not an f32-vs-f64 event
                if matches!(dst, Space::Okhsl | Space::Okhsv | Space::Okhwb | Space::Hsluv(_)) {
                    let u = dst.scale();
                    if g64[1].is_finite() && (g64[1] < -0.02 * u || g64[1] > 1.02 * u) {
                        m.count("not_judged_f64_result_outside_bounds");
                        continue;
                    }
                }
                m.eval();
                let (n32, n64_) = (g32.iter().any(|c| !c.is_finite()), g64.iter().any(|c| !c.is_finite()));
                if n32 && n64_ {
                    m.count("both_not_finite");
                    continue;
                }
                let tol = judge::tolerance(src, dst, &x, true);
                if !tol.is_finite() {
                    m.count("not_judged_no_finite_model_sensitivity");
                    continue;
                }
                let d = if n32 != n64_ { f64::INFINITY } else { judge::dist(&dst.cmp_vec(g32), &dst.cmp_vec(g64)) };
                if !(d <= tol) {
                    // recorded findings seen from this side
                    let xyz = src.to_xyz(x);
                    let lab = pvmon::refmodel::space::xyz_to_oklab(xyz);
                    let hue = lab[2].atan2(lab[1]).to_degrees().rem_euclid(360.0);
                    let want = src.convert_to(dst, x).0;
                    let bare_power = matches!(dst, Space::Rgb(s) | Space::Hsl(s) | Space::Hsv(s) | Space::Hwb(s) if matches!(s.tf, pvmon::refmodel::transfer::Tf::Adobe | pvmon::refmodel::transfer::Tf::P3Gamma));
                    let neg_lin = dst.anchor().map_or(false, |a| {
                        let lin = pvmon::refmodel::space::mat_vec(&a.xyz_to_rgb(), xyz);
                        let n = lin.iter().fold(1.0f64, |a, c| a.max(c.abs()));
                        lin.iter().any(|c| *c < 1e-6 * n)
                    });
                    let class = if n32 != n64_ && bare_power && neg_lin {
                        // a linear component that is zero up to rounding is negative in one float type and not in the other
                        "f32_differs_from_f64:bare_power_tf_negative_linear"
                    } else if (ok_family(src) || ok_family(dst)) && primaries_hues.iter().any(|p| (hue - p).abs() <= 2e-3) {
                        "f32_differs_from_f64:ok_sector_boundary_hue_in_f32"
                    } else if matches!(dst, Space::Hsl(_)) && src.anchor() != dst.anchor() && ((want[2] - 1.0).abs() <= 2e-6 || (g64[2] - 1.0).abs() <= 2e-6) {
                        "f32_differs_from_f64:hsl_white_overshoot"
                    } else if (matches!(dst, Space::Hsluv(_)) && want[2] > 100.0 - 1e-3) || (matches!(src, Space::Hsluv(_)) && x[2] > 100.0 - 1e-3) {
                        "f32_differs_from_f64:hsluv_no_guard_at_white"
                    } else if matches!(dst, Space::Okhsl) && (g64[2] >= 1.0 - 1e-5 || (g64[2] <= 5e-3 && d <= 2e-2)) {
                        // maximum chroma ~ (1 - L) or ~ L vanishes: f32 cannot hold the quotient
                        "f32_differs_from_f64:okhsl_saturation_at_white_or_black"
                    } else {
                        "f32_differs_from_f64"
                    };
                    m.violate(&inst, class, json!({"bits": bits64(&x), "x": fvec(&x)}), fvec(&g32), json!({"f64": fvec(&g64), "tolerance": tol, "deviation": d}), "");
                } else {
                    let r = d / tol;
                    if r > m.max_dev {
                        m.max_dev = r;
                        m.argmax = Some(json!({"pair": inst, "x": fvec(&x), "f32": fvec(&g32), "f64": fvec(&g64), "ratio": r}));
                    }
                }
                let w = dst.cmp_vec(g64);
                m.cell(pvmon::rng::mix(pi as u64, ((w[0] * 4.0 / dst.scale()) as i64 & 7) as u64 | (((g64[1].abs() * 3.0) as u64 & 3) << 3)));
            }
        }
        vec![m]
    });
    for mut m in res {
        m.tolerance = Some("16u S + model sensitivity to 512 f32-ulp perturbations of the input and the intermediate (judge::tolerance for f32); max_deviation_observed is the worst deviation/tolerance ratio".into());
        report.add(m);
    }
}

fn main() {
    let ctx = Ctx::from_args("C17");
    let mut report = Report::new(&ctx);
    conversions(&ctx, &mut report);
    masks(&ctx, &mut report);
    f32_vs_f64(&ctx, &mut report);
    report.finish();
}
