//! C18 — struct-of-arrays colour collections behave like `Vec<Color>`.
//!
//! Oracle: a sequential model `Vec<Color<f32>>` subjected to the same history; every observable
//! (returned items, yielded sequences, lengths, Some/None, panics of drain ranges) and the full
//! state are compared after every operation. Colours carry unique ids in their components, so a
//! history is unambiguous.

#![allow(clippy::all)]
use core::marker::PhantomData;
use palette::cast;
use palette::rgb::Rgb;
use palette::hues::*;
use palette::*;
use pvmon::report::{Ctx, Monitor, Report};
use pvmon::{json, Rng, Value};
use std::panic::{catch_unwind, AssertUnwindSafe};

fn bits<const N: usize>(a: [f32; N]) -> Vec<u32> {
    a.iter().map(|x| x.to_bits()).collect()
}

struct Hist<'a> {
    m: &'a mut Monitor,
    ty: &'static str,
    ops: Vec<String>,
    start_state: u64,
    failed: bool,
    lean: bool,
}
impl<'a> Hist<'a> {
    fn op(&mut self, s: String) {
        self.ops.push(s);
    }
    fn check(&mut self, cond: bool, class: &str, detail: impl FnOnce() -> Value) {
        self.m.eval();
        if !cond && !self.failed {
            self.failed = true;
            let d = detail();
            self.m.violate(self.ty, class, json!({"rng_state": format!("{:#018x}", self.start_state), "history": self.ops}), d, json!("identical to the Vec<Color> model"), "");
        }
    }
}

macro_rules! soa_suite {
    ($mon:expr, $ctx:expr, $name:expr, $S:ty, $E:ty, $n:literal, $mk:expr, $lens:expr, $boxed:expr) => {{
        #[inline(never)]
        fn run(mon: &mut Monitor, ctx: &Ctx) {
            let tyname: &'static str = $name;
            type S = $S;
            type E = $E;
            let mk: fn(u32) -> E = $mk;
            let lens: fn(&S) -> Vec<usize> = $lens;
            let key = |e: &E| -> Vec<u32> { bits::<$n>(cast::into_array(e.clone())) };
            let replay = ctx.replay_input("soa_histories", tyname);
            if ctx.replaying() && replay.is_none() {
                return;
            }
            if ctx.nshards > 1 && pvmon::rng::hash_str(tyname) % ctx.nshards != ctx.shard {
                return;
            }
            let lean = ctx.mode != "native" && ctx.mode != "native-dev";
            let nhist = if replay.is_some() { 1 } else if ctx.is_miri() { ctx.n(12, 200) } else if lean { ctx.n(3000, 100_000) } else { ctx.n(3000, 400_000) };
            let mut rng = ctx.rng(&format!("soa{}", tyname), 0);
            if let Some(inp) = &replay {
                rng = Rng(u64::from_str_radix(inp["rng_state"].as_str().unwrap().trim_start_matches("0x"), 16).unwrap());
            }
            mon.count("types");
            for hno in 0..nhist {
                let start_state = rng.0;
                let mut h = Hist { m: &mut *mon, ty: tyname, ops: Vec::new(), start_state, failed: false, lean };
                let mut next_id: u32 = 1;
                let mut fresh = |n: usize| -> Vec<E> {
                    (0..n)
                        .map(|_| {
                            next_id += 1;
                            mk(next_id)
                        })
                        .collect()
                };
                let mut s: S = if rng.chance(0.5) { S::with_capacity(rng.below(6) as usize) } else { fresh(rng.below(5) as usize).into_iter().collect() };
                let mut model: Vec<E> = s.iter().map(|c| c.copied()).collect();
                h.check(model.len() <= 4, "collect_initial", || json!(model.len()));
                let nops = 1 + rng.below(if ctx.is_miri() { 10 } else { 24 });
                for _ in 0..nops {
                    let len = model.len();
                    let kind = rng.below(20);
                    match kind {
                        0 | 1 => {
                            let e = fresh(1).pop().unwrap();
                            h.op(format!("push({:?})", key(&e)));
                            s.push(e.clone());
                            model.push(e);
                        }
                        2 => {
                            h.op("pop".into());
                            let a = s.pop();
                            let b = model.pop();
                            h.check(a.as_ref().map(|x| key(x)) == b.as_ref().map(|x| key(x)), "pop_result", || json!({"soa": a.as_ref().map(|x| key(x)), "model": b.as_ref().map(|x| key(x))}));
                        }
                        3 => {
                            let items = fresh(rng.below(4) as usize);
                            h.op(format!("extend({})", items.len()));
                            s.extend(items.clone());
                            model.extend(items);
                        }
                        4 => {
                            let items = fresh(rng.below(5) as usize);
                            h.op(format!("collect({})", items.len()));
                            s = items.clone().into_iter().collect();
                            model = items;
                        }
                        5 => {
                            if rng.chance(0.3) {
                                h.op("clear".into());
                                s.clear();
                                model.clear();
                            }
                        }
                        6 | 7 | 8 => {
                            // drain over every kind of range, including inverted and out of range
                            let a = rng.below(len as u64 + 3) as usize;
                            let b = rng.below(len as u64 + 3) as usize;
                            let form = rng.below(5);
                            let consume = rng.below(3); // 0 = fully, 1 = partially (front/back mix) then drop, 2 = drop at once
                            h.op(format!("drain(form={},a={},b={},consume={})", form, a, b, consume));
                            let take_pattern: Vec<bool> = (0..rng.below(4)).map(|_| rng.chance(0.5)).collect();
                            macro_rules! do_drain {
                                ($range:expr) => {{
                                    let r1 = catch_unwind(AssertUnwindSafe(|| {
                                        let mut d = s.drain($range);
                                        let mut out: Vec<Vec<u32>> = Vec::new();
                                        let mut lens_seen = vec![d.len()];
                                        match consume {
                                            0 => {
                                                for x in &mut d {
                                                    out.push(key(&x));
                                                }
                                            }
                                            1 => {
                                                for &front in &take_pattern {
                                                    let x = if front { d.next() } else { d.next_back() };
                                                    out.push(x.map(|x| key(&x)).unwrap_or_default());
                                                    lens_seen.push(d.len());
                                                }
                                            }
                                            _ => {}
                                        }
                                        drop(d);
                                        (out, lens_seen)
                                    }));
                                    let r2 = catch_unwind(AssertUnwindSafe(|| {
                                        let mut d = model.drain($range);
                                        let mut out: Vec<Vec<u32>> = Vec::new();
                                        let mut lens_seen = vec![d.len()];
                                        match consume {
                                            0 => {
                                                for x in &mut d {
                                                    out.push(key(&x));
                                                }
                                            }
                                            1 => {
                                                for &front in &take_pattern {
                                                    let x = if front { d.next() } else { d.next_back() };
                                                    out.push(x.map(|x| key(&x)).unwrap_or_default());
                                                    lens_seen.push(d.len());
                                                }
                                            }
                                            _ => {}
                                        }
                                        drop(d);
                                        (out, lens_seen)
                                    }));
                                    match (r1, r2) {
                                        (Ok(x), Ok(y)) => {
                                            h.m.count("drain_ok");
                                            h.check(x == y, "drain_yield", || json!({"soa": x, "model": y}));
                                        }
                                        (Err(_), Err(_)) => h.m.count("drain_panics_matched"),
                                        (a, b) => h.check(false, "drain_panic_mismatch", || json!({"soa_panicked": a.is_err(), "model_panicked": b.is_err()})),
                                    }
                                }};
                            }
                            match form {
                                0 => do_drain!(a..b),
                                1 => do_drain!(a..=b),
                                2 => do_drain!(a..),
                                3 => do_drain!(..b),
                                _ => do_drain!(..),
                            }
                        }
                        9 => {
                            let i = rng.below(len as u64 + 2) as usize;
                            h.op(format!("get({})", i));
                            let a = s.get(i).map(|c| key(&c.copied()));
                            let b = model.get(i).map(|c| key(c));
                            h.check(a == b, "get_index", || json!({"soa": a, "model": b}));
                        }
                        10 => {
                            let a = rng.below(len as u64 + 2) as usize;
                            let b = rng.below(len as u64 + 2) as usize;
                            h.op(format!("get({}..{})", a, b));
                            let x: Option<Vec<Vec<u32>>> = s.get(a..b).map(|sl| sl.into_iter().map(|c| key(&c.copied())).collect());
                            let y: Option<Vec<Vec<u32>>> = model.get(a..b).map(|sl| sl.iter().map(|c| key(c)).collect());
                            h.check(x == y, "get_range", || json!({"soa": x, "model": y}));
                            let x: Option<Vec<Vec<u32>>> = s.get(..=a).map(|sl| (&sl).into_iter().rev().map(|c| key(&c.copied())).collect());
                            let y: Option<Vec<Vec<u32>>> = model.get(..=a).map(|sl| sl.iter().rev().map(|c| key(c)).collect());
                            h.check(x == y, "get_range_inclusive_rev", || json!({"soa": x, "model": y}));
                        }
                        11 => {
                            let i = rng.below(len as u64 + 1) as usize;
                            let e = fresh(1).pop().unwrap();
                            h.op(format!("get_mut({}).set", i));
                            let did = match s.get_mut(i) {
                                Some(mut c) => {
                                    c.set(e.clone());
                                    true
                                }
                                None => false,
                            };
                            let did2 = match model.get_mut(i) {
                                Some(c) => {
                                    *c = e;
                                    true
                                }
                                None => false,
                            };
                            h.check(did == did2, "get_mut_some_none", || json!({"soa": did, "model": did2}));
                        }
                        12 => {
                            h.op("iter_mut.set(every other)".into());
                            let news = fresh(len);
                            for (k, mut c) in s.iter_mut().enumerate() {
                                if k % 2 == 0 {
                                    c.set(news[k].clone());
                                }
                            }
                            for (k, c) in model.iter_mut().enumerate() {
                                if k % 2 == 0 {
                                    *c = news[k].clone();
                                }
                            }
                            // ranged get_mut through a mutable slice view
                            if len >= 2 {
                                if let Some(sl) = s.get_mut(1..len) {
                                    let mut it = sl.into_iter();
                                    if let Some(mut last) = it.next_back() {
                                        last.set(news[0].clone());
                                        model[len - 1] = news[0].clone();
                                    }
                                }
                            }
                        }
                        13 => {
                            h.op("iter fwd/rev/len".into());
                            let x: Vec<Vec<u32>> = s.iter().map(|c| key(&c.copied())).collect();
                            let y: Vec<Vec<u32>> = model.iter().map(|c| key(c)).collect();
                            h.check(x == y, "iter_forward", || json!({"soa": x, "model": y}));
                            let x: Vec<Vec<u32>> = s.iter().rev().map(|c| key(&c.copied())).collect();
                            let y: Vec<Vec<u32>> = model.iter().rev().map(|c| key(c)).collect();
                            h.check(x == y, "iter_backward", || json!({"soa": x, "model": y}));
                            h.check(s.iter().len() == model.len() && s.iter().count() == model.len() && s.iter().size_hint() == (model.len(), Some(model.len())), "iter_len", || json!({"soa": s.iter().len(), "model": model.len()}));
                        }
                        14 => {
                            h.op("iter mixed next/next_back".into());
                            let mut a = s.iter();
                            let mut b = model.iter();
                            for _ in 0..len + 2 {
                                let front = rng.chance(0.5);
                                let x = if front { a.next() } else { a.next_back() }.map(|c| key(&c.copied()));
                                let y = if front { b.next() } else { b.next_back() }.map(|c| key(c));
                                let (la, lb) = (a.len(), b.len());
                                h.check(x == y && la == lb, "iter_mixed", || json!({"front": front, "soa": x, "model": y, "len_soa": la, "len_model": lb}));
                            }
                        }
                        15 => {
                            h.op("into_iter by value (clone) + boxed/array views".into());
                            let x: Vec<Vec<u32>> = s.clone().into_iter().map(|c| key(&c)).collect();
                            let y: Vec<Vec<u32>> = model.iter().map(|c| key(c)).collect();
                            h.check(x == y, "into_iter_owned", || json!({"soa": x, "model": y}));
                            let x: Vec<Vec<u32>> = s.clone().into_iter().rev().map(|c| key(&c)).collect();
                            let yr: Vec<Vec<u32>> = y.iter().rev().cloned().collect();
                            h.check(x == yr, "into_iter_owned_rev", || json!({"soa": x, "model": yr}));
                            // boxed-slice container
                            let mut bx = ($boxed)(s.clone());
                            let x: Vec<Vec<u32>> = (&bx).into_iter().map(|c| key(&c.copied())).collect();
                            h.check(x == y, "box_iter", || json!({"soa": x, "model": y}));
                            let i = rng.below(len as u64 + 1) as usize;
                            let a = bx.get(i).map(|c| key(&c.copied()));
                            h.check(a == y.get(i).cloned(), "box_get", || json!({"soa": a}));
                            if let Some(mut c) = bx.get_mut(i) {
                                c.set(mk(7));
                            }
                            let x: Vec<Vec<u32>> = (&mut bx).into_iter().map(|c| key(&c.copied())).collect();
                            let mut y2 = y.clone();
                            if i < len {
                                y2[i] = key(&mk(7));
                            }
                            h.check(x == y2, "box_iter_mut_after_set", || json!({"soa": x, "model": y2}));
                        }
                        17 | 18 | 19 => {
                            // iterator adaptors that reach nth / nth_back / size_hint / last of the component iterators, on
                            // the borrowing, the owning and the draining iterator
                            let k = rng.below(len as u64 + 2) as usize;
                            let step = 1 + rng.below(3) as usize;
                            h.op(format!("adaptors nth({k}) nth_back({k}) rev.skip({k}) step_by({step}) take({k}).rev last"));
                            let ym: Vec<Vec<u32>> = model.iter().map(|c| key(c)).collect();
                            macro_rules! adapt {
                                ($aname:expr, $amk:expr, $aconv:expr) => {{
                                    let mut it = $amk;
                                    let a1 = it.nth(k).map($aconv);
                                    let a2 = it.nth_back(k).map($aconv);
                                    let a3: Vec<Vec<u32>> = it.map($aconv).collect();
                                    let mut mi = ym.iter().cloned();
                                    let b1 = mi.nth(k);
                                    let b2 = mi.nth_back(k);
                                    let b3: Vec<Vec<u32>> = mi.collect();
                                    h.check(a1 == b1 && a2 == b2 && a3 == b3, concat!("iterator_adaptors:", $aname, ":nth_then_nth_back_then_rest"), || json!({"k": k, "soa": [format!("{:?}", a1), format!("{:?}", a2), format!("{:?}", a3)], "model": [format!("{:?}", b1), format!("{:?}", b2), format!("{:?}", b3)]}));
                                    let a: Vec<Vec<u32>> = ($amk).rev().skip(k).map($aconv).collect();
                                    let b: Vec<Vec<u32>> = ym.iter().cloned().rev().skip(k).collect();
                                    h.check(a == b, concat!("iterator_adaptors:", $aname, ":rev_skip"), || json!({"k": k, "soa": a, "model": b}));
                                    let a: Vec<Vec<u32>> = ($amk).step_by(step).map($aconv).collect();
                                    let b: Vec<Vec<u32>> = ym.iter().cloned().step_by(step).collect();
                                    let a2: Vec<Vec<u32>> = ($amk).rev().step_by(step).map($aconv).collect();
                                    let b2: Vec<Vec<u32>> = ym.iter().cloned().rev().step_by(step).collect();
                                    h.check(a == b && a2 == b2, concat!("iterator_adaptors:", $aname, ":step_by"), || json!({"step": step, "soa": a, "model": b, "soa_rev": a2, "model_rev": b2}));
                                    let a: Vec<Vec<u32>> = ($amk).take(k).rev().map($aconv).collect();
                                    let b: Vec<Vec<u32>> = ym.iter().cloned().take(k).rev().collect();
                                    let (al, bl) = (($amk).last().map($aconv), ym.last().cloned());
                                    h.check(a == b && al == bl, concat!("iterator_adaptors:", $aname, ":take_rev_last"), || json!({"k": k, "soa": a, "model": b}));
                                }};
                            }
                            adapt!("iter", s.iter(), |c| key(&c.copied()));
                            adapt!("into_iter", s.clone().into_iter(), |c| key(&c));
                            {
                                let mut tmp = s.clone();
                                let mut it = tmp.drain(..);
                                let a1 = it.nth(k).map(|c| key(&c));
                                let a2 = it.nth_back(k).map(|c| key(&c));
                                let a3: Vec<Vec<u32>> = it.map(|c| key(&c)).collect();
                                let mut mi = ym.iter().cloned();
                                let (b1, b2) = (mi.nth(k), mi.nth_back(k));
                                let b3: Vec<Vec<u32>> = mi.collect();
                                h.check(a1 == b1 && a2 == b2 && a3 == b3, "iterator_adaptors:drain:nth_then_nth_back_then_rest", || json!({"k": k}));
                            }
                        }
                        _ => {
                            h.op("slice views: get(..) into_iter, get(i) on slice".into());
                            if let Some(sl) = s.get(..) {
                                let i = rng.below(len as u64 + 1) as usize;
                                let a = sl.get(i).map(|c| key(&c.copied()));
                                let b = model.get(i).map(|c| key(c));
                                h.check(a == b, "slice_view_get", || json!({"soa": a, "model": b}));
                                let n = sl.iter().len();
                                h.check(n == len, "slice_view_len", || json!({"soa": n, "model": len}));
                                let x: Vec<Vec<u32>> = sl.into_iter().map(|c| key(&c.copied())).collect();
                                let y: Vec<Vec<u32>> = model.iter().map(|c| key(c)).collect();
                                h.check(x == y, "slice_view_iter", || json!({"soa": x, "model": y}));
                            } else {
                                h.check(false, "slice_view_full_range_none", || json!(len));
                            }
                        }
                    }
                    // full state comparison after every operation
                    let ls = lens(&s);
                    let all_eq = ls.iter().all(|l| *l == model.len());
                    h.check(all_eq, "component_lengths", || json!({"component_lens": ls, "model_len": model.len()}));
                    if all_eq {
                        let same = s.iter().zip(model.iter()).all(|(a, b)| key(&a.copied()) == key(b));
                        h.check(same, "state_contents", || json!({"soa": s.iter().map(|c| key(&c.copied())).collect::<Vec<_>>(), "model": model.iter().map(|c| key(c)).collect::<Vec<_>>()}));
                    }
                    if !h.lean {
                        h.m.cell(pvmon::rng::mix(pvmon::rng::hash_str(tyname), (kind << 8) | model.len().min(15) as u64));
                    }
                    if h.failed {
                        break;
                    }
                }
                if !lean {
                    let hh = h.ops.iter().fold(pvmon::rng::hash_str(tyname), |a, o| pvmon::rng::mix(a, pvmon::rng::hash_str(o)));
                    h.m.cell(hh);
                    if hno < 1 {
                        let ops = h.ops.clone();
                        h.m.sample(|| json!({"type": tyname, "history": ops}));
                    }
                } else {
                    h.m.cell(pvmon::rng::mix(pvmon::rng::hash_str(tyname), hno));
                }
                h.m.count("histories");
            }
        }
        run($mon, $ctx);
    }};
}

/// transparent collections whose alpha has a different element type than the colour (`Alpha<Color<Vec<f32>>, Vec<u16>>`):
/// the Vec-like methods that exist for them (with_capacity, push, pop, clear, drain, get, get_mut) against a model vector;
/// and collections whose components were given different lengths through the public fields: `get` / `get_mut` answer
/// `None` exactly when one of the component lookups fails, and never panic.
/// by-value items of the mixed-alpha collections. Implemented for the transparent item *and* for the bare colour: if the
/// Vec-like methods of `Alpha<Color<Vec<T>>, Vec<A>>` ever stop applying for A != T, method resolution falls through
/// `DerefMut` to the colour's own push / pop / drain, which still compiles; the monitor must then see the alpha vector
/// fall behind at run time instead of failing to build.
trait MixedItem {
    fn to_m(self) -> ([f32; 3], u16);
    fn from_m(e: ([f32; 3], u16)) -> Self;
}
impl MixedItem for Alpha<Rgb<St, f32>, u16> {
    fn to_m(self) -> ([f32; 3], u16) {
        ([self.color.red, self.color.green, self.color.blue], self.alpha)
    }
    fn from_m(e: ([f32; 3], u16)) -> Self {
        Alpha { color: Rgb::new(e.0[0], e.0[1], e.0[2]), alpha: e.1 }
    }
}
impl MixedItem for Rgb<St, f32> {
    fn to_m(self) -> ([f32; 3], u16) {
        ([self.red, self.green, self.blue], 0xffff)
    }
    fn from_m(e: ([f32; 3], u16)) -> Self {
        Rgb::new(e.0[0], e.0[1], e.0[2])
    }
}
impl MixedItem for Alpha<Hsv<St, f32>, u16> {
    fn to_m(self) -> ([f32; 3], u16) {
        ([self.color.hue.into_inner(), self.color.saturation, self.color.value], self.alpha)
    }
    fn from_m(e: ([f32; 3], u16)) -> Self {
        Alpha { color: Hsv::new(e.0[0], e.0[1], e.0[2]), alpha: e.1 }
    }
}
impl MixedItem for Hsv<St, f32> {
    fn to_m(self) -> ([f32; 3], u16) {
        ([self.hue.into_inner(), self.saturation, self.value], 0xffff)
    }
    fn from_m(e: ([f32; 3], u16)) -> Self {
        Hsv::new(e.0[0], e.0[1], e.0[2])
    }
}

macro_rules! mixed_alpha_suite {
    ($mon:expr, $ctx:expr, $name:expr, $S:ty, $lens:expr, $readref:expr, $write:expr, $parts:expr) => {{
        #[inline(never)]
        fn run(mon: &mut Monitor, ctx: &Ctx) {
            let tyname: &'static str = $name;
            type S = $S;
            type M = ([f32; 3], u16);
            if ctx.replaying() || (ctx.nshards > 1 && pvmon::rng::hash_str(tyname) % ctx.nshards != ctx.shard) {
                return;
            }
            let lean = ctx.mode != "native" && ctx.mode != "native-dev";
            let nhist = if ctx.is_miri() { ctx.n(10, 150) } else { ctx.n(3000, 200_000) };
            let mut rng = ctx.rng(&format!("mixed{}", tyname), 0);
            mon.count("types");
            let key = |e: &M| -> Vec<u32> { vec![e.0[0].to_bits(), e.0[1].to_bits(), e.0[2].to_bits(), e.1 as u32] };
            for hno in 0..nhist {
                let start_state = rng.0;
                let mut h = Hist { m: &mut *mon, ty: tyname, ops: Vec::new(), start_state, failed: false, lean };
                let mut next_id: u32 = 1;
                let mut fresh = || -> M {
                    next_id += 1;
                    ([f(next_id, 0), f(next_id, 1), f(next_id, 2)], (next_id * 7 + 3) as u16)
                };
                let mut s: S = ($parts)([0; 4]);
                let mut model: Vec<M> = Vec::new();
                let nops = 1 + rng.below(if ctx.is_miri() { 10 } else { 20 });
                for _ in 0..nops {
                    let len = model.len();
                    match rng.below(10) {
                        0 | 1 | 2 => {
                            let e = fresh();
                            h.op(format!("push({:?})", key(&e)));
                            s.push(MixedItem::from_m(e));
                            model.push(e);
                        }
                        3 => {
                            h.op("pop".into());
                            let a: Option<M> = s.pop().map(MixedItem::to_m);
                            let b = model.pop();
                            h.check(a.map(|x| key(&x)) == b.map(|x| key(&x)), "mixed_alpha:pop_result", || json!({"soa": a.map(|x| key(&x)), "model": b.map(|x| key(&x))}));
                        }
                        4 => {
                            if rng.chance(0.4) {
                                h.op("clear".into());
                                s.clear();
                                model.clear();
                            }
                        }
                        5 | 6 => {
                            let a = rng.below(len as u64 + 1) as usize;
                            let b = a + rng.below((len - a) as u64 + 1) as usize;
                            let consume = rng.chance(0.6);
                            h.op(format!("drain({}..{}, consume={})", a, b, consume));
                            let got: Vec<M> = if consume { s.drain(a..b).map(MixedItem::to_m).collect() } else { drop(s.drain(a..b)); Vec::new() };
                            let want: Vec<M> = model.drain(a..b).collect();
                            if consume {
                                h.check(got.iter().map(|x| key(x)).collect::<Vec<_>>() == want.iter().map(|x| key(x)).collect::<Vec<_>>(), "mixed_alpha:drain_yield", || json!({"soa": got.iter().map(|x| key(x)).collect::<Vec<_>>(), "model": want.iter().map(|x| key(x)).collect::<Vec<_>>()}));
                            }
                        }
                        7 => {
                            let i = rng.below(len as u64 + 2) as usize;
                            h.op(format!("get({})", i));
                            let a: Option<M> = s.get(i).map($readref);
                            let b = model.get(i).copied();
                            h.check(a.map(|x| key(&x)) == b.map(|x| key(&x)), "mixed_alpha:get_index", || json!({"soa": a.map(|x| key(&x)), "model": b.map(|x| key(&x))}));
                        }
                        8 => {
                            let i = rng.below(len as u64 + 2) as usize;
                            let e = fresh();
                            h.op(format!("get_mut({}) + write", i));
                            let hit = match s.get_mut(i) {
                                Some(c) => {
                                    ($write)(c, e);
                                    true
                                }
                                None => false,
                            };
                            h.check(hit == (i < len), "mixed_alpha:get_mut_some_iff_in_range", || json!({"index": i, "len": len, "some": hit}));
                            if i < len {
                                model[i] = e;
                            }
                        }
                        _ => {
                            let a = rng.below(len as u64 + 2) as usize;
                            let b = rng.below(len as u64 + 2) as usize;
                            h.op(format!("get({}..{})", a, b));
                            let got = s.get(a..b).is_some();
                            let want = model.get(a..b).is_some();
                            h.check(got == want, "mixed_alpha:get_range_some_iff_valid", || json!({"a": a, "b": b, "len": len, "soa_some": got, "model_some": want}));
                        }
                    }
                    let ls = ($lens)(&s);
                    let all_eq = ls.iter().all(|l| *l == model.len());
                    h.check(all_eq, "mixed_alpha:component_lengths", || json!({"component_lens": ls, "model_len": model.len()}));
                    if all_eq {
                        let same = (0..model.len()).all(|i| s.get(i).map($readref).map(|x| key(&x)) == Some(key(&model[i])));
                        h.check(same, "mixed_alpha:state_contents", || json!({"model": model.iter().map(|x| key(x)).collect::<Vec<_>>()}));
                    }
                    if h.failed {
                        break;
                    }
                }
                if !lean {
                    let hh = h.ops.iter().fold(pvmon::rng::hash_str(tyname), |a, o| pvmon::rng::mix(a, pvmon::rng::hash_str(o)));
                    h.m.cell(hh);
                    if hno < 1 {
                        let ops = h.ops.clone();
                        h.m.sample(|| json!({"type": tyname, "history": ops}));
                    }
                } else {
                    h.m.cell(pvmon::rng::mix(pvmon::rng::hash_str(tyname), hno));
                }
                h.m.count("histories");
            }
            // components of different lengths (public fields): get / get_mut are total
            for case in 0..ctx.n(200, 2000) {
                let lens: [usize; 4] = [rng.below(5) as usize, rng.below(5) as usize, rng.below(5) as usize, rng.below(5) as usize];
                let min = *lens.iter().min().unwrap();
                let mut s: S = ($parts)(lens);
                for i in 0..6usize {
                    mon.evals(3);
                    let r = catch_unwind(AssertUnwindSafe(|| (s.get(i).is_some(), s.get_mut(i).is_some(), s.get(i..i + 1).is_some(), s.get(..i).is_some())));
                    let want = (i < min, i < min, i + 1 <= min, i <= min);
                    if r.as_ref().ok() != Some(&want) {
                        mon.violate(tyname, "mixed_alpha:get_with_unequal_component_lengths", json!({"component_lens": lens.to_vec(), "index": i}), json!(match r { Ok(x) => format!("{:?}", x), Err(_) => "panic".into() }), json!(format!("{:?}", want)), "Some exactly when every component lookup succeeds");
                    }
                }
                if case < 4 {
                    mon.cell_s(&format!("{}unequal{}", tyname, case));
                }
            }
        }
        run($mon, $ctx);
    }};
}

type St = palette::encoding::Srgb;
type Wp = palette::white_point::D65;
fn f(id: u32, k: u32) -> f32 {
    (id * 8 + k) as f32 + 0.25
}


fn hl<T>(h: &RgbHue<Vec<T>>) -> usize {
    h.iter().len()
}

/// fixed-size array containers `Color<[T; N]>` (built by hand) iterate / index like the model
fn array_containers(m: &mut Monitor, ctx: &Ctx) {
    if ctx.replaying() || ctx.shard != 0 {
        return;
    }
    let rgb = Rgb::<St, [f32; 3]> { red: [f(1, 0), f(2, 0), f(3, 0)], green: [f(1, 1), f(2, 1), f(3, 1)], blue: [f(1, 2), f(2, 2), f(3, 2)], standard: PhantomData };
    let model: Vec<Vec<u32>> = (1..=3).map(|i| bits::<3>([f(i, 0), f(i, 1), f(i, 2)])).collect();
    let x: Vec<Vec<u32>> = (&rgb).into_iter().map(|c| bits::<3>(cast::into_array(c.copied()))).collect();
    let y: Vec<Vec<u32>> = rgb.clone().into_iter().rev().map(|c| bits::<3>(cast::into_array(c))).collect();
    let g = rgb.get(1).map(|c| bits::<3>(cast::into_array(c.copied())));
    let gr: Option<Vec<Vec<u32>>> = rgb.get(1..).map(|sl| sl.into_iter().map(|c| bits::<3>(cast::into_array(c.copied()))).collect());
    m.evals(4);
    let yr: Vec<Vec<u32>> = model.iter().rev().cloned().collect();
    if x != model || y != yr || g != Some(model[1].clone()) || gr != Some(model[1..].to_vec()) || rgb.iter().len() != 3 || rgb.get(3).is_some() || rgb.get(2..5).is_some() {
        m.violate("Rgb<Srgb,[f32;3]>", "array_container", json!({}), json!({"iter": x, "rev": y, "get1": g}), json!(model), "");
    }
    let mut hsva = Alpha::<Hsv<St, [f32; 3]>, [f32; 3]> { color: Hsv { hue: RgbHue::new([f(1, 0), f(2, 0), f(3, 0)]), saturation: [f(1, 1), f(2, 1), f(3, 1)], value: [f(1, 2), f(2, 2), f(3, 2)], standard: PhantomData }, alpha: [f(1, 3), f(2, 3), f(3, 3)] };
    let mut model: Vec<Vec<u32>> = (1..=3).map(|i| bits::<4>([f(i, 0), f(i, 1), f(i, 2), f(i, 3)])).collect();
    if let Some(mut c) = hsva.get_mut(2) {
        c.set(Alpha { color: Hsv::new(f(9, 0), f(9, 1), f(9, 2)), alpha: f(9, 3) });
    }
    model[2] = bits::<4>([f(9, 0), f(9, 1), f(9, 2), f(9, 3)]);
    for mut c in &mut hsva {
        let mut v = c.copied();
        v.alpha += 1.0;
        c.set(v);
    }
    for r in model.iter_mut() {
        r[3] = (f32::from_bits(r[3]) + 1.0).to_bits();
    }
    let x: Vec<Vec<u32>> = (&hsva).into_iter().map(|c| bits::<4>(cast::into_array(c.copied()))).collect();
    let mut it = hsva.clone().into_iter();
    let last = it.next_back().map(|c| bits::<4>(cast::into_array(c)));
    let first = it.next().map(|c| bits::<4>(cast::into_array(c)));
    m.evals(3);
    if x != model || last != Some(model[2].clone()) || first != Some(model[0].clone()) || it.len() != 1 {
        m.violate("Alpha<Hsv<Srgb,[f32;3]>>", "array_container", json!({}), json!({"iter": x, "last": last, "first": first}), json!(model), "");
    }
    m.cell_s("array_container_rgb");
    m.cell_s("array_container_hsva");
}

fn main() {
    let ctx = Ctx::from_args("C18");
    let mut report = Report::new(&ctx);
    pvmon::report::quiet_panics();
    let mut m = Monitor::new(
        "soa_histories",
        "seeded short histories (<= 24 ops) of push/pop/extend/collect/clear/drain(every range form incl. inverted and out of range; fully, partially front/back, not consumed)/get(i)/get(range)/get_mut+set/iter_mut+set/iter fwd, rev, mixed/owned into_iter/box, array and slice containers, \
         applied to Color<Vec<f32>> and to the model Vec<Color<f32>>; every return value compared and full state (all component lengths + contents) compared after every op; colours carry unique ids; \
         distinct = distinct op-list hashes + (type, op kind, length) abstract states",
    );
    m.tolerance = Some("exact".into());
    m.min_events = 100;

    soa_suite!(&mut m, &ctx, "Rgb<Srgb,Vec<f32>>", Rgb<St, Vec<f32>>, Rgb<St, f32>, 3, |i| Rgb::new(f(i, 0), f(i, 1), f(i, 2)), |s| vec![s.red.len(), s.green.len(), s.blue.len()], |s: Rgb<St, Vec<f32>>| Rgb::<St, Box<[f32]>> { red: s.red.into_boxed_slice(), green: s.green.into_boxed_slice(), blue: s.blue.into_boxed_slice(), standard: PhantomData });
    soa_suite!(&mut m, &ctx, "Alpha<Rgb<Srgb,Vec<f32>>>", Alpha<Rgb<St, Vec<f32>>, Vec<f32>>, Alpha<Rgb<St, f32>, f32>, 4, |i| Alpha { color: Rgb::new(f(i, 0), f(i, 1), f(i, 2)), alpha: f(i, 3) }, |s| vec![s.color.red.len(), s.color.green.len(), s.color.blue.len(), s.alpha.len()], |s: Alpha<Rgb<St, Vec<f32>>, Vec<f32>>| Alpha { color: Rgb::<St, Box<[f32]>> { red: s.color.red.into_boxed_slice(), green: s.color.green.into_boxed_slice(), blue: s.color.blue.into_boxed_slice(), standard: PhantomData }, alpha: s.alpha.into_boxed_slice() });
    soa_suite!(&mut m, &ctx, "Lab<D65,Vec<f32>>", Lab<Wp, Vec<f32>>, Lab<Wp, f32>, 3, |i| Lab::new(f(i, 0), f(i, 1), f(i, 2)), |s| vec![s.l.len(), s.a.len(), s.b.len()], |s: Lab<Wp, Vec<f32>>| Lab::<Wp, Box<[f32]>> { l: s.l.into_boxed_slice(), a: s.a.into_boxed_slice(), b: s.b.into_boxed_slice(), white_point: PhantomData });
    soa_suite!(&mut m, &ctx, "Alpha<Lab<D65,Vec<f32>>>", Alpha<Lab<Wp, Vec<f32>>, Vec<f32>>, Alpha<Lab<Wp, f32>, f32>, 4, |i| Alpha { color: Lab::new(f(i, 0), f(i, 1), f(i, 2)), alpha: f(i, 3) }, |s| vec![s.color.l.len(), s.color.a.len(), s.color.b.len(), s.alpha.len()], |s: Alpha<Lab<Wp, Vec<f32>>, Vec<f32>>| Alpha { color: Lab::<Wp, Box<[f32]>> { l: s.color.l.into_boxed_slice(), a: s.color.a.into_boxed_slice(), b: s.color.b.into_boxed_slice(), white_point: PhantomData }, alpha: s.alpha.into_boxed_slice() });
    soa_suite!(&mut m, &ctx, "Luma<Srgb,Vec<f32>>", luma::Luma<St, Vec<f32>>, luma::Luma<St, f32>, 1, |i| luma::Luma::new(f(i, 0)), |s| vec![s.luma.len()], |s: luma::Luma<St, Vec<f32>>| luma::Luma::<St, Box<[f32]>> { luma: s.luma.into_boxed_slice(), standard: PhantomData });
    soa_suite!(&mut m, &ctx, "Alpha<Luma<Srgb,Vec<f32>>>", Alpha<luma::Luma<St, Vec<f32>>, Vec<f32>>, Alpha<luma::Luma<St, f32>, f32>, 2, |i| Alpha { color: luma::Luma::new(f(i, 0)), alpha: f(i, 3) }, |s| vec![s.color.luma.len(), s.alpha.len()], |s: Alpha<luma::Luma<St, Vec<f32>>, Vec<f32>>| Alpha { color: luma::Luma::<St, Box<[f32]>> { luma: s.color.luma.into_boxed_slice(), standard: PhantomData }, alpha: s.alpha.into_boxed_slice() });
    soa_suite!(&mut m, &ctx, "Hsv<Srgb,Vec<f32>>", Hsv<St, Vec<f32>>, Hsv<St, f32>, 3, |i| Hsv::new(f(i, 0), f(i, 1), f(i, 2)), |s| vec![hl(&s.hue), s.saturation.len(), s.value.len()], |s: Hsv<St, Vec<f32>>| Hsv::<St, Box<[f32]>> { hue: RgbHue::new(s.hue.into_inner().into_boxed_slice()), saturation: s.saturation.into_boxed_slice(), value: s.value.into_boxed_slice(), standard: PhantomData });
    soa_suite!(&mut m, &ctx, "Alpha<Hsv<Srgb,Vec<f32>>>", Alpha<Hsv<St, Vec<f32>>, Vec<f32>>, Alpha<Hsv<St, f32>, f32>, 4, |i| Alpha { color: Hsv::new(f(i, 0), f(i, 1), f(i, 2)), alpha: f(i, 3) }, |s| vec![hl(&s.color.hue), s.color.saturation.len(), s.color.value.len(), s.alpha.len()], |s: Alpha<Hsv<St, Vec<f32>>, Vec<f32>>| Alpha { color: Hsv::<St, Box<[f32]>> { hue: RgbHue::new(s.color.hue.into_inner().into_boxed_slice()), saturation: s.color.saturation.into_boxed_slice(), value: s.color.value.into_boxed_slice(), standard: PhantomData }, alpha: s.alpha.into_boxed_slice() });
    soa_suite!(&mut m, &ctx, "Lch<D65,Vec<f32>>", Lch<Wp, Vec<f32>>, Lch<Wp, f32>, 3, |i| Lch::new(f(i, 0), f(i, 1), f(i, 2)), |s| vec![s.l.len(), s.chroma.len(), s.hue.iter().len()], |s: Lch<Wp, Vec<f32>>| Lch::<Wp, Box<[f32]>> { l: s.l.into_boxed_slice(), chroma: s.chroma.into_boxed_slice(), hue: LabHue::new(s.hue.into_inner().into_boxed_slice()), white_point: PhantomData });
    soa_suite!(&mut m, &ctx, "Alpha<Lch<D65,Vec<f32>>>", Alpha<Lch<Wp, Vec<f32>>, Vec<f32>>, Alpha<Lch<Wp, f32>, f32>, 4, |i| Alpha { color: Lch::new(f(i, 0), f(i, 1), f(i, 2)), alpha: f(i, 3) }, |s| vec![s.color.l.len(), s.color.chroma.len(), s.color.hue.iter().len(), s.alpha.len()], |s: Alpha<Lch<Wp, Vec<f32>>, Vec<f32>>| Alpha { color: Lch::<Wp, Box<[f32]>> { l: s.color.l.into_boxed_slice(), chroma: s.color.chroma.into_boxed_slice(), hue: LabHue::new(s.color.hue.into_inner().into_boxed_slice()), white_point: PhantomData }, alpha: s.alpha.into_boxed_slice() });
    soa_suite!(&mut m, &ctx, "Okhsl<Vec<f32>>", Okhsl<Vec<f32>>, Okhsl<f32>, 3, |i| Okhsl::new(f(i, 0), f(i, 1), f(i, 2)), |s| vec![s.hue.iter().len(), s.saturation.len(), s.lightness.len()], |s: Okhsl<Vec<f32>>| Okhsl::<Box<[f32]>> { hue: OklabHue::new(s.hue.into_inner().into_boxed_slice()), saturation: s.saturation.into_boxed_slice(), lightness: s.lightness.into_boxed_slice() });
    soa_suite!(&mut m, &ctx, "Alpha<Okhsl<Vec<f32>>>", Alpha<Okhsl<Vec<f32>>, Vec<f32>>, Alpha<Okhsl<f32>, f32>, 4, |i| Alpha { color: Okhsl::new(f(i, 0), f(i, 1), f(i, 2)), alpha: f(i, 3) }, |s| vec![s.color.hue.iter().len(), s.color.saturation.len(), s.color.lightness.len(), s.alpha.len()], |s: Alpha<Okhsl<Vec<f32>>, Vec<f32>>| Alpha { color: Okhsl::<Box<[f32]>> { hue: OklabHue::new(s.color.hue.into_inner().into_boxed_slice()), saturation: s.color.saturation.into_boxed_slice(), lightness: s.color.lightness.into_boxed_slice() }, alpha: s.alpha.into_boxed_slice() });
    soa_suite!(&mut m, &ctx, "Cam16Jch<Vec<f32>>", cam16::Cam16Jch<Vec<f32>>, cam16::Cam16Jch<f32>, 3, |i| cam16::Cam16Jch::new(f(i, 0), f(i, 1), f(i, 2)), |s| vec![s.lightness.len(), s.chroma.len(), s.hue.iter().len()], |s: cam16::Cam16Jch<Vec<f32>>| cam16::Cam16Jch::<Box<[f32]>> { lightness: s.lightness.into_boxed_slice(), chroma: s.chroma.into_boxed_slice(), hue: Cam16Hue::new(s.hue.into_inner().into_boxed_slice()) });
    soa_suite!(&mut m, &ctx, "Alpha<Cam16Jch<Vec<f32>>>", Alpha<cam16::Cam16Jch<Vec<f32>>, Vec<f32>>, Alpha<cam16::Cam16Jch<f32>, f32>, 4, |i| Alpha { color: cam16::Cam16Jch::new(f(i, 0), f(i, 1), f(i, 2)), alpha: f(i, 3) }, |s| vec![s.color.lightness.len(), s.color.chroma.len(), s.color.hue.iter().len(), s.alpha.len()], |s: Alpha<cam16::Cam16Jch<Vec<f32>>, Vec<f32>>| Alpha { color: cam16::Cam16Jch::<Box<[f32]>> { lightness: s.color.lightness.into_boxed_slice(), chroma: s.color.chroma.into_boxed_slice(), hue: Cam16Hue::new(s.color.hue.into_inner().into_boxed_slice()) }, alpha: s.alpha.into_boxed_slice() });
    soa_suite!(&mut m, &ctx, "Xyz<D65,Vec<f32>>", Xyz<Wp, Vec<f32>>, Xyz<Wp, f32>, 3, |i| Xyz::new(f(i, 0), f(i, 1), f(i, 2)), |s| vec![s.x.len(), s.y.len(), s.z.len()], |s: Xyz<Wp, Vec<f32>>| Xyz::<Wp, Box<[f32]>> { x: s.x.into_boxed_slice(), y: s.y.into_boxed_slice(), z: s.z.into_boxed_slice(), white_point: PhantomData });
    soa_suite!(&mut m, &ctx, "Hwb<Srgb,Vec<f32>>", Hwb<St, Vec<f32>>, Hwb<St, f32>, 3, |i| Hwb::new(f(i, 0), f(i, 1), f(i, 2)), |s| vec![hl(&s.hue), s.whiteness.len(), s.blackness.len()], |s: Hwb<St, Vec<f32>>| Hwb::<St, Box<[f32]>> { hue: RgbHue::new(s.hue.into_inner().into_boxed_slice()), whiteness: s.whiteness.into_boxed_slice(), blackness: s.blackness.into_boxed_slice(), standard: PhantomData });
    soa_suite!(&mut m, &ctx, "Oklch<Vec<f32>>", Oklch<Vec<f32>>, Oklch<f32>, 3, |i| Oklch::new(f(i, 0), f(i, 1), f(i, 2)), |s| vec![s.l.len(), s.chroma.len(), s.hue.iter().len()], |s: Oklch<Vec<f32>>| Oklch::<Box<[f32]>> { l: s.l.into_boxed_slice(), chroma: s.chroma.into_boxed_slice(), hue: OklabHue::new(s.hue.into_inner().into_boxed_slice()) });
    soa_suite!(&mut m, &ctx, "Alpha<Oklch<Vec<f32>>>", Alpha<Oklch<Vec<f32>>, Vec<f32>>, Alpha<Oklch<f32>, f32>, 4, |i| Alpha { color: Oklch::new(f(i, 0), f(i, 1), f(i, 2)), alpha: f(i, 3) }, |s| vec![s.color.l.len(), s.color.chroma.len(), s.color.hue.iter().len(), s.alpha.len()], |s: Alpha<Oklch<Vec<f32>>, Vec<f32>>| Alpha { color: Oklch::<Box<[f32]>> { l: s.color.l.into_boxed_slice(), chroma: s.color.chroma.into_boxed_slice(), hue: OklabHue::new(s.color.hue.into_inner().into_boxed_slice()) }, alpha: s.alpha.into_boxed_slice() });
    soa_suite!(&mut m, &ctx, "Cam16UcsJmh<Vec<f32>>", cam16::Cam16UcsJmh<Vec<f32>>, cam16::Cam16UcsJmh<f32>, 3, |i| cam16::Cam16UcsJmh::new(f(i, 0), f(i, 1), f(i, 2)), |s| vec![s.lightness.len(), s.colorfulness.len(), s.hue.iter().len()], |s: cam16::Cam16UcsJmh<Vec<f32>>| cam16::Cam16UcsJmh::<Box<[f32]>> { lightness: s.lightness.into_boxed_slice(), colorfulness: s.colorfulness.into_boxed_slice(), hue: Cam16Hue::new(s.hue.into_inner().into_boxed_slice()) });
    soa_suite!(&mut m, &ctx, "Hsluv<D65,Vec<f32>>", Hsluv<Wp, Vec<f32>>, Hsluv<Wp, f32>, 3, |i| Hsluv::new(f(i, 0), f(i, 1), f(i, 2)), |s| vec![s.hue.iter().len(), s.saturation.len(), s.l.len()], |s: Hsluv<Wp, Vec<f32>>| Hsluv::<Wp, Box<[f32]>> { hue: LuvHue::new(s.hue.into_inner().into_boxed_slice()), saturation: s.saturation.into_boxed_slice(), l: s.l.into_boxed_slice(), white_point: PhantomData });
    mixed_alpha_suite!(
        &mut m, &ctx, "Alpha<Rgb<Srgb,Vec<f32>>,Vec<u16>>", Alpha<Rgb<St, Vec<f32>>, Vec<u16>>,
        |s: &Alpha<Rgb<St, Vec<f32>>, Vec<u16>>| vec![s.color.red.len(), s.color.green.len(), s.color.blue.len(), s.alpha.len()],
        |c: Alpha<Rgb<St, &f32>, &u16>| ([*c.color.red, *c.color.green, *c.color.blue], *c.alpha),
        |c: Alpha<Rgb<St, &mut f32>, &mut u16>, e: ([f32; 3], u16)| { *c.color.red = e.0[0]; *c.color.green = e.0[1]; *c.color.blue = e.0[2]; *c.alpha = e.1; },
        |l: [usize; 4]| Alpha { color: Rgb::<St, Vec<f32>> { red: vec![0.5; l[0]], green: vec![0.5; l[1]], blue: vec![0.5; l[2]], standard: PhantomData }, alpha: vec![7u16; l[3]] }
    );
    mixed_alpha_suite!(
        &mut m, &ctx, "Alpha<Hsv<Srgb,Vec<f32>>,Vec<u16>>", Alpha<Hsv<St, Vec<f32>>, Vec<u16>>,
        |s: &Alpha<Hsv<St, Vec<f32>>, Vec<u16>>| vec![hl(&s.color.hue), s.color.saturation.len(), s.color.value.len(), s.alpha.len()],
        |c: Alpha<Hsv<St, &f32>, &u16>| ([*c.color.hue.into_inner(), *c.color.saturation, *c.color.value], *c.alpha),
        |c: Alpha<Hsv<St, &mut f32>, &mut u16>, e: ([f32; 3], u16)| { *c.color.hue.into_inner() = e.0[0]; *c.color.saturation = e.0[1]; *c.color.value = e.0[2]; *c.alpha = e.1; },
        |l: [usize; 4]| Alpha { color: Hsv::<St, Vec<f32>> { hue: RgbHue::new(vec![0.5; l[0]]), saturation: vec![0.5; l[1]], value: vec![0.5; l[2]], standard: PhantomData }, alpha: vec![7u16; l[3]] }
    );
    array_containers(&mut m, &ctx);
    report.add(m);
    report.finish();
}
