//! C15 — gamut-bounded cylindrical spaces stay inside the RGB gamut.

use palette::convert::FromColorUnclamped;
use palette::white_point::D65;
use palette::{Hsl, Hsluv, Hsv, Hwb, LinSrgb, Okhsl, Okhsv, Okhwb, Srgb};
use pvmon::refmodel::ok;
use pvmon::refmodel::space::{self as sp, Space, Wp, V3};
use pvmon::refmodel::transfer::Tf;
use pvmon::report::{fvec, par, Ctx, Monitor, Report};
use pvmon::{json, Rng};

trait Fl: Copy + 'static {
    const NAME: &'static str;
    const IS32: bool;
    fn f(x: f64) -> Self;
    fn d(self) -> f64;
}
impl Fl for f64 {
    const NAME: &'static str = "f64";
    const IS32: bool = false;
    fn f(x: f64) -> f64 {
        x
    }
    fn d(self) -> f64 {
        self
    }
}
impl Fl for f32 {
    const NAME: &'static str = "f32";
    const IS32: bool = true;
    fn f(x: f64) -> f32 {
        x as f32
    }
    fn d(self) -> f64 {
        self as f64
    }
}

#[derive(Clone, Copy, PartialEq, Debug)]
enum Sp {
    Hsl,
    Hsv,
    Hwb,
    Okhsl,
    Okhsv,
    Okhwb,
    Hsluv,
}
const SPACES: [Sp; 7] = [Sp::Hsl, Sp::Hsv, Sp::Hwb, Sp::Okhsl, Sp::Okhsv, Sp::Okhwb, Sp::Hsluv];

impl Sp {
    fn name(self) -> &'static str {
        match self {
            Sp::Hsl => "Hsl",
            Sp::Hsv => "Hsv",
            Sp::Hwb => "Hwb",
            Sp::Okhsl => "Okhsl",
            Sp::Okhsv => "Okhsv",
            Sp::Okhwb => "Okhwb",
            Sp::Hsluv => "Hsluv",
        }
    }
    /// scale of the two non-hue components
    fn unit(self) -> f64 {
        if self == Sp::Hsluv {
            100.0
        } else {
            1.0
        }
    }
    fn is_hwb(self) -> bool {
        matches!(self, Sp::Hwb | Sp::Okhwb)
    }
    fn is_ok(self) -> bool {
        matches!(self, Sp::Okhsl | Sp::Okhsv | Sp::Okhwb)
    }
    /// How far outside [0, 1] a component of the RGB result may be ("small tolerance").
    /// Hexcone formulas are exact; HSLuv bounds are exact lines in Luv; the Ok* spaces use Ottosson's approximate
    /// cusp / gamut intersection (one Halley step), whose published reference implementation leaves the gamut by up
    /// to 2.6e-3 (nonlinear sRGB; red cusp near hue 29 degrees) - the bound is 1.5 x that.
    fn gamut_tol(self, is32: bool) -> f64 {
        match self {
            Sp::Hsl | Sp::Hsv | Sp::Hwb => {
                if is32 {
                    1e-6
                } else {
                    1e-12
                }
            }
            // palette's RGB<->XYZ matrices have 7 digits while the HSLuv bounds use the HSLuv project's own 16-digit
            // matrix: the two gamuts differ by ~6e-4 of the saturation range
            // (saturation up to 100.06), which the slope 12.92 of the sRGB curve at zero turns into up to 1.8e-3
            Sp::Hsluv => 3e-3,
            // measured on the independent reference: 5.1e-4 in linear light = 6.6e-3 after the sRGB curve (hue 264.1, just
            // above the blue sector boundary, where the green set is chosen although red goes negative first)
            _ => 1e-2,
        }
    }
    /// the same in linear light
    fn gamut_tol_linear(self, is32: bool) -> f64 {
        match self {
            Sp::Hsluv => 3e-4,
            Sp::Okhsl | Sp::Okhsv | Sp::Okhwb => 1e-3,
            _ => self.gamut_tol(is32),
        }
    }
    /// How far outside its documented bounds a component may be after converting an in-gamut colour into the space.
    fn bounds_tol(self, is32: bool) -> f64 {
        match self {
            Sp::Hsl | Sp::Hsv | Sp::Hwb => {
                if is32 {
                    1e-6
                } else {
                    1e-12
                }
            }
            Sp::Hsluv => {
                if is32 {
                    2e-3
                } else {
                    1e-3
                }
            }
            _ => 4e-3,
        }
    }
}

/// real conversions: cylinder (h, c1, c2) -> nonlinear sRGB and linear sRGB
fn to_rgb<T: Fl>(s: Sp, c: V3) -> (V3, V3)
where
    T: palette::num::Real,
    Srgb<T>: FromColorUnclamped<Hsl<palette::encoding::Srgb, T>>
        + FromColorUnclamped<Hsv<palette::encoding::Srgb, T>>
        + FromColorUnclamped<Hwb<palette::encoding::Srgb, T>>
        + FromColorUnclamped<Okhsl<T>>
        + FromColorUnclamped<Okhsv<T>>
        + FromColorUnclamped<Okhwb<T>>
        + FromColorUnclamped<Hsluv<D65, T>>,
    LinSrgb<T>: FromColorUnclamped<Srgb<T>>
        + FromColorUnclamped<Okhsl<T>>
        + FromColorUnclamped<Okhsv<T>>
        + FromColorUnclamped<Okhwb<T>>
        + FromColorUnclamped<Hsluv<D65, T>>,
{
    let (h, a, b) = (T::f(c[0]), T::f(c[1]), T::f(c[2]));
    macro_rules! go {
        ($v:expr) => {{
            let v = $v;
            let e: Srgb<T> = Srgb::from_color_unclamped(v);
            let l: LinSrgb<T> = LinSrgb::from_color_unclamped(v);
            ([e.red.d(), e.green.d(), e.blue.d()], [l.red.d(), l.green.d(), l.blue.d()])
        }};
    }
    macro_rules! hex {
        ($v:expr) => {{
            let e: Srgb<T> = Srgb::from_color_unclamped($v);
            let l: LinSrgb<T> = LinSrgb::from_color_unclamped(e);
            ([e.red.d(), e.green.d(), e.blue.d()], [l.red.d(), l.green.d(), l.blue.d()])
        }};
    }
    match s {
        Sp::Hsl => hex!(Hsl::<palette::encoding::Srgb, T>::new(h, a, b)),
        Sp::Hsv => hex!(Hsv::<palette::encoding::Srgb, T>::new(h, a, b)),
        Sp::Hwb => hex!(Hwb::<palette::encoding::Srgb, T>::new(h, a, b)),
        Sp::Okhsl => go!(Okhsl::<T>::new(h, a, b)),
        Sp::Okhsv => go!(Okhsv::<T>::new(h, a, b)),
        Sp::Okhwb => go!(Okhwb::<T>::new(h, a, b)),
        Sp::Hsluv => go!(Hsluv::<D65, T>::new(h, a, b)),
    }
}

/// real conversions: nonlinear sRGB -> cylinder and back
fn from_rgb<T: Fl>(s: Sp, rgb: V3) -> (V3, V3)
where
    T: palette::num::Real,
    Srgb<T>: FromColorUnclamped<Hsl<palette::encoding::Srgb, T>>
        + FromColorUnclamped<Hsv<palette::encoding::Srgb, T>>
        + FromColorUnclamped<Hwb<palette::encoding::Srgb, T>>
        + FromColorUnclamped<Okhsl<T>>
        + FromColorUnclamped<Okhsv<T>>
        + FromColorUnclamped<Okhwb<T>>
        + FromColorUnclamped<Hsluv<D65, T>>,
    Hsl<palette::encoding::Srgb, T>: FromColorUnclamped<Srgb<T>>,
    Hsv<palette::encoding::Srgb, T>: FromColorUnclamped<Srgb<T>>,
    Hwb<palette::encoding::Srgb, T>: FromColorUnclamped<Srgb<T>>,
    Okhsl<T>: FromColorUnclamped<Srgb<T>>,
    Okhsv<T>: FromColorUnclamped<Srgb<T>>,
    Okhwb<T>: FromColorUnclamped<Srgb<T>>,
    Hsluv<D65, T>: FromColorUnclamped<Srgb<T>>,
{
    let src = Srgb::<T>::new(T::f(rgb[0]), T::f(rgb[1]), T::f(rgb[2]));
    macro_rules! go {
        ($C:ty, $a:ident, $b:ident) => {{
            let v = <$C>::from_color_unclamped(src);
            let back: Srgb<T> = Srgb::from_color_unclamped(v);
            ([v.hue.into_inner().d(), v.$a.d(), v.$b.d()], [back.red.d(), back.green.d(), back.blue.d()])
        }};
    }
    match s {
        Sp::Hsl => go!(Hsl<palette::encoding::Srgb, T>, saturation, lightness),
        Sp::Hsv => go!(Hsv<palette::encoding::Srgb, T>, saturation, value),
        Sp::Hwb => go!(Hwb<palette::encoding::Srgb, T>, whiteness, blackness),
        Sp::Okhsl => go!(Okhsl<T>, saturation, lightness),
        Sp::Okhsv => go!(Okhsv<T>, saturation, value),
        Sp::Okhwb => go!(Okhwb<T>, whiteness, blackness),
        Sp::Hsluv => go!(Hsluv<D65, T>, saturation, l),
    }
}

/// independent reference: cylinder -> linear sRGB
fn model_to_lin(s: Sp, c: V3) -> V3 {
    match s {
        Sp::Okhsl => ok::okhsl_to_linear_srgb(c),
        Sp::Okhsv => ok::okhsv_to_linear_srgb(c),
        Sp::Okhwb => ok::okhsv_to_linear_srgb(ok::okhwb_to_okhsv(c)),
        Sp::Hsl => {
            let e = sp::hsl_to_rgb(c);
            [Tf::Srgb.decode(e[0]), Tf::Srgb.decode(e[1]), Tf::Srgb.decode(e[2])]
        }
        Sp::Hsv => {
            let e = sp::hsv_to_rgb(c);
            [Tf::Srgb.decode(e[0]), Tf::Srgb.decode(e[1]), Tf::Srgb.decode(e[2])]
        }
        Sp::Hwb => {
            let e = sp::hsv_to_rgb(sp::hwb_to_hsv(c));
            [Tf::Srgb.decode(e[0]), Tf::Srgb.decode(e[1]), Tf::Srgb.decode(e[2])]
        }
        Sp::Hsluv => sp::xyz_to_lin_srgb(Space::Lchuv(Wp::D65).to_xyz(sp::hsluv_to_lchuv(c))),
    }
}

fn excess(c: &V3) -> f64 {
    c.iter().map(|v| if v.is_nan() { f64::INFINITY } else { (-v).max(v - 1.0).max(0.0) }).fold(0.0, f64::max)
}

fn grid(n: usize, rng: &mut Rng, extra: u64) -> Vec<f64> {
    // both bounds, points a hair inside them, a regular grid and seeded fill, in [0, 1]
    let mut v = vec![0.0, 1.0, 1e-9, 1.0 - 1e-9, 1e-4, 1.0 - 1e-4, 0.5];
    for k in 1..n {
        v.push(k as f64 / n as f64);
    }
    for _ in 0..extra {
        v.push(rng.unit());
    }
    v
}

fn forward(ctx: &Ctx, report: &mut Report) {
    let mname = "cylinder_into_rgb_gamut";
    if !ctx.enabled(mname) {
        return;
    }
    let mon = Monitor::new(
        mname,
        "HSL, HSV, HWB (sRGB), Okhsl, Okhsv, Okhwb, HSLuv x f32/f64: every (hue, c1, c2) of a dense grid - hue every 1 degree (thorough 0.1) plus seeded hues, saturation-like and lightness-like components on both bounds, 1e-9 and 1e-4 inside them, a regular grid and seeded values (whiteness + blackness <= 1 for the HWB forms) - converts to nonlinear and to linear sRGB with every component finite and in [0, 1] up to the stated tolerance, and equals the independent reference implementation; distinct = (space, float, hue sector of 10 degrees, c1 bucket, c2 bucket)",
    );
    let replay = ctx.replay.as_ref().filter(|r| r.monitor == mname).cloned();
    let nthreads = if replay.is_some() { 1 } else { ctx.threads };
    let res = par(nthreads, |t| {
        let mut m = mon.like();
        let mut rng = ctx.rng(mname, 0);
        let hue_step = if ctx.quick() { 1.0 } else { 0.1 };
        let mut hues: Vec<f64> = (0..(360.0 / hue_step) as usize).map(|k| k as f64 * hue_step).collect();
        for _ in 0..ctx.n(40, 400) {
            hues.push(rng.range(0.0, 360.0));
        }
        hues.extend([360.0 - 1e-9, 29.0, 29.2338, 142.5, 264.05, 264.052]);
        let g1 = grid(if ctx.quick() { 10 } else { 40 }, &mut rng, ctx.n(3, 10));
        let g2 = grid(if ctx.quick() { 12 } else { 50 }, &mut rng, ctx.n(3, 10));
        for (si, &s) in SPACES.iter().enumerate() {
            for is32 in [false, true] {
                let inst = format!("{}/{}", s.name(), if is32 { "f32" } else { "f64" });
                let cases: Vec<V3> = match &replay {
                    Some(r) if r.inst == inst => {
                        let a: Vec<f64> = r.input["color"].as_array().unwrap().iter().map(|x| x.as_f64().unwrap()).collect();
                        vec![[a[0], a[1], a[2]]]
                    }
                    Some(_) => continue,
                    None => {
                        let mut v = Vec::new();
                        for (hi, &h) in hues.iter().enumerate() {
                            if (hi + si) % nthreads != t {
                                continue;
                            }
                            for &a in &g1 {
                                for &b in &g2 {
                                    if s.is_hwb() && a + b > 1.0 {
                                        continue;
                                    }
                                    v.push([h, a * s.unit(), b * s.unit()]);
                                }
                            }
                        }
                        v
                    }
                };
                let tol = s.gamut_tol(is32);
                for c in cases {
                    let c = if is32 { [c[0] as f32 as f64, c[1] as f32 as f64, c[2] as f32 as f64] } else { c };
                    if s.is_hwb() && is32 && (c[1] as f32 + c[2] as f32) > 1.0 {
                        continue;
                    }
                    let (enc, lin) = if is32 { to_rgb::<f32>(s, c) } else { to_rgb::<f64>(s, c) };
                    m.evals(2);
                    let ex = excess(&enc).max(excess(&lin));
                    let ex_lin = excess(&lin);
                    let tol_lin = s.gamut_tol_linear(is32);
                    m.counter_max(&format!("max:excess_e9:{}", inst), (ex.min(1e9) * 1e9) as u64);
                    let inp = || json!({"color": fvec(&c)});
                    if !(ex <= tol) || !(ex_lin <= tol_lin) {
                        // HSLuv within 1e-3 of L = 100 has no guard (recorded finding of C02): garbage in, but still a C15 event
                        let class = if s == Sp::Hsluv && c[2] > 100.0 - 1e-3 && c[2] < 100.0 { "rgb_outside_gamut:hsluv_no_guard_at_white" } else { "rgb_outside_gamut" };
                        m.violate(&inst, class, inp(), json!({"srgb": fvec(&enc), "linear": fvec(&lin), "excess": ex}), json!({"tolerance": tol, "tolerance_linear": tol_lin}), "");
                    }
                    // differential against the independent reference implementation
                    let want = model_to_lin(s, c);
                    if want.iter().all(|v| v.is_finite()) {
                        m.eval();
                        let dt = match (s == Sp::Hsluv, is32) {
                            (_, true) => 2e-4,
                            (true, false) => 2e-6, // crosses the 7-digit matrices
                            (false, false) => 1e-9,
                        };
                        let near_white_hsluv = s == Sp::Hsluv && c[2] > 100.0 - 1e-3;
                        let d = (0..3).map(|k| (lin[k] - want[k]).abs()).fold(0.0, f64::max);
                        if !(d <= dt) && !near_white_hsluv {
                            m.violate(&inst, "differs_from_reference_implementation", inp(), fvec(&lin), fvec(&want), "linear sRGB");
                        }
                        if !is32 {
                            m.dev(d, || json!({"inst": inst, "color": fvec(&c), "palette": fvec(&lin), "reference": fvec(&want)}));
                        }
                    }
                    m.cell2(pvmon::rng::hash_str(&inst), ((c[0] / 10.0) as u64) << 16 | ((c[1] / s.unit() * 8.0) as u64) << 8 | (c[2] / s.unit() * 8.0) as u64);
                }
            }
        }
        vec![m]
    });
    for mut m in res {
        m.tolerance = Some("components within [0,1] +- 1e-12 (f32 1e-6) for HSL/HSV/HWB, 3e-3 for HSLuv (7-digit RGB matrices vs the 16-digit HSLuv bounds, times the slope of the sRGB curve at 0), 1e-2 nonlinear / 1e-3 linear for Okhsl/Okhsv/Okhwb (Ottosson's published approximation itself leaves the gamut by 6.6e-3 / 5.1e-4 just above the blue hue); reference implementation 1e-9 (f32 2e-4)".into());
        m.sample(|| json!({"Okhsl(29, 1, 0.57)": fvec(&to_rgb::<f64>(Sp::Okhsl, [29.0, 1.0, 0.57]).0), "Hsluv(120, 100, 50)": fvec(&to_rgb::<f64>(Sp::Hsluv, [120.0, 100.0, 50.0]).0)}));
        report.add(m);
    }
}

fn converse(ctx: &Ctx, report: &mut Report) {
    let mname = "rgb_into_cylinder_bounds_and_back";
    if !ctx.enabled(mname) {
        return;
    }
    let mon = Monitor::new(
        mname,
        "every in-gamut sRGB colour of the workload - the 8-bit lattice (thorough: all 2^24; quick: every 5th level per channel plus the complete six faces at every 3rd level), +-1e-9 inside the cube faces and seeded colours - converts into each of the seven spaces (f32/f64) with saturation / lightness / value / whiteness / blackness inside their documented bounds (whiteness + blackness <= 1) up to the stated tolerance, finite, and converts back to the same sRGB colour; distinct = (space, float, 4-bit RGB cell)",
    );
    let replay = ctx.replay.as_ref().filter(|r| r.monitor == mname).cloned();
    let nthreads = if replay.is_some() { 1 } else { ctx.threads };
    let res = par(nthreads, |t| {
        let mut m = mon.like();
        let mut rng = ctx.rng(mname, t as u64);
        let mut cols: Vec<V3> = Vec::new();
        if replay.is_none() {
            let lv = |k: u32| k as f64 / 255.0;
            if ctx.quick() {
                let mut idx = 0usize;
                for r in (0..=255).step_by(5) {
                    for g in (0..=255).step_by(5) {
                        idx += 1;
                        if idx % nthreads != t {
                            continue;
                        }
                        for b in (0..=255).step_by(5) {
                            cols.push([lv(r), lv(g), lv(b)]);
                        }
                    }
                }
                // complete faces of the cube (the gamut boundary, where the bounds are attained)
                for a in (0..=255).step_by(3) {
                    idx += 1;
                    if idx % nthreads != t {
                        continue;
                    }
                    for b in (0..=255).step_by(3) {
                        for f in [0.0, 1.0] {
                            cols.push([f, lv(a), lv(b)]);
                            cols.push([lv(a), f, lv(b)]);
                            cols.push([lv(a), lv(b), f]);
                        }
                    }
                }
            } else {
                for r in 0..=255u32 {
                    if r as usize % nthreads != t {
                        continue;
                    }
                    for g in 0..=255 {
                        for b in 0..=255 {
                            cols.push([lv(r), lv(g), lv(b)]);
                        }
                    }
                }
            }
            for _ in 0..ctx.n(4000, 400_000) / nthreads as u64 {
                let mut c = [rng.unit(), rng.unit(), rng.unit()];
                match rng.below(6) {
                    0 => c[rng.below(3) as usize] = 0.0,
                    1 => c[rng.below(3) as usize] = 1.0,
                    2 => c[rng.below(3) as usize] = 1e-9,
                    3 => c[rng.below(3) as usize] = 1.0 - 1e-9,
                    4 => {
                        // near-grey
                        let g = rng.unit();
                        c = [g, (g + rng.range(-1e-6, 1e-6)).clamp(0.0, 1.0), g];
                    }
                    _ => {}
                }
                cols.push(c);
            }
        }
        let primaries_hues: Vec<f64> = [[1.0, 0.0, 0.0], [0.0, 1.0, 0.0], [0.0, 0.0, 1.0]]
            .iter()
            .map(|p| {
                let lab = ok::linear_srgb_to_oklab(*p);
                lab[2].atan2(lab[1]).to_degrees().rem_euclid(360.0)
            })
            .collect();
        for &s in SPACES.iter() {
            for is32 in [false, true] {
                let inst = format!("{}/{}", s.name(), if is32 { "f32" } else { "f64" });
                let list: Vec<V3> = match &replay {
                    Some(r) if r.inst == inst => {
                        let a: Vec<f64> = r.input["srgb"].as_array().unwrap().iter().map(|x| x.as_f64().unwrap()).collect();
                        vec![[a[0], a[1], a[2]]]
                    }
                    Some(_) => continue,
                    None => cols.clone(),
                };
                let tol = s.bounds_tol(is32);
                let mut worst = 0.0f64;
                let mut worst_back = 0.0f64;
                for c in list {
                    let c = if is32 { [c[0] as f32 as f64, c[1] as f32 as f64, c[2] as f32 as f64] } else { c };
                    let (cyl, back) = if is32 { from_rgb::<f32>(s, c) } else { from_rgb::<f64>(s, c) };
                    m.evals(2);
                    let u = s.unit();
                    let (a, b) = (cyl[1] / u, cyl[2] / u);
                    let mut ex = excess(&[a, b, 0.0]);
                    if s.is_hwb() {
                        ex = ex.max(a + b - 1.0);
                    }
                    if !cyl[0].is_finite() {
                        ex = f64::INFINITY;
                    }
                    let inp = || json!({"srgb": fvec(&c)});
                    let white_hsluv = s == Sp::Hsluv && cyl[2] > 100.0 - 1e-3;
                    // hue of the colour in Oklab (model, f64) for the two recorded Ok* findings
                    let ok_hue = if s.is_ok() {
                        let lab = ok::linear_srgb_to_oklab([Tf::Srgb.decode(c[0]), Tf::Srgb.decode(c[1]), Tf::Srgb.decode(c[2])]);
                        lab[2].atan2(lab[1]).to_degrees().rem_euclid(360.0)
                    } else {
                        f64::NAN
                    };
                    // (a) the hue sits within f32 resolution (3e-5 degrees at 264) of one of the three hues where the cusp
                    // approximation switches coefficient sets and is discontinuous (the hues of pure red, green and blue)
                    let sector_f32 = is32 && s.is_ok() && primaries_hues.iter().any(|p| (ok_hue - p).abs() <= 1e-4);
                    // (b) the triangle approximation of the gamut cuts off in-gamut yellows and blues
                    let approx_window = s.is_ok() && ((96.0..=106.0).contains(&ok_hue) || (262.0..=266.0).contains(&ok_hue));
                    if !(ex <= tol) {
                        let class = if white_hsluv {
                            "out_of_bounds:hsluv_no_guard_at_white"
                        } else if sector_f32 && ex <= 0.2 {
                            "out_of_bounds:ok_sector_boundary_hue_in_f32"
                        } else if approx_window && ex <= 2e-2 {
                            "out_of_bounds:ok_gamut_approximation_yellow_blue"
                        } else {
                            "out_of_bounds"
                        };
                        m.violate(&inst, class, inp(), fvec(&cyl), json!({"tolerance": tol, "excess": ex}), "");
                    } else {
                        worst = worst.max(ex);
                    }
                    let d = (0..3).map(|k| (back[k] - c[k]).abs()).fold(0.0, f64::max);
                    let bt = match (s.is_ok() || s == Sp::Hsluv, is32) {
                        (false, false) => 1e-12,
                        (false, true) => 2e-6,
                        (true, false) => 1e-5,
                        (true, true) => 1e-2,
                    };
                    if !(d <= bt) {
                        let class = if white_hsluv {
                            "does_not_convert_back:hsluv_no_guard_at_white"
                        } else if sector_f32 {
                            "does_not_convert_back:ok_sector_boundary_hue_in_f32"
                        } else {
                            "does_not_convert_back"
                        };
                        m.violate(&inst, class, inp(), json!({"there": fvec(&cyl), "back": fvec(&back)}), json!({"srgb": fvec(&c), "tolerance": bt}), "");
                    } else {
                        worst_back = worst_back.max(d);
                    }
                    // differential against the independent reference implementation (f64)
                    if !is32 && s.is_ok() {
                        let lin = [Tf::Srgb.decode(c[0]), Tf::Srgb.decode(c[1]), Tf::Srgb.decode(c[2])];
                        let want = match s {
                            Sp::Okhsl => ok::linear_srgb_to_okhsl(lin),
                            Sp::Okhsv => ok::linear_srgb_to_okhsv(lin),
                            _ => ok::okhsv_to_okhwb(ok::linear_srgb_to_okhsv(lin)),
                        };
                        if want.iter().all(|v| v.is_finite()) && cyl.iter().all(|v| v.is_finite()) {
                            m.eval();
                            let chroma_like = if s.is_hwb() { (1.0 - want[1] - want[2]).abs() } else { want[1].abs() * if s == Sp::Okhsl { (1.0 - (2.0 * want[2] - 1.0).abs()).max(0.0) } else { want[2].abs() } };
                            let hd = ((cyl[0] - want[0] + 540.0).rem_euclid(360.0) - 180.0).to_radians().abs() * chroma_like;
                            let dd = (cyl[1] - want[1]).abs().max((cyl[2] - want[2]).abs());
                            // saturation of a near-neutral / near-black colour is ill-conditioned: weight by the chroma-like factor
                            let w = if s.is_hwb() { 1.0 } else if s == Sp::Okhsl { (1.0 - (2.0 * want[2] - 1.0).abs()).max(0.0) } else { want[2].abs() };
                            let d1 = (cyl[1] - want[1]).abs() * w;
                            let d2 = (cyl[2] - want[2]).abs();
                            let _ = dd;
                            if !(hd <= 1e-7) || !(d1 <= 1e-7) || !(d2 <= 1e-7) {
                                m.violate(&inst, "differs_from_reference_implementation", inp(), fvec(&cyl), fvec(&want), "");
                            }
                        }
                    }
                    m.cell2(pvmon::rng::hash_str(&inst), ((c[0] * 15.0) as u64) << 8 | ((c[1] * 15.0) as u64) << 4 | (c[2] * 15.0) as u64);
                }
                m.counter_max(&format!("max:bounds_excess_e12:{}", inst), (worst * 1e12) as u64);
                m.counter_max(&format!("max:round_trip_dev_e12:{}", inst), (worst_back * 1e12) as u64);
            }
        }
        vec![m]
    });
    for mut m in res {
        m.tolerance = Some("bounds: 1e-12 (f32 1e-6) hexcone, 1e-3 HSLuv, 4e-3 Ok*; round trip: 1e-12 / 2e-6 hexcone, 1e-5 / 1e-2 HSLuv and Ok*; reference implementation 1e-7 (f64)".into());
        m.sample(|| json!({"srgb": [0.0, 1.0, 1.0], "Okhsv": fvec(&from_rgb::<f64>(Sp::Okhsv, [0.0, 1.0, 1.0]).0), "Hsluv": fvec(&from_rgb::<f64>(Sp::Hsluv, [0.0, 1.0, 1.0]).0)}));
        report.add(m);
    }
}

fn main() {
    let ctx = Ctx::from_args("C15");
    let mut report = Report::new(&ctx);
    forward(&ctx, &mut report);
    converse(&ctx, &mut report);
    report.finish();
}
