//! C07 (second driver) — operators, blends and colour differences on the boundary lattice stay finite and do not panic.
//!
//! Oracle: `is_finite()` on every output + `catch_unwind`. Inputs: the per-type boundary lattice (each component on a
//! bound, zero, a billionth inside, mid-range; sector-edge hues), paired with itself, with nudged copies (one component
//! moved by 1e-9 .. 1e-3 of its range, which is what provokes cancellation in polar formulas) and with other lattice
//! points; factors and alphas from {0, 1e-9, 1/2, 1 - 1e-9, 1}.

#![allow(deprecated)]
use palette::blend::{Blend, Compose, PreAlpha, Premultiply};
use palette::cam16::{Cam16UcsJab, Cam16UcsJmh};
use palette::cast::{self, ArrayCast};
use palette::color_difference::{Ciede2000, ColorDifference, DeltaE, EuclideanDistance, HyAb, ImprovedCiede2000, ImprovedDeltaE, Wcag21RelativeContrast};
use palette::white_point::D65;
use palette::{encoding, Alpha, Darken, Desaturate, Hsl, Hsluv, Hsv, Hwb, Lab, Lch, Lchuv, Lighten, Luv, Mix, Okhsl, Okhsv, Okhwb, Oklab, Oklch, Saturate, ShiftHue, WithHue, Xyz, Yxy};
use pvmon::gen;
use pvmon::report::{fvec, Ctx, Monitor, Report};
use pvmon::{json, Rng};
use std::panic::{catch_unwind, AssertUnwindSafe};

trait Fl: Copy + 'static {
    const NAME: &'static str;
    fn f(x: f64) -> Self;
    fn d(self) -> f64;
}
impl Fl for f32 {
    const NAME: &'static str = "f32";
    fn f(x: f64) -> f32 {
        x as f32
    }
    fn d(self) -> f64 {
        self as f64
    }
}
impl Fl for f64 {
    const NAME: &'static str = "f64";
    fn f(x: f64) -> f64 {
        x
    }
    fn d(self) -> f64 {
        self
    }
}

#[derive(Clone, Copy)]
struct Desc {
    name: &'static str,
    ranges: [(f64, f64); 3],
    hue: Option<usize>,
    hwb: bool,
}

fn mk<C: ArrayCast<Array = [T; 3]>, T: Fl>(x: &[f64; 3]) -> C {
    cast::from_array([T::f(x[0]), T::f(x[1]), T::f(x[2])])
}
fn un<C: ArrayCast<Array = [T; 3]>, T: Fl>(c: C) -> Vec<f64> {
    let a: [T; 3] = cast::into_array(c);
    a.iter().map(|v| v.d()).collect()
}

fn lattice(d: &Desc) -> Vec<[f64; 3]> {
    let c: Vec<Vec<f64>> = (0..3).map(|i| gen::comp_lattice(d.ranges[i].0, d.ranges[i].1, d.hue == Some(i))).collect();
    let mut out = Vec::new();
    for &a in &c[0] {
        for &b in &c[1] {
            for &e in &c[2] {
                if d.hwb && b + e > 1.0 {
                    continue;
                }
                out.push([a, b, e]);
            }
        }
    }
    out
}

/// partners of a lattice colour: itself, nudged copies, a few other lattice points
fn partners(d: &Desc, a: &[f64; 3], lat: &[[f64; 3]], rng: &mut Rng) -> Vec<[f64; 3]> {
    let mut v = vec![*a];
    for k in 0..3 {
        let (lo, hi) = d.ranges[k];
        let w = if d.hue == Some(k) { 360.0 } else { hi - lo };
        for rel in [1e-9, 1e-8, 1e-7, 1e-5, 1e-3] {
            // a "non-round" step, inward so that the partner stays in range
            let step = w * rel * (1.0 + 0.37 * rng.unit());
            let mut b = *a;
            b[k] = if d.hue == Some(k) || a[k] + step <= hi { a[k] + step } else { a[k] - step };
            if d.hwb && b[1] + b[2] > 1.0 {
                continue;
            }
            v.push(b);
        }
    }
    for _ in 0..4 {
        v.push(*rng.pick(lat));
    }
    v
}

const FACTORS: [f64; 6] = [0.0, 1e-9, 0.5, 1.0 - 1e-9, 1.0, 0.25];

struct Ops<C: 'static> {
    /// colour x colour -> scalar
    diffs: Vec<(&'static str, fn(C, C) -> f64)>,
    /// colour x colour x factor -> components
    mixes: Vec<(&'static str, fn(C, C, f64) -> Vec<f64>)>,
    /// colour x factor -> components
    unary: Vec<(&'static str, fn(C, f64) -> Vec<f64>)>,
    /// (colour, alpha) x (colour, alpha) -> components + alpha
    blends: Vec<(&'static str, fn(C, f64, C, f64) -> Vec<f64>)>,
}

fn suite<C, T>(ctx: &Ctx, m: &mut Monitor, d: &Desc, ops: &Ops<C>)
where
    T: Fl,
    C: ArrayCast<Array = [T; 3]> + Copy + 'static,
{
    let inst = format!("{}/{}", d.name, T::NAME);
    let mut rng = ctx.rng(&inst, 0);
    let lat = lattice(d);
    let replay = ctx.replay.as_ref().filter(|r| r.inst == inst).cloned();
    if ctx.replaying() && replay.is_none() {
        return;
    }
    // quick: every 3rd lattice point (rotating with the seed) - the lattice has ~700-1500 points per type
    let stride = ctx.n(3, 1) as usize;
    let off = (ctx.seed as usize) % stride;
    for (li, a) in lat.iter().enumerate() {
        let (a, parts): ([f64; 3], Vec<[f64; 3]>) = match &replay {
            Some(r) => {
                let g = |k: &str| -> [f64; 3] {
                    let v: Vec<f64> = r.input[k].as_array().unwrap().iter().map(|x| x.as_f64().unwrap_or(f64::NAN)).collect();
                    [v[0], v[1], v[2]]
                };
                if li > 0 {
                    break;
                }
                (g("a"), vec![g("b")])
            }
            None => {
                if li % stride != off {
                    continue;
                }
                (*a, partners(d, a, &lat, &mut rng))
            }
        };
        // the same again for a seeded interior ("non-round") colour: cancellation in polar formulas needs inexact squares
        let mut todo: Vec<([f64; 3], Vec<[f64; 3]>)> = vec![(a, parts)];
        if replay.is_none() {
            let mut c = [0.0; 3];
            loop {
                for k in 0..3 {
                    let (lo, hi) = d.ranges[k];
                    c[k] = lo + (hi - lo) * (0.001 + 0.998 * rng.unit());
                }
                if !(d.hwb && c[1] + c[2] > 1.0) {
                    break;
                }
            }
            let ps = partners(d, &c, &lat, &mut rng);
            todo.push((c, ps));
        }
        for (a, parts) in todo {
        let ca: C = mk::<C, T>(&a);
        for b in parts {
            let cb: C = mk::<C, T>(&b);
            let inp = |extra: serde_json::Value| json!({"a": fvec(&a), "b": fvec(&b), "extra": extra});
            for (name, f) in &ops.diffs {
                for (x, y) in [(ca, cb), (cb, ca)] {
                    m.eval();
                    match catch_unwind(AssertUnwindSafe(|| f(x, y))) {
                        Ok(v) if v.is_finite() => {}
                        Ok(v) => m.violate(&inst, &format!("not_finite:{}", name), inp(json!(null)), json!(format!("{}", v)), json!("finite"), ""),
                        Err(_) => m.violate(&inst, &format!("panic:{}", name), inp(json!(null)), json!("panic"), json!("no panic"), ""),
                    }
                }
            }
            for &fac in &FACTORS {
                for (name, f) in &ops.mixes {
                    m.eval();
                    match catch_unwind(AssertUnwindSafe(|| f(ca, cb, fac))) {
                        Ok(v) if v.iter().all(|x| x.is_finite()) => {}
                        Ok(v) => m.violate(&inst, &format!("not_finite:{}", name), inp(json!({"factor": fac})), fvec(&v), json!("finite"), ""),
                        Err(_) => m.violate(&inst, &format!("panic:{}", name), inp(json!({"factor": fac})), json!("panic"), json!("no panic"), ""),
                    }
                }
            }
            for &(aa, ab) in &[(1.0, 1.0), (0.0, 1.0), (1.0, 0.0), (0.0, 0.0), (0.5, 1e-9), (1e-9, 0.5), (0.5, 0.5), (1.0 - 1e-9, 1e-9)] {
                for (name, f) in &ops.blends {
                    m.eval();
                    match catch_unwind(AssertUnwindSafe(|| f(ca, aa, cb, ab))) {
                        Ok(v) if v.iter().all(|x| x.is_finite()) => {}
                        Ok(v) => m.violate(&inst, &format!("not_finite:{}", name), inp(json!({"alpha_a": aa, "alpha_b": ab})), fvec(&v), json!("finite"), ""),
                        Err(_) => m.violate(&inst, &format!("panic:{}", name), inp(json!({"alpha_a": aa, "alpha_b": ab})), json!("panic"), json!("no panic"), ""),
                    }
                }
            }
        }
        for &fac in &FACTORS {
            for (name, f) in &ops.unary {
                m.eval();
                match catch_unwind(AssertUnwindSafe(|| f(ca, fac))) {
                    Ok(v) if v.iter().all(|x| x.is_finite()) => {}
                    Ok(v) => m.violate(&inst, &format!("not_finite:{}", name), json!({"a": fvec(&a), "b": fvec(&a), "extra": {"factor": fac}}), fvec(&v), json!("finite"), ""),
                    Err(_) => m.violate(&inst, &format!("panic:{}", name), json!({"a": fvec(&a), "b": fvec(&a), "extra": {"factor": fac}}), json!("panic"), json!("no panic"), ""),
                }
            }
        }
        }
        let a = lat[li];
        let on_bound = (0..3).filter(|&i| d.hue != Some(i) && (a[i] == d.ranges[i].0 || a[i] == d.ranges[i].1)).count();
        m.cell_s(&format!("{}{}{}", inst, on_bound, (0..3).filter(|&i| a[i] == 0.0).count()));
    }
}

macro_rules! un_ops {
    ($C:ty, $T:ty; $($name:expr => |$c:ident, $f:ident| $body:expr),* $(,)?) => {
        vec![$(($name, (|$c: $C, fac: f64| -> Vec<f64> { let $f: $T = <$T as Fl>::f(fac); un::<$C, $T>($body) }) as fn($C, f64) -> Vec<f64>)),*]
    };
}
macro_rules! mix_ops {
    ($C:ty, $T:ty; $($name:expr => |$a:ident, $b:ident, $f:ident| $body:expr),* $(,)?) => {
        vec![$(($name, (|$a: $C, $b: $C, fac: f64| -> Vec<f64> { let $f: $T = <$T as Fl>::f(fac); un::<$C, $T>($body) }) as fn($C, $C, f64) -> Vec<f64>)),*]
    };
}
macro_rules! diff_ops {
    ($C:ty, $T:ty; $($name:expr => |$a:ident, $b:ident| $body:expr),* $(,)?) => {
        vec![$(($name, (|$a: $C, $b: $C| -> f64 { let v: $T = $body; v.d() }) as fn($C, $C) -> f64)),*]
    };
}
/// lighten / darken (relative and fixed) + mix, for every type
macro_rules! common {
    ($C:ty, $T:ty) => {{
        let unary = un_ops!($C, $T;
            "lighten" => |c, f| Lighten::lighten(c, f), "lighten_fixed" => |c, f| Lighten::lighten_fixed(c, f),
            "darken" => |c, f| Darken::darken(c, f), "darken_fixed" => |c, f| Darken::darken_fixed(c, f));
        let mixes = mix_ops!($C, $T; "mix" => |a, b, f| a.mix(b, f));
        (unary, mixes)
    }};
}
macro_rules! sat_ops {
    ($C:ty, $T:ty) => {
        un_ops!($C, $T; "saturate" => |c, f| c.saturate(f), "saturate_fixed" => |c, f| c.saturate_fixed(f),
            "desaturate" => |c, f| c.desaturate(f), "desaturate_fixed" => |c, f| c.desaturate_fixed(f))
    };
}
macro_rules! hue_ops {
    ($C:ty, $T:ty) => {
        un_ops!($C, $T; "shift_hue" => |c, f| c.shift_hue(f * 720.0 - 360.0), "with_hue" => |c, f| c.with_hue(f * 360.0))
    };
}
/// blend modes and Porter-Duff operators on Alpha<C, T> and PreAlpha<C>
macro_rules! blend_ops {
    ($C:ty, $T:ty) => {{
        let mut v: Vec<(&'static str, fn($C, f64, $C, f64) -> Vec<f64>)> = Vec::new();
        macro_rules! b {
            ($name:expr, $tr:ident, $op:ident) => {
                v.push(($name, (|a: $C, aa: f64, b: $C, ab: f64| -> Vec<f64> {
                    let (x, y) = (Alpha { color: a, alpha: <$T as Fl>::f(aa) }, Alpha { color: b, alpha: <$T as Fl>::f(ab) });
                    let r: Alpha<$C, $T> = $tr::$op(x, y);
                    let mut o = un::<$C, $T>(r.color);
                    o.push(r.alpha.d());
                    let p: PreAlpha<$C> = $tr::$op(PreAlpha::from(x), PreAlpha::from(y));
                    o.extend(un::<$C, $T>(p.color));
                    o.push(p.alpha.d());
                    let back: Alpha<$C, $T> = p.into();
                    o.extend(un::<$C, $T>(back.color));
                    o
                }) as fn($C, f64, $C, f64) -> Vec<f64>));
            };
        }
        b!("multiply", Blend, multiply);
        b!("screen", Blend, screen);
        b!("overlay", Blend, overlay);
        b!("darken_blend", Blend, darken);
        b!("lighten_blend", Blend, lighten);
        b!("dodge", Blend, dodge);
        b!("burn", Blend, burn);
        b!("hard_light", Blend, hard_light);
        b!("soft_light", Blend, soft_light);
        b!("difference", Blend, difference);
        b!("exclusion", Blend, exclusion);
        b!("over", Compose, over);
        b!("inside", Compose, inside);
        b!("outside", Compose, outside);
        b!("atop", Compose, atop);
        b!("xor", Compose, xor);
        b!("plus", Compose, plus);
        v.push(("premultiply_unpremultiply", (|a: $C, aa: f64, _b: $C, _ab: f64| -> Vec<f64> {
            let p = a.premultiply(<$T as Fl>::f(aa));
            let back = p.unpremultiply();
            let mut o = un::<$C, $T>(p.color);
            o.extend(un::<$C, $T>(back.color));
            o.push(back.alpha.d());
            o
        }) as fn($C, f64, $C, f64) -> Vec<f64>));
        v
    }};
}

const U: (f64, f64) = (0.0, 1.0);
const HUE: (f64, f64) = (0.0, 360.0);
fn desc(name: &'static str, ranges: [(f64, f64); 3], hue: Option<usize>) -> Desc {
    Desc { name, ranges, hue, hwb: false }
}

macro_rules! for_both {
    ($mac:ident) => {
        $mac!(f32);
        $mac!(f64);
    };
}

fn main() {
    let ctx = Ctx::from_args("C07");
    let mut report = Report::new(&ctx);
    let mname = "finite_operators_blends_differences";
    if !ctx.enabled(mname) {
        report.finish();
    }
    pvmon::report::quiet_panics();
    let mut m = Monitor::new(
        mname,
        "21 colour types x f32/f64: every colour difference the type offers (delta_e, improved_delta_e, CIEDE2000 difference / improved_difference / get_color_difference, hybrid_distance, distance, distance_squared, WCAG relative_contrast), mix, lighten / darken (relative, fixed), saturate / desaturate (relative, fixed), shift_hue, with_hue, and for the blendable types the eleven blend modes, six Porter-Duff operators (on Alpha and PreAlpha) and premultiply / unpremultiply return finite values and do not panic on: the boundary lattice of the type and one seeded interior colour per lattice point, each paired with itself, with copies nudged in one component by 1e-9 .. 1e-3 of its range, and with other lattice points; factors and alphas from {0, 1e-9, 1/4, 1/2, 1 - 1e-9, 1}; distinct = (type, float, number of components on a bound, number of zeros)",
    );
    type St = encoding::Srgb;
    type Lin = encoding::Linear<encoding::Srgb>;
    macro_rules! rgb {
        ($T:ty) => {{
            type C = palette::rgb::Rgb<Lin, $T>;
            let (unary, mixes) = common!(C, $T);
            let ops = Ops { diffs: diff_ops!(C, $T; "distance" => |a, b| a.distance(b), "distance_squared" => |a, b| a.distance_squared(b), "relative_contrast" => |a, b| a.relative_contrast(b)), mixes, unary, blends: blend_ops!(C, $T) };
            suite::<C, $T>(&ctx, &mut m, &desc("LinSrgb", [U, U, U], None), &ops);
            type S = palette::rgb::Rgb<St, $T>;
            let (unary, mixes) = common!(S, $T);
            let ops = Ops { diffs: diff_ops!(S, $T; "relative_contrast" => |a, b| a.relative_contrast(b)), mixes, unary, blends: blend_ops!(S, $T) };
            suite::<S, $T>(&ctx, &mut m, &desc("Srgb", [U, U, U], None), &ops);
        }};
    }
    for_both!(rgb);
    macro_rules! xyz {
        ($T:ty) => {{
            type C = Xyz<D65, $T>;
            let mixes = mix_ops!(C, $T; "mix" => |a, b, f| a.mix(b, f));
            let ops = Ops { diffs: diff_ops!(C, $T; "distance" => |a, b| a.distance(b), "distance_squared" => |a, b| a.distance_squared(b)), mixes, unary: vec![], blends: blend_ops!(C, $T) };
            suite::<C, $T>(&ctx, &mut m, &desc("Xyz", [(0.0, 0.95047), (0.0, 1.0), (0.0, 1.08883)], None), &ops);
            type Y = Yxy<D65, $T>;
            let (unary, mixes) = common!(Y, $T);
            let ops: Ops<Y> = Ops { diffs: vec![], mixes, unary, blends: vec![] };
            suite::<Y, $T>(&ctx, &mut m, &desc("Yxy", [U, U, U], None), &ops);
        }};
    }
    for_both!(xyz);
    macro_rules! lab {
        ($T:ty) => {{
            type C = Lab<D65, $T>;
            let (unary, mixes) = common!(C, $T);
            let ops = Ops {
                diffs: diff_ops!(C, $T; "delta_e" => |a, b| a.delta_e(b), "improved_delta_e" => |a, b| a.improved_delta_e(b), "ciede2000" => |a, b| a.difference(b), "improved_ciede2000" => |a, b| a.improved_difference(b),
                    "get_color_difference" => |a, b| a.get_color_difference(b), "hybrid_distance" => |a, b| a.hybrid_distance(b), "distance" => |a, b| a.distance(b), "distance_squared" => |a, b| a.distance_squared(b)),
                mixes, unary, blends: vec![] };
            suite::<C, $T>(&ctx, &mut m, &desc("Lab", [(0.0, 100.0), (-128.0, 127.0), (-128.0, 127.0)], None), &ops);
            type H = Lch<D65, $T>;
            let (mut unary, mixes) = common!(H, $T);
            unary.extend(sat_ops!(H, $T));
            unary.extend(hue_ops!(H, $T));
            let ops = Ops {
                diffs: diff_ops!(H, $T; "delta_e" => |a, b| a.delta_e(b), "improved_delta_e" => |a, b| a.improved_delta_e(b), "ciede2000" => |a, b| a.difference(b), "improved_ciede2000" => |a, b| a.improved_difference(b), "get_color_difference" => |a, b| a.get_color_difference(b)),
                mixes, unary, blends: vec![] };
            suite::<H, $T>(&ctx, &mut m, &desc("Lch", [(0.0, 100.0), (0.0, 128.0), HUE], Some(2)), &ops);
        }};
    }
    for_both!(lab);
    macro_rules! luv {
        ($T:ty) => {{
            type C = Luv<D65, $T>;
            let (unary, mixes) = common!(C, $T);
            let ops = Ops { diffs: diff_ops!(C, $T; "hybrid_distance" => |a, b| a.hybrid_distance(b), "distance" => |a, b| a.distance(b), "distance_squared" => |a, b| a.distance_squared(b)), mixes, unary, blends: vec![] };
            suite::<C, $T>(&ctx, &mut m, &desc("Luv", [(0.0, 100.0), (-84.0, 176.0), (-135.0, 108.0)], None), &ops);
            type H = Lchuv<D65, $T>;
            let (mut unary, mixes) = common!(H, $T);
            unary.extend(sat_ops!(H, $T));
            unary.extend(hue_ops!(H, $T));
            let ops: Ops<H> = Ops { diffs: vec![], mixes, unary, blends: vec![] };
            suite::<H, $T>(&ctx, &mut m, &desc("Lchuv", [(0.0, 100.0), (0.0, 180.0), HUE], Some(2)), &ops);
            type S = Hsluv<D65, $T>;
            let (mut unary, mixes) = common!(S, $T);
            unary.extend(sat_ops!(S, $T));
            unary.extend(hue_ops!(S, $T));
            let ops: Ops<S> = Ops { diffs: vec![], mixes, unary, blends: vec![] };
            suite::<S, $T>(&ctx, &mut m, &desc("Hsluv", [HUE, (0.0, 100.0), (0.0, 100.0)], Some(0)), &ops);
        }};
    }
    for_both!(luv);
    macro_rules! ok {
        ($T:ty) => {{
            type C = Oklab<$T>;
            let (unary, mixes) = common!(C, $T);
            let ops = Ops { diffs: diff_ops!(C, $T; "hybrid_distance" => |a, b| a.hybrid_distance(b), "distance" => |a, b| a.distance(b), "distance_squared" => |a, b| a.distance_squared(b)), mixes, unary, blends: vec![] };
            suite::<C, $T>(&ctx, &mut m, &desc("Oklab", [U, (-0.4, 0.4), (-0.4, 0.4)], None), &ops);
            type H = Oklch<$T>;
            let (mut unary, mixes) = common!(H, $T);
            unary.extend(hue_ops!(H, $T));
            let ops: Ops<H> = Ops { diffs: vec![], mixes, unary, blends: vec![] };
            suite::<H, $T>(&ctx, &mut m, &desc("Oklch", [U, (0.0, 0.4), HUE], Some(2)), &ops);
            macro_rules! cyl {
                ($S:ty, $name:expr, $sat:expr, $hwb:expr) => {{
                    let (mut unary, mixes) = common!($S, $T);
                    if $sat {
                        unary.extend(cyl_sat!($S));
                    }
                    unary.extend(hue_ops!($S, $T));
                    let ops: Ops<$S> = Ops { diffs: vec![], mixes, unary, blends: vec![] };
                    suite::<$S, $T>(&ctx, &mut m, &Desc { name: $name, ranges: [HUE, U, U], hue: Some(0), hwb: $hwb }, &ops);
                }};
            }
            macro_rules! cyl_sat {
                ($S:ty) => {
                    sat_ops!($S, $T)
                };
            }
            cyl!(Okhsl<$T>, "Okhsl", true, false);
            cyl!(Okhsv<$T>, "Okhsv", true, false);
            cyl!(Hsl<St, $T>, "Hsl", true, false);
            cyl!(Hsv<St, $T>, "Hsv", true, false);
            {
                type S = Okhwb<$T>;
                let (mut unary, mixes) = common!(S, $T);
                unary.extend(hue_ops!(S, $T));
                let ops: Ops<S> = Ops { diffs: vec![], mixes, unary, blends: vec![] };
                suite::<S, $T>(&ctx, &mut m, &Desc { name: "Okhwb", ranges: [HUE, U, U], hue: Some(0), hwb: true }, &ops);
                type W = Hwb<St, $T>;
                let (mut unary, mixes) = common!(W, $T);
                unary.extend(hue_ops!(W, $T));
                let ops: Ops<W> = Ops { diffs: vec![], mixes, unary, blends: vec![] };
                suite::<W, $T>(&ctx, &mut m, &Desc { name: "Hwb", ranges: [HUE, U, U], hue: Some(0), hwb: true }, &ops);
            }
        }};
    }
    for_both!(ok);
    macro_rules! cam {
        ($T:ty) => {{
            type C = Cam16UcsJab<$T>;
            let (unary, mixes) = common!(C, $T);
            let ops = Ops { diffs: diff_ops!(C, $T; "hybrid_distance" => |a, b| a.hybrid_distance(b), "distance" => |a, b| a.distance(b), "distance_squared" => |a, b| a.distance_squared(b), "delta_e" => |a, b| a.delta_e(b), "improved_delta_e" => |a, b| a.improved_delta_e(b)), mixes, unary, blends: vec![] };
            suite::<C, $T>(&ctx, &mut m, &desc("Cam16UcsJab", [(0.0, 100.0), (-50.0, 50.0), (-50.0, 50.0)], None), &ops);
            type H = Cam16UcsJmh<$T>;
            let (mut unary, mixes) = common!(H, $T);
            unary.extend(hue_ops!(H, $T));
            let ops = Ops { diffs: diff_ops!(H, $T; "delta_e" => |a, b| a.delta_e(b), "improved_delta_e" => |a, b| a.improved_delta_e(b)), mixes, unary, blends: vec![] };
            suite::<H, $T>(&ctx, &mut m, &desc("Cam16UcsJmh", [(0.0, 100.0), (0.0, 50.0), HUE], Some(2)), &ops);
        }};
    }
    for_both!(cam);
    m.tolerance = Some("none: is_finite() and absence of a panic".into());
    m.sample(|| json!({"Lch delta_e of nearly equal chroma": Lch::<D65, f32>::new(50.0, 50.0, 40.0).delta_e(Lch::new(50.0, 50.001, 40.0))}));
    report.add(m);
    report.finish();
}
