//! C02 — conversions match the published colorimetric definitions.
//!
//! Oracle: the independent f64 reference model evaluated on the exact input bits; comparison in a
//! well-conditioned space with a locally calibrated bound (pvmon::judge).

use pvmon::conv_table as ct;
use pvmon::gen;
use pvmon::judge;
use pvmon::refmodel::space::{mat_vec, Space, V3};
use pvmon::report::{bits64, fjson, fvec, par, parse_bits64, Ctx, Monitor, Report};
use pvmon::json;

/// XYZ points that sit on (or a few ulps around) the joins of the piecewise definitions of the
/// two spaces: Lab/Luv epsilon, transfer-curve knees, hexcone sector edges, HSL l = 1/2, Luv L = 8.
fn straddle_points(src: Space, dst: Space, rng: &mut pvmon::Rng) -> Vec<V3> {
    let mut out = Vec::new();
    let wp = src.wp().xyz();
    let eps = 216.0 / 24389.0;
    for k in [-8i32, -1, 0, 1, 8] {
        let f = 1.0 + k as f64 * 2.3e-16;
        // Y/Yn at epsilon (L* = 8), with the other two ratios elsewhere / also at epsilon
        out.push([wp[0] * 0.3, wp[1] * eps * f, wp[2] * 0.2]);
        out.push([wp[0] * eps * f, wp[1] * 0.02, wp[2] * 0.05]);
        out.push([wp[0] * 0.02, wp[1] * 0.02, wp[2] * eps * f]);
        out.push([wp[0] * eps * f, wp[1] * eps * f, wp[2] * eps * f]);
    }
    for sp in [src, dst] {
        let std = match sp {
            Space::Rgb(s) | Space::Hsl(s) | Space::Hsv(s) | Space::Hwb(s) => Some(s),
            Space::Okhsl | Space::Okhsv | Space::Okhwb | Space::Oklab | Space::Oklch => Some(pvmon::refmodel::space::SRGB),
            _ => None,
        };
        if let Some(std) = std {
            let m = std.space.rgb_to_xyz();
            let mut lins: Vec<V3> = Vec::new();
            if let Some((kl, _)) = std.tf.knee() {
                for k in [-4i32, -1, 0, 1, 4] {
                    let v = kl * (1.0 + k as f64 * 2.3e-16);
                    lins.push([v, 0.4, 0.7]);
                    lins.push([0.2, v, v]);
                    lins.push([v, v, v]);
                }
            }
            // sector edges / ties of the hexcone, l = 1/2, grey axis
            for _ in 0..6 {
                let a = rng.unit();
                let b = rng.unit();
                lins.push([std.tf.decode(a), std.tf.decode(a), std.tf.decode(b)]);
                lins.push([std.tf.decode(a), std.tf.decode(b), std.tf.decode(a)]);
                lins.push([std.tf.decode(b), std.tf.decode(a), std.tf.decode(a)]);
                lins.push([std.tf.decode(a), std.tf.decode(1.0 - a), std.tf.decode(a.min(1.0 - a))]);
                lins.push([std.tf.decode(a), std.tf.decode(a), std.tf.decode(a)]);
            }
            for l in lins {
                out.push(mat_vec(&m, l));
            }
        }
    }
    out
}

/// The published definitions do not say what a transfer curve or a gamut-bounded cylinder does with
/// negative linear light: events whose model image in an RGB-based space involved has a clearly
/// negative linear component are not judged (palette extends the linear toe / clips, others mirror).
fn outside_definition(sp: Space, same_anchor: bool, mid: &V3) -> bool {
    let a = match sp.anchor() {
        Some(a) => a,
        None => return matches!(sp, Space::Luma(..)) && !same_anchor && mid[1] < -1e-7,
    };
    // the intermediate is the shared anchor's linear RGB when both spaces have the same anchor, XYZ otherwise
    let lin = if same_anchor { *mid } else { mat_vec(&a.xyz_to_rgb(), *mid) };
    let gamut_bounded = matches!(sp, Space::Hsl(_) | Space::Hsv(_) | Space::Hwb(_) | Space::Okhsl | Space::Okhsv | Space::Okhwb);
    let n = lin.iter().fold(0.0f64, |a, c| a.max(c.abs()));
    if gamut_bounded {
        // clipping / the gamut-intersection search are discontinuous at the gamut surface: any negative component is outside
        lin.iter().any(|c| *c < 0.0 || *c > 1.0 + 1e-9)
    } else {
        lin.iter().any(|c| *c < -1e-7 || *c < -1e-6 * n)
    }
}

fn main() {
    let ctx = Ctx::from_args("C02");
    let mut report = Report::new(&ctx);
    let types = ct::types();
    let pairs = ct::pairs();
    let mname = "conversion_vs_model";
    if ctx.enabled(mname) {
        let mon = Monitor::new(
            mname,
            "every listed conversion pair x f32/f64: inputs = boundary lattice of the source space (in-gamut part), straddle points of every piecewise join of both spaces (+-k ulp, pulled back through the model), seeded in-gamut fill incl. greys, primaries and near-black; \
             oracle: f64 reference model on the exact input bits, compared in cartesian form with tol = floor + model sensitivity to 64 ulp on inputs and XYZ (+5e-7 where 7-digit published constants are crossed); distinct = (pair, hue sector / lightness cell of the input)",
        );
        let replay = ctx.replay.as_ref().filter(|r| r.monitor == mname).map(|r| (r.inst.clone(), parse_bits64(&r.input["bits"])));
        let res = par(if replay.is_some() { 1 } else { ctx.threads }, |t| {
            let mut m = mon.like();
            let mut rng = ctx.rng(mname, t as u64);
            let mut worst_ratio = 0.0f64;
            for (pi, &(i, j)) in pairs.iter().enumerate() {
                let inst = format!("{}->{}", types[i].name, types[j].name);
                if let Some((rinst, _)) = &replay {
                    if *rinst != inst {
                        continue;
                    }
                } else if pi % ctx.threads != t {
                    continue;
                }
                let (src, dst) = (types[i].space, types[j].space);
                let is32 = types[i].is_f32;
                let mut inputs: Vec<V3> = Vec::new();
                if let Some((_, b)) = &replay {
                    inputs.push([b[0], b[1], b[2]]);
                } else {
                    for xyz in straddle_points(src, dst, &mut rng) {
                        inputs.push(src.from_xyz(xyz));
                    }
                    for _ in 0..ctx.n(400, 40_000) {
                        inputs.push(gen::gamut_fill(src, &mut rng));
                    }
                    // in-gamut part of the lattice: keep points whose model image lies in every RGB cube involved
                    for x in gen::lattice(src) {
                        let lin = pvmon::refmodel::space::mat_vec(&pvmon::refmodel::space::RgbSpaceM { prim: pvmon::refmodel::space::Prim::Srgb, wp: src.wp() }.xyz_to_rgb(), src.to_xyz(x));
                        if lin.iter().all(|c| *c >= -1e-9 && *c <= 1.0 + 1e-9) {
                            inputs.push(x);
                        }
                    }
                }
                for mut x in inputs {
                    if is32 {
                        x = [x[0] as f32 as f64, x[1] as f32 as f64, x[2] as f32 as f64];
                    }
                    if !x.iter().all(|c| c.is_finite()) || !src.in_nominal_range(&x) {
                        continue;
                    }
                    let got = match ct::convert(i, j, x) {
                        Some(g) => g,
                        None => continue,
                    };
                    let (want, mid) = src.convert_to(dst, x);
                    let same = src.anchor().is_some() && src.anchor() == dst.anchor();
                    if outside_definition(src, same, &mid) || outside_definition(dst, same, &mid) {
                        m.count("not_judged_outside_definition");
                        continue;
                    }
                    // palette maps L* < 1e-5 in the Luv family to black (documented cut-off): accepted when the model
                    // says the colour is within 1e-5 L* of black
                    if matches!(src, Space::Luv(_) | Space::Lchuv(_) | Space::Hsluv(_)) {
                        let l = if matches!(src, Space::Hsluv(_)) { x[2] } else { x[0] };
                        if l.abs() < 1.0001e-5 {
                            m.count("not_judged_luv_black_cutoff");
                            continue;
                        }
                    }
                    if !want.iter().all(|c| c.is_finite()) {
                        continue;
                    }
                    m.eval();
                    let d = judge::dist(&dst.cmp_vec(got), &dst.cmp_vec(want));
                    let tol = judge::tolerance(src, dst, &x, is32);
                    let ratio = d / tol;
                    if !matches!(src, Space::Oklab | Space::Oklch | Space::Okhsl | Space::Okhsv | Space::Okhwb) && !matches!(dst, Space::Oklab | Space::Oklch | Space::Okhsl | Space::Okhsv | Space::Okhwb) && tol < 1e-2 * dst.scale() {
                        m.counter_max(if is32 { "max:ratio_milli_f32_non_ok" } else { "max:ratio_milli_f64_non_ok" }, if d <= tol { (ratio * 1000.0) as u64 } else { 0 });
                    }
                    if ratio > worst_ratio && d <= tol {
                        worst_ratio = ratio;
                        m.max_dev = ratio;
                        m.argmax = Some(json!({"pair": inst, "x": fvec(&x), "got": fvec(&got), "model": fvec(&want), "deviation": fjson(d), "tolerance": tol}));
                    }
                    if !(d <= tol) {
                        let ok_family = |s: Space| matches!(s, Space::Oklab | Space::Oklch | Space::Okhsl | Space::Okhsv | Space::Okhwb);
                        let hsluv_white = (matches!(dst, Space::Hsluv(_)) && want[2] > 100.0 - 1e-3) || (matches!(src, Space::Hsluv(_)) && x[2] > 100.0 - 1e-3);
                        let bare_power = matches!(dst, Space::Rgb(s) | Space::Hsl(s) | Space::Hsv(s) | Space::Hwb(s) if matches!(s.tf, pvmon::refmodel::transfer::Tf::Adobe | pvmon::refmodel::transfer::Tf::P3Gamma));
                        let class = if got.iter().any(|c| !c.is_finite()) && bare_power && dst.anchor().map_or(false, |a| { let lin = if same { mid } else { mat_vec(&a.xyz_to_rgb(), mid) }; let n = lin.iter().fold(1.0f64, |a, c| a.max(c.abs())); lin.iter().any(|c| *c < 1e-6 * n) }) {
                            "nonfinite:bare_power_tf_negative_linear"
                        } else if got.iter().any(|c| !c.is_finite()) && matches!(dst, Space::Hsl(_)) && src.anchor() != dst.anchor() && (want[2] - 1.0).abs() <= 1e-6 {
                            "nonfinite:hsl_white_overshoot"
                        } else if got.iter().any(|c| !c.is_finite()) {
                            "nonfinite"
                        } else if hsluv_white {
                            "hsluv_no_guard_at_white"
                        } else if (ok_family(src) || ok_family(dst)) && d <= 2e-8 * dst.scale() + judge::sensitivity(src, dst, &x, judge::K * judge::U64, if matches!(dst, Space::Okhsl | Space::Okhsv | Space::Okhwb) { 3e-3 } else { 5e-4 }) {
                            // (Okhsl / Okhsv / Okhwb divide the residue by a maximum chroma that vanishes towards white and black)
                            "oklab_xyz_matrix_white_mismatch"
                        } else if d > 1e3 * tol {
                            "gross"
                        } else {
                            "beyond_tolerance"
                        };
                        m.violate(&inst, class, json!({"bits": bits64(&x), "x": fvec(&x)}), json!({"got": fvec(&got), "deviation": fjson(d)}), json!({"model": fvec(&want), "tolerance": tol}), "");
                    }
                    let cellk = ((dst.cmp_vec(want)[0] * 4.0 / dst.scale()) as i64 & 7) as u64 | (((want[1].abs() * 3.0) as u64 & 3) << 3) | (((want[2].abs() * 3.0) as u64 & 3) << 5);
                    m.cell(pvmon::rng::mix(pi as u64, cellk));
                }
            }
            vec![m]
        });
        for mut m in res {
            m.tolerance = Some("floor (2e-8 S f64, 4u S f32) + model sensitivity to 64 ulp perturbation of inputs and XYZ, + 5e-7 relative on XYZ where published 7-digit constants are crossed; max_deviation_observed is the worst deviation/tolerance ratio".into());
            m.counters.insert("pairs".into(), pairs.len() as u64);
            let j = types.iter().position(|t| t.name == "Lab<D65>/f64").unwrap();
            m.sample(|| json!({"pair": "Srgb/f64->Lab<D65>/f64", "x": [1.0, 0.0, 0.0], "palette": ct::convert(0, j, [1.0, 0.0, 0.0]), "model": fvec(&types[0].space.convert_to(types[j].space, [1.0, 0.0, 0.0]).0)}));
            report.add(m);
        }
    }
    report.finish();
}
