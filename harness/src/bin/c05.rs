//! C05 — transfer functions and their lookup tables are faithful, monotone and total.

use palette::encoding::{AdobeRgb, FromLinear, IntoLinear, P3Gamma, ProPhotoRgb, RecOetf, Srgb};
use pvmon::fbits::*;
use pvmon::refmodel::transfer::Tf;
use pvmon::report::{fjson, par, Ctx, Monitor, Report};
use pvmon::json;
use std::panic::{catch_unwind, AssertUnwindSafe};

#[derive(Clone, Copy)]
struct Enc {
    name: &'static str,
    tf: Tf,
    max: u32,
    enc32: fn(f32) -> u32,
    enc64: fn(f64) -> u32,
    dec32: fn(u32) -> f32,
    dec64: fn(u32) -> f64,
}

macro_rules! enc8 {
    ($name:expr, $T:ty, $tf:expr) => {
        Enc {
            name: $name,
            tf: $tf,
            max: 255,
            enc32: |x| <$T as FromLinear<f32, u8>>::from_linear(x) as u32,
            enc64: |x| <$T as FromLinear<f64, u8>>::from_linear(x) as u32,
            dec32: |n| <$T as IntoLinear<f32, u8>>::into_linear(n as u8),
            dec64: |n| <$T as IntoLinear<f64, u8>>::into_linear(n as u8),
        }
    };
}

fn encoders() -> Vec<Enc> {
    vec![
        enc8!("Srgb", Srgb, Tf::Srgb),
        enc8!("RecOetf", RecOetf, Tf::RecOetf),
        enc8!("AdobeRgb", AdobeRgb, Tf::Adobe),
        enc8!("P3Gamma", P3Gamma, Tf::P3Gamma),
        Enc {
            name: "ProPhotoRgb",
            tf: Tf::ProPhoto,
            max: 65535,
            enc32: |x| <ProPhotoRgb as FromLinear<f32, u16>>::from_linear(x) as u32,
            enc64: |x| <ProPhotoRgb as FromLinear<f64, u16>>::from_linear(x) as u32,
            dec32: |n| <ProPhotoRgb as IntoLinear<f32, u16>>::into_linear(n as u16),
            dec64: |n| <ProPhotoRgb as IntoLinear<f64, u16>>::into_linear(n as u16),
        },
    ]
}

/// judge one encode event. Returns Ok((err, in_tie_band)) or Err(class).
#[inline]
fn judge(e: &Enc, v: f64, k: u32) -> Result<(f64, bool), &'static str> {
    if k > e.max {
        return Err("code_above_max");
    }
    if v.is_nan() {
        return Ok((0.0, false));
    }
    if v <= 0.0 {
        return if k == 0 { Ok((0.0, false)) } else { Err("nonpositive_not_zero") };
    }
    if v >= 1.0 {
        return if k == e.max { Ok((0.0, false)) } else { Err("ge_one_not_max") };
    }
    let t = e.max as f64 * e.tf.encode(v);
    let err = (k as f64 - t).abs();
    if !(err < 0.6) {
        return Err("error_ge_0.6");
    }
    let frac = t - t.floor();
    let tie = (frac - 0.5).abs() < 0.1;
    if !tie && k as f64 != t.round() {
        return Err("not_exact_rounding_outside_tie_band");
    }
    Ok((err, tie))
}

struct St {
    evals: u64,
    maxerr: f64,
    arg: u32,
    ties: u64,
    nan: u64,
    neg: u64,
    big: u64,
    prev: u32,
    codes: Vec<bool>,
    bad: Vec<(u32, u32, String, String)>,
}

fn panic_msg(p: Box<dyn std::any::Any + Send>) -> String {
    if let Some(s) = p.downcast_ref::<String>() {
        s.clone()
    } else if let Some(s) = p.downcast_ref::<&str>() {
        s.to_string()
    } else {
        "panic".into()
    }
}

fn lut_sweep(ctx: &Ctx, report: &mut Report) {
    for e in encoders() {
        let mname = "lut_encode_f32_sweep";
        if !ctx.enabled(mname) {
            continue;
        }
        let mut mon = Monitor::new(
            mname,
            "f32 bit patterns -> integer code through FromLinear<f32,u8|u16>; oracle: max*f(x) of the standard curve in f64, error < 0.6, exact rounding outside the 0.1 tie band, \
             saturation, monotone over ascending patterns, no panic / out-of-range index (hook + ub_checks live); distinct = (encoder, output code) reached + (encoder, sign, exponent) cells",
        );
        mon.tolerance = Some("error < 0.6 code; exact outside |frac-0.5|<0.1".into());
        let full = !ctx.quick();
        let replay = ctx.replay_input(mname, e.name);
        if ctx.replaying() && replay.is_none() {
            continue;
        }
        let nthreads = if replay.is_some() { 1 } else { ctx.threads };
        let res = par(nthreads, |t| {
            let mut m = mon.like();
            let mut s = St { evals: 0, maxerr: 0.0, arg: 0, ties: 0, nan: 0, neg: 0, big: 0, prev: 0, codes: vec![false; e.max as usize + 1], bad: vec![] };
            let one = |bits: u32, s: &mut St, mono: bool| {
                let x = f32::from_bits(bits);
                let k = (e.enc32)(x);
                s.evals += 1;
                if (k as usize) < s.codes.len() {
                    s.codes[k as usize] = true;
                }
                match judge(&e, x as f64, k) {
                    Ok((err, tie)) => {
                        if err > s.maxerr {
                            s.maxerr = err;
                            s.arg = bits;
                        }
                        s.ties += tie as u64;
                    }
                    Err(c) => {
                        if s.bad.len() < 32 && !s.bad.iter().any(|b| b.2 == c) {
                            s.bad.push((bits, k, c.to_string(), String::new()));
                        }
                    }
                }
                if x.is_nan() {
                    s.nan += 1;
                } else if x <= 0.0 {
                    s.neg += 1;
                } else if x >= 1.0 {
                    s.big += 1;
                }
                if mono && !x.is_nan() && bits < 0x8000_0000 {
                    if k < s.prev && s.bad.len() < 32 && !s.bad.iter().any(|b| b.2 == "not_monotone") {
                        s.bad.push((bits, k, "not_monotone".into(), format!("previous pattern gave {}", s.prev)));
                    }
                    s.prev = k;
                }
            };
            // run a closed range of patterns with panic capture
            let run_range = |lo: u64, hi: u64, step: u64, s: &mut St, mono: bool| {
                let mut b = lo;
                while b <= hi {
                    let end = (b + 8192 * step).min(hi + 1);
                    let r = catch_unwind(AssertUnwindSafe(|| {
                        let mut c = b;
                        while c < end {
                            one(c as u32, s, mono);
                            c += step;
                        }
                    }));
                    if r.is_err() {
                        // locate the culprit(s) one by one
                        let mut c = b;
                        while c < end {
                            let r1 = catch_unwind(AssertUnwindSafe(|| (e.enc32)(f32::from_bits(c as u32))));
                            if let Err(p) = r1 {
                                if s.bad.len() < 32 && !s.bad.iter().any(|x| x.2 == "panic") {
                                    s.bad.push((c as u32, 0, "panic".into(), panic_msg(p)));
                                }
                            }
                            c += step;
                        }
                    }
                    b = end;
                }
            };
            if let Some(inp) = &replay {
                let bits = u32::from_str_radix(inp["bits"].as_str().unwrap().trim_start_matches("0x"), 16).unwrap();
                if bits > 0 && bits < 0x8000_0000 {
                    run_range(bits as u64 - 1, bits as u64, 1, &mut s, true);
                } else {
                    run_range(bits as u64, bits as u64, 1, &mut s, false);
                }
            } else if full {
                let per = (1u64 << 32) / ctx.threads as u64;
                let lo = per * t as u64;
                let hi = if t == ctx.threads - 1 { (1u64 << 32) - 1 } else { lo + per - 1 };
                if lo > 0 {
                    s.prev = 0;
                    let x = f32::from_bits((lo - 1) as u32);
                    if !x.is_nan() && lo - 1 < 0x8000_0000 {
                        s.prev = catch_unwind(AssertUnwindSafe(|| (e.enc32)(x))).unwrap_or(0);
                    }
                }
                run_range(lo, hi, 1, &mut s, true);
            } else {
                // strided sweep
                let stride = 31u64 * ctx.threads as u64;
                let first = (t as u64) * 31 + (ctx.seed % 31);
                run_range(first, (1u64 << 32) - 1, stride, &mut s, true);
                // dense windows: +-2^12 around every exponent boundary and every table bucket boundary
                let mut centers: Vec<u32> = Vec::new();
                let mut i = t as u32;
                while i < 0x3f80_0000 >> 19 {
                    centers.push(i << 19);
                    i += ctx.threads as u32;
                }
                for ex in (t as u32..256).step_by(ctx.threads) {
                    centers.push(ex << 23);
                    centers.push((ex << 23) | 0x8000_0000);
                }
                if t == 0 {
                    centers.push(0x3f80_0000);
                    centers.push(0x3f7f_ffff);
                    if let Some((kl, _)) = e.tf.knee() {
                        centers.push((kl as f32).to_bits());
                    }
                }
                for c in centers {
                    let sign = c & 0x8000_0000;
                    let lo = (c & 0x7fff_ffff).saturating_sub(4096);
                    let hi = ((c & 0x7fff_ffff) + 4096).min(0x7fff_ffff);
                    s.prev = 0;
                    run_range((lo | sign) as u64, (hi | sign) as u64, 1, &mut s, sign == 0 && false);
                    // monotonicity inside the window (restart prev)
                    if sign == 0 {
                        let mut prev = 0u32;
                        let mut b = lo;
                        while b <= hi {
                            let x = f32::from_bits(b);
                            if !x.is_nan() {
                                if let Ok(k) = catch_unwind(AssertUnwindSafe(|| (e.enc32)(x))) {
                                    if k < prev && s.bad.len() < 32 && !s.bad.iter().any(|q| q.2 == "not_monotone") {
                                        s.bad.push((b, k, "not_monotone".into(), format!("previous pattern gave {}", prev)));
                                    }
                                    prev = k;
                                }
                            }
                            b += 1;
                        }
                    }
                }
                for h in hostile_f32() {
                    run_range(h.to_bits() as u64, h.to_bits() as u64, 1, &mut s, false);
                }
            }
            m.evals(s.evals);
            m.dev(s.maxerr, || json!({"encoder": e.name, "what": "|code - max*f(x)|", "bits": format!("{:#010x}", s.arg), "x": fjson(f32::from_bits(s.arg) as f64)}));
            m.count_n("tie_band_inputs", s.ties);
            m.count_n("nan_inputs", s.nan);
            m.count_n("nonpositive_inputs", s.neg);
            m.count_n("ge_one_inputs", s.big);
            for (k, seen) in s.codes.iter().enumerate() {
                if *seen {
                    m.cell(pvmon::rng::mix(pvmon::rng::hash_str(e.name), k as u64));
                }
            }
            for (bits, k, class, note) in &s.bad {
                m.violate(e.name, class, json!({"bits": format!("{:#010x}", bits), "x": fjson(f32::from_bits(*bits) as f64)}), json!(k), json!(fjson(e.max as f64 * e.tf.encode((f32::from_bits(*bits) as f64).clamp(0.0, 1.0)))), note);
            }
            vec![m]
        });
        for mut m in res {
            if replay.is_none() {
                // every code must be reachable (onto) — observed through the distinct set
                let reached = (0..=e.max).filter(|k| m.distinct.contains(&pvmon::rng::mix(pvmon::rng::hash_str(e.name), *k as u64))).count();
                m.counters.insert(format!("codes_reached_{}", e.name), reached as u64);
                if full || e.max == 255 {
                    m.eval();
                    if reached != e.max as usize + 1 {
                        m.violate(e.name, "codes_not_onto", json!({}), json!(reached), json!(e.max + 1), "");
                    }
                }
                if full {
                    m.exhaustive = Some("all 2^32 f32 bit patterns x {Srgb,RecOetf,AdobeRgb,P3Gamma -> u8; ProPhotoRgb -> u16}".into());
                }
            }
            m.sample(|| json!({"encoder": e.name, "x": 0.5, "code": (e.enc32)(0.5), "exact": e.max as f64 * e.tf.encode(0.5)}));
            report.add(m);
        }
    }
}

fn lut_codes(ctx: &Ctx, report: &mut Report) {
    let mname = "lut_decode_codes";
    if !ctx.enabled(mname) {
        return;
    }
    let mut m = Monitor::new(
        mname,
        "every integer code n: decode (f32 and f64 tables) equals the standard curve at n/max, is monotone in n, decode(0)=0, decode(max)=1, and encode(decode(n)) == n through the f32 and f64 entry points; \
         distinct = (encoder, code)",
    );
    m.tolerance = Some("decode tables: sRGB 3e-8 (its generated table uses a continuity-adjusted constant, 1.4e-8 off the published curve), all others 1e-12, f32 tables + 1 ulp".into());
    for e in encoders() {
        let replay = ctx.replay_input(mname, e.name);
        if ctx.replaying() && replay.is_none() {
            continue;
        }
        let codes: Vec<u32> = match &replay {
            Some(inp) => vec![inp["code"].as_u64().unwrap() as u32],
            None => (0..=e.max).collect(),
        };
        let mut p32 = -1.0f32;
        let mut p64 = -1.0f64;
        for n in codes {
            let a = (e.dec32)(n);
            let b = (e.dec64)(n);
            let want = e.tf.decode(n as f64 / e.max as f64);
            m.evals(4);
            let d32 = (a as f64 - want).abs();
            let d64 = (b - want).abs();
            m.dev(d64, || json!({"encoder": e.name, "code": n, "table_f64": b, "model": want}));
            m.counter_max(&format!("max:decode_f64_deviation_e15:{}", e.name), (d64 * 1e15) as u64);
            if b == a as f64 && n != 0 && n != e.max {
                m.count(&format!("f64_table_value_is_an_f32_value:{}", e.name));
            }
            // the generated tables use a continuity-adjusted alpha (1.05501.. instead of 1.055): up to 1.4e-8 off the published curve
            // (measured on the unchanged tree: sRGB 1.4e-8, every other table below 2e-15)
            let tol64 = if e.name == "Srgb" { 3e-8 } else { 1e-12 };
            if !(d32 <= tol64 + 1.01 * ulp32(want as f32)) || !(d64 <= tol64) {
                m.violate(e.name, "decode_table_value", json!({"code": n}), json!({"f32": a, "f64": b}), json!(want), "");
            }
            if !(a > p32) || !(b > p64) {
                m.violate(e.name, "decode_not_increasing", json!({"code": n}), json!({"f32": a, "f64": b}), json!({"prev32": p32, "prev64": p64}), "");
            }
            p32 = a;
            p64 = b;
            if (n == 0 && (a != 0.0 || b != 0.0)) || (n == e.max && (a != 1.0 || b != 1.0)) {
                m.violate(e.name, "decode_endpoints", json!({"code": n}), json!({"f32": a, "f64": b}), json!(if n == 0 { 0.0 } else { 1.0 }), "");
            }
            let r32 = catch_unwind(|| (e.enc32)(a)).unwrap_or(u32::MAX);
            let r64 = catch_unwind(|| (e.enc64)(b)).unwrap_or(u32::MAX);
            let r64b = catch_unwind(|| (e.enc64)(a as f64)).unwrap_or(u32::MAX);
            if r32 != n || r64 != n || r64b != n {
                m.violate(e.name, "decode_encode_roundtrip", json!({"code": n}), json!({"via_f32": r32, "via_f64": r64, "via_f32_as_f64": r64b}), json!(n), "");
            }
            m.cell(pvmon::rng::mix(pvmon::rng::hash_str(e.name), n as u64));
        }
        m.sample(|| json!({"encoder": e.name, "code": e.max / 2, "decoded_f32": (e.dec32)(e.max / 2), "model": e.tf.decode((e.max / 2) as f64 / e.max as f64), "re-encoded": (e.enc32)((e.dec32)(e.max / 2))}));
    }
    report.add(m);
}

fn lut_f64_entry(ctx: &Ctx, report: &mut Report) {
    let mname = "lut_encode_f64";
    if !ctx.enabled(mname) {
        return;
    }
    let mon = Monitor::new(
        mname,
        "FromLinear<f64,u8|u16>: hostile doubles, doubles that round across f32 boundaries / table buckets, seeded doubles; same oracle as the f32 sweep (tie band widened by the f64->f32 rounding); monotone over sorted inputs; \
         distinct = (encoder, binade, code)",
    );
    for e in encoders() {
        let replay = ctx.replay_input(mname, e.name);
        if ctx.replaying() && replay.is_none() {
            continue;
        }
        let mut xs: Vec<f64> = Vec::new();
        if let Some(inp) = &replay {
            xs = pvmon::report::parse_bits64(&inp["bits"]);
        } else {
            xs.extend(hostile_f64());
            let mut rng = ctx.rng(&format!("f64entry{}", e.name), 0);
            for _ in 0..ctx.n(1_000_000, 25_000_000) {
                xs.push(match rng.below(5) {
                    0 => rng.unit(),
                    1 => rng.range(-0.25, 1.25),
                    2 => rng.range(-40.0, 0.5).exp2(),
                    3 => {
                        // midpoint between two adjacent f32 (rounds across an f32 boundary)
                        let a = f32::from_bits(rng.below(0x3f80_0000) as u32);
                        let mid = (a as f64 + next_up32(a) as f64) / 2.0;
                        step64(mid, rng.below(5) as i32 - 2)
                    }
                    _ => f64::from_bits(rng.next_u64()),
                });
            }
            xs.sort_by(|a, b| a.partial_cmp(b).unwrap_or_else(|| a.is_nan().cmp(&b.is_nan())));
        }
        let chunks: Vec<&[f64]> = xs.chunks((xs.len() + 15) / 16).collect();
        let res = par(chunks.len(), |t| {
            let mut m = mon.like();
            let mut prev = 0u32;
            for (i, &x) in chunks[t].iter().enumerate() {
                let k = match catch_unwind(|| (e.enc64)(x)) {
                    Ok(k) => k,
                    Err(p) => {
                        m.violate(e.name, "panic", json!({"bits": pvmon::report::bits64(&[x])}), json!(panic_msg(p)), json!("no panic"), "");
                        continue;
                    }
                };
                m.eval();
                // judge on the f32-rounded value (the documented entry rounds to f32 first) and on x itself: accept either
                let j1 = judge(&e, x, k);
                let j2 = judge(&e, (x as f32) as f64, k);
                if let (Err(c), Err(_)) = (&j1, &j2) {
                    m.violate(e.name, c, json!({"bits": pvmon::report::bits64(&[x]), "x": fjson(x)}), json!(k), fjson(e.max as f64 * e.tf.encode(x.clamp(0.0, 1.0))), "");
                }
                if let Ok((err, _)) = j1 {
                    m.dev(err, || json!({"encoder": e.name, "x": x, "code": k}));
                }
                if !x.is_nan() && i > 0 && !chunks[t][i - 1].is_nan() && k < prev {
                    m.violate(e.name, "not_monotone", json!({"bits": pvmon::report::bits64(&[chunks[t][i - 1], x])}), json!(k), json!(prev), "");
                }
                prev = k;
                m.cell(pvmon::rng::mix(pvmon::rng::hash_str(e.name), (((x.to_bits() >> 52) & 0xfff) << 16) | k as u64));
            }
            vec![m]
        });
        for mut m in res {
            m.sample(|| json!({"encoder": e.name, "x": 0.21404114, "code": (e.enc64)(0.21404114)}));
            report.add(m);
        }
    }
}

// ------------------------------------------------------------------------------------------
// float curves

struct Curve {
    tf: Tf,
    enc32: fn(f32) -> f32,
    dec32: fn(f32) -> f32,
    enc64: fn(f64) -> f64,
    dec64: fn(f64) -> f64,
}

macro_rules! curve {
    ($T:ty, $tf:expr) => {
        Curve {
            tf: $tf,
            enc32: |x| <$T as FromLinear<f32, f32>>::from_linear(x),
            dec32: |x| <$T as IntoLinear<f32, f32>>::into_linear(x),
            enc64: |x| <$T as FromLinear<f64, f64>>::from_linear(x),
            dec64: |x| <$T as IntoLinear<f64, f64>>::into_linear(x),
        }
    };
}

fn float_curves(ctx: &Ctx, report: &mut Report) {
    let mname = "float_curves";
    if !ctx.enabled(mname) {
        return;
    }
    use palette::encoding::gamma::{F2p2, GammaFn};
    use palette::encoding::linear::LinearFn;
    let curves = vec![
        curve!(Srgb, Tf::Srgb),
        curve!(RecOetf, Tf::RecOetf),
        curve!(AdobeRgb, Tf::Adobe),
        curve!(P3Gamma, Tf::P3Gamma),
        curve!(ProPhotoRgb, Tf::ProPhoto),
        curve!(LinearFn, Tf::Linear),
        curve!(GammaFn<F2p2>, Tf::Gamma22),
    ];
    let mon = Monitor::new(
        mname,
        "generic float transfer functions (f32,f32) and (f64,f64) on [0,1]: equal to the standard curve, encode/decode mutually inverse, monotone over sorted points except a downward step < 1e-6 across the knee; \
         points = +-k ulp straddle sets of both knees, dense grid, seeded fill; distinct = (curve, segment, 1/4096 cell)",
    );
    for c in &curves {
        let name = c.tf.name();
        let replay = ctx.replay_input(mname, name);
        if ctx.replaying() && replay.is_none() {
            continue;
        }
        let mut xs: Vec<f64> = Vec::new();
        if let Some(inp) = &replay {
            xs = pvmon::report::parse_bits64(&inp["bits"]);
        } else {
            let mut rng = ctx.rng(&format!("curve{}", name), 0);
            for i in 0..=4096 {
                xs.push(i as f64 / 4096.0);
            }
            let mut joins = vec![0.0, 1.0, 0.5];
            if let Some((kl, ke)) = c.tf.knee() {
                joins.push(kl);
                joins.push(ke);
                joins.push(c.tf.encode(kl));
                joins.push(c.tf.decode(ke));
            }
            for j in joins {
                for k in [0i32, 1, 2, 3, 8, 64, 1024] {
                    for sgn in [-1, 1] {
                        let a = step64(j, sgn * k);
                        let b = step32(j as f32, sgn * k) as f64;
                        for v in [a, b] {
                            if (0.0..=1.0).contains(&v) {
                                xs.push(v);
                            }
                        }
                    }
                }
                for _ in 0..2000 {
                    let v = j * (1.0 + rng.range(-2e-3, 2e-3));
                    if (0.0..=1.0).contains(&v) {
                        xs.push(v);
                    }
                }
            }
            for _ in 0..ctx.n(300_000, 10_000_000) {
                xs.push(match rng.below(3) {
                    0 => rng.unit(),
                    1 => rng.range(-30.0, 0.0).exp2(),
                    _ => rng.unit() * 0.05,
                });
            }
            xs.sort_by(|a, b| a.partial_cmp(b).unwrap());
            xs.dedup();
        }
        let chunks: Vec<&[f64]> = xs.chunks((xs.len() + 15) / 16).collect();
        let res = par(chunks.len(), |t| {
            let mut m = mon.like();
            m.tolerance = Some("value: f64 1e-13+4ulp, f32 4 ulp+1e-7; inverse: f64 1e-12 (1e-6 in the knee zone), f32 1e-6; monotone: downward step <= 2 ulp, < 1e-6 across the knee".into());
            let knee = c.tf.knee();
            let in_knee_zone = |x: f64, lin: bool| -> bool {
                match knee {
                    None => false,
                    Some((kl, ke)) => {
                        let k = if lin { kl } else { ke };
                        (x - k).abs() <= 2e-3 * k
                    }
                }
            };
            let mut prev: Option<(f64, f64, f64, f32, f32)> = None; // x, enc64, dec64, enc32, dec32
            for &x in chunks[t] {
                let e64 = (c.enc64)(x);
                let d64 = (c.dec64)(x);
                let x32 = x as f32;
                let e32 = (c.enc32)(x32);
                let d32 = (c.dec32)(x32);
                let we = c.tf.encode(x);
                let wd = c.tf.decode(x);
                let we32 = c.tf.encode(x32 as f64);
                let wd32 = c.tf.decode(x32 as f64);
                m.evals(4);
                let dv = (e64 - we).abs().max((d64 - wd).abs());
                m.dev(dv, || json!({"curve": name, "x": x, "encode": e64, "model": we, "decode": d64, "model_decode": wd}));
                // the knee itself may be attributed to either segment: compare against both sides there
                let at_knee_l = knee.map_or(false, |k| (x - k.0).abs() <= 4.0 * ulp32(k.0 as f32));
                let at_knee_e = knee.map_or(false, |k| (x - k.1).abs() <= 4.0 * ulp32(k.1 as f32));
                let slack_l = if at_knee_l { 1e-6 } else { 0.0 };
                let slack_e = if at_knee_e { 1e-6 } else { 0.0 };
                if !((e64 - we).abs() <= 1e-13 + 4.0 * ulp64(we) + slack_l) {
                    m.violate(name, "encode_value_f64", json!({"bits": pvmon::report::bits64(&[x]), "x": x}), fjson(e64), fjson(we), "");
                }
                if !((d64 - wd).abs() <= 1e-13 + 4.0 * ulp64(wd) + slack_e) {
                    m.violate(name, "decode_value_f64", json!({"bits": pvmon::report::bits64(&[x]), "x": x}), fjson(d64), fjson(wd), "");
                }
                if !((e32 as f64 - we32).abs() <= 1e-7 + 4.0 * ulp32(we32 as f32) + slack_l) {
                    m.violate(name, "encode_value_f32", json!({"bits": pvmon::report::bits64(&[x]), "x": x}), fjson(e32 as f64), fjson(we32), "");
                }
                if !((d32 as f64 - wd32).abs() <= 1e-7 + 4.0 * ulp32(wd32 as f32) + slack_e) {
                    m.violate(name, "decode_value_f32", json!({"bits": pvmon::report::bits64(&[x]), "x": x}), fjson(d32 as f64), fjson(wd32), "");
                }
                // inverse both ways
                let r1 = (c.dec64)(e64);
                let r2 = (c.enc64)(d64);
                let t1 = if in_knee_zone(x, true) { 1e-6 } else { 1e-12 + 8.0 * ulp64(x) };
                let t2 = if in_knee_zone(x, false) { 1e-6 } else { 1e-12 + 8.0 * ulp64(x) };
                m.evals(4);
                // decode(encode(x)) for tiny x under a pure power law loses relative, not absolute, accuracy: absolute bound is the claim on [0,1]
                if !((r1 - x).abs() <= t1) {
                    m.violate(name, "decode_of_encode_f64", json!({"bits": pvmon::report::bits64(&[x]), "x": x}), fjson(r1), fjson(x), "");
                }
                if !((r2 - x).abs() <= t2) {
                    m.violate(name, "encode_of_decode_f64", json!({"bits": pvmon::report::bits64(&[x]), "x": x}), fjson(r2), fjson(x), "");
                }
                let r1f = (c.dec32)(e32);
                let r2f = (c.enc32)(d32);
                if !((r1f as f64 - x32 as f64).abs() <= 1.5e-6) {
                    m.violate(name, "decode_of_encode_f32", json!({"bits": pvmon::report::bits64(&[x]), "x": x}), fjson(r1f as f64), fjson(x32 as f64), "");
                }
                // encode(decode(x)) in f32: decode compresses tiny values; bound by the slope of encode at the point
                let slope = {
                    let h = (x32 as f64 * 1e-3).max(1e-9);
                    let dl = c.tf.decode(x32 as f64);
                    ((c.tf.encode(dl + h * dl.max(1e-12)) - c.tf.encode(dl)) / (h * dl.max(1e-12))).abs().max(1.0)
                };
                if !((r2f as f64 - x32 as f64).abs() <= 1.5e-6 + 4.0 * slope * ulp32(d32)) {
                    m.violate(name, "encode_of_decode_f32", json!({"bits": pvmon::report::bits64(&[x]), "x": x}), fjson(r2f as f64), fjson(x32 as f64), "");
                }
                // monotone
                if let Some((px, pe64, pd64, pe32, pd32)) = prev {
                    m.evals(4);
                    let straddle_l = knee.map_or(false, |k| px <= k.0 * (1.0 + 1e-6) && x >= k.0 * (1.0 - 1e-6));
                    let straddle_e = knee.map_or(false, |k| px <= k.1 * (1.0 + 1e-6) && x >= k.1 * (1.0 - 1e-6));
                    let al = if straddle_l { 1e-6 } else { 2.0 * ulp64(pe64) };
                    let ae = if straddle_e { 1e-6 } else { 2.0 * ulp64(pd64) };
                    if pe64 - e64 > al {
                        m.violate(name, "encode_not_monotone_f64", json!({"bits": pvmon::report::bits64(&[px, x])}), fjson(e64), fjson(pe64), "");
                    }
                    if pd64 - d64 > ae {
                        m.violate(name, "decode_not_monotone_f64", json!({"bits": pvmon::report::bits64(&[px, x])}), fjson(d64), fjson(pd64), "");
                    }
                    let al32 = if straddle_l { 1e-6 } else { 2.0 * ulp32(pe32) };
                    let ae32 = if straddle_e { 1e-6 } else { 2.0 * ulp32(pd32) };
                    if (px as f32) <= x32 && (pe32 as f64 - e32 as f64) > al32 {
                        m.violate(name, "encode_not_monotone_f32", json!({"bits": pvmon::report::bits64(&[px, x])}), fjson(e32 as f64), fjson(pe32 as f64), "");
                    }
                    if (px as f32) <= x32 && (pd32 as f64 - d32 as f64) > ae32 {
                        m.violate(name, "decode_not_monotone_f32", json!({"bits": pvmon::report::bits64(&[px, x])}), fjson(d32 as f64), fjson(pd32 as f64), "");
                    }
                }
                prev = Some((x, e64, d64, e32, d32));
                let seg = knee.map_or(0, |k| (x > k.0) as u64 + 2 * (x > k.1) as u64);
                m.cell(pvmon::rng::mix(pvmon::rng::hash_str(name), seg * 8192 + (x * 4096.0) as u64));
            }
            vec![m]
        });
        for mut m in res {
            m.sample(|| json!({"curve": name, "x": 0.2, "encode_f64": (c.enc64)(0.2), "model": c.tf.encode(0.2), "decode_f32": (c.dec32)(0.2), "model_decode": c.tf.decode(0.2)}));
            report.add(m);
        }
    }
}

fn wiring(ctx: &Ctx, report: &mut Report) {
    let mname = "rgb_luma_wiring";
    if !ctx.enabled(mname) || ctx.replaying() {
        return;
    }
    use palette::rgb::Rgb;
    use palette::{LinLuma, LinSrgb, SrgbLuma};
    let mut m = Monitor::new(
        mname,
        "Rgb/Luma into_linear, from_linear, into_encoding, from_encoding (u8<->f32, f32<->f32, f64) equal the transfer function applied per component, alpha linear; each of seven named standards decodes with the model curve of that standard as an RgbStandard and bit-identically as a LumaStandard; distinct = sample index",
    );
    let mut rng = ctx.rng(mname, 0);
    for i in 0..ctx.n(200_000, 5_000_000) {
        let c = [rng.unit() as f32, rng.range(-0.1, 1.1) as f32, rng.unit() as f32];
        let u = [rng.below(256) as u8, rng.below(256) as u8, rng.below(256) as u8];
        // u8 encoded -> linear f32
        let s8 = palette::Srgb::<u8>::new(u[0], u[1], u[2]);
        let lin: LinSrgb<f32> = s8.into_linear();
        let want = [<Srgb as IntoLinear<f32, u8>>::into_linear(u[0]), <Srgb as IntoLinear<f32, u8>>::into_linear(u[1]), <Srgb as IntoLinear<f32, u8>>::into_linear(u[2])];
        m.eval();
        if [lin.red, lin.green, lin.blue] != want {
            m.violate("Srgb<u8>::into_linear", "wiring", json!({"u": u}), json!([lin.red, lin.green, lin.blue]), json!(want), "");
        }
        // linear f32 -> encoded u8
        let l = LinSrgb::new(c[0], c[1], c[2]);
        let e8: palette::Srgb<u8> = l.into_encoding();
        let e8b: palette::Srgb<u8> = palette::Srgb::<u8>::from_linear(l);
        let want8 = [<Srgb as FromLinear<f32, u8>>::from_linear(c[0]), <Srgb as FromLinear<f32, u8>>::from_linear(c[1]), <Srgb as FromLinear<f32, u8>>::from_linear(c[2])];
        m.eval();
        if [e8.red, e8.green, e8.blue] != want8 || e8b != e8 {
            m.violate("LinSrgb<f32>::into_encoding<u8>", "wiring", json!({"c": c}), json!([e8.red, e8.green, e8.blue]), json!(want8), "");
        }
        // float paths for several standards
        macro_rules! std_check {
            ($S:ty, $name:expr) => {{
                let e: Rgb<$S, f32> = Rgb::new(c[0], c[1], c[2]);
                let li = e.into_linear::<f32>();
                let w = [
                    <<$S as palette::rgb::RgbStandard>::TransferFn as IntoLinear<f32, f32>>::into_linear(c[0]),
                    <<$S as palette::rgb::RgbStandard>::TransferFn as IntoLinear<f32, f32>>::into_linear(c[1]),
                    <<$S as palette::rgb::RgbStandard>::TransferFn as IntoLinear<f32, f32>>::into_linear(c[2]),
                ];
                let back: Rgb<$S, f32> = Rgb::from_linear(li);
                let wb = [
                    <<$S as palette::rgb::RgbStandard>::TransferFn as FromLinear<f32, f32>>::from_linear(w[0]),
                    <<$S as palette::rgb::RgbStandard>::TransferFn as FromLinear<f32, f32>>::from_linear(w[1]),
                    <<$S as palette::rgb::RgbStandard>::TransferFn as FromLinear<f32, f32>>::from_linear(w[2]),
                ];
                m.evals(2);
                let same = |a: [f32; 3], b: [f32; 3]| a.iter().zip(b.iter()).all(|(x, y)| x.to_bits() == y.to_bits() || (x.is_nan() && y.is_nan()));
                if !same([li.red, li.green, li.blue], w) || !same([back.red, back.green, back.blue], wb) {
                    m.violate($name, "wiring_float", json!({"c": c}), json!({"lin": [li.red, li.green, li.blue], "back": [back.red, back.green, back.blue]}), json!({"lin": w, "back": wb}), "");
                }
            }};
        }
        // which curve a *standard* is associated with (RgbStandard and LumaStandard name their transfer function
        // separately): Rgb<S> against the model curve of the named standard, Luma<S> bit-identical to Rgb<S>
        macro_rules! assoc {
            ($S:ty, $name:expr, $tf:expr) => {{
                let e: Rgb<$S, f32> = Rgb::new(c[0], c[0], c[0]);
                let li = e.into_linear::<f32>();
                let lu: palette::luma::Luma<$S, f32> = palette::luma::Luma::new(c[0]);
                let ll = lu.into_linear::<f32>();
                let lback: palette::luma::Luma<$S, f32> = palette::luma::Luma::from_linear(ll);
                let rback: Rgb<$S, f32> = Rgb::from_linear(li);
                let want = $tf.decode_signed(c[0] as f64);
                m.evals(3);
                if !((li.red as f64 - want).abs() <= 4e-6 * (1.0 + want.abs())) {
                    m.violate($name, "rgb_standard_not_associated_with_its_curve", json!({"c": c[0]}), json!(li.red), json!(want), "");
                }
                if ll.luma.to_bits() != li.red.to_bits() || lback.luma.to_bits() != rback.red.to_bits() {
                    m.violate($name, "luma_standard_uses_a_different_curve_than_rgb_standard", json!({"c": c[0]}), json!({"luma_into_linear": ll.luma, "luma_back": lback.luma}), json!({"rgb_into_linear": li.red, "rgb_back": rback.red}), "");
                }
            }};
        }
        use pvmon::refmodel::transfer::Tf as MTf;
        assoc!(palette::encoding::Srgb, "assoc:Srgb", MTf::Srgb);
        assoc!(palette::encoding::AdobeRgb, "assoc:AdobeRgb", MTf::Adobe);
        assoc!(palette::encoding::Rec709, "assoc:Rec709", MTf::RecOetf);
        assoc!(palette::encoding::Rec2020, "assoc:Rec2020", MTf::RecOetf);
        assoc!(palette::encoding::DisplayP3, "assoc:DisplayP3", MTf::Srgb);
        assoc!(palette::encoding::DciP3, "assoc:DciP3", MTf::P3Gamma);
        assoc!(palette::encoding::ProPhotoRgb, "assoc:ProPhotoRgb", MTf::ProPhoto);
        std_check!(palette::encoding::Srgb, "Srgb");
        std_check!(palette::encoding::AdobeRgb, "AdobeRgb");
        std_check!(palette::encoding::Rec709, "Rec709");
        std_check!(palette::encoding::Rec2020, "Rec2020");
        std_check!(palette::encoding::DisplayP3, "DisplayP3");
        std_check!(palette::encoding::DciP3, "DciP3");
        std_check!(palette::encoding::ProPhotoRgb, "ProPhotoRgb");
        // luma
        let sl = SrgbLuma::<u8>::new(u[0]);
        let ll: LinLuma<palette::white_point::D65, f32> = sl.into_linear();
        let back: SrgbLuma<u8> = ll.into_encoding();
        m.evals(2);
        if ll.luma != want[0] || back.luma != u[0] {
            m.violate("SrgbLuma<u8>", "wiring_luma", json!({"u": u[0]}), json!({"lin": ll.luma, "back": back.luma}), json!({"lin": want[0], "back": u[0]}), "");
        }
        // alpha stays linear
        let sa = palette::Srgba::<u8>::new(u[0], u[1], u[2], u[0]);
        let la: palette::LinSrgba<f32> = sa.into_linear();
        m.eval();
        let want_a: f32 = palette::stimulus::IntoStimulus::into_stimulus(u[0]);
        if la.alpha != want_a || la.color != lin {
            m.violate("Srgba<u8>::into_linear", "wiring_alpha", json!({"u": u}), json!(la.alpha), json!(want_a), "");
        }
        if i < 20000 {
            m.cell(i);
        }
    }
    m.sample(|| {
        let l: LinSrgb<f32> = palette::Srgb::<u8>::new(0, 128, 255).into_linear();
        json!({"srgb_u8": [0, 128, 255], "linear": [l.red, l.green, l.blue]})
    });
    report.add(m);
}

/// Small-footprint driver for Miri / ASan: hostile floats and every bucket boundary.
fn lut_mem(ctx: &Ctx, report: &mut Report) {
    let mname = "lut_memory_safety";
    if !ctx.enabled(mname) {
        return;
    }
    let mut m = Monitor::new(
        mname,
        "hostile floats, every exponent and table-bucket boundary +-1 pattern through all five LUT encoders and all decode tables, executed under the UB interpreter / sanitizer; distinct = (encoder, pattern)",
    );
    let encs = encoders();
    let mut pats: Vec<u32> = hostile_f32().iter().map(|x| x.to_bits()).collect();
    let step = if ctx.is_miri() { 1 << 22 } else { 1 << 19 };
    let mut b = 0u32;
    while b < 0x4000_0000 {
        for d in [-1i64, 0, 1] {
            let p = b as i64 + d;
            if p >= 0 {
                pats.push(p as u32);
                pats.push(p as u32 | 0x8000_0000);
            }
        }
        b += step;
    }
    let mut rng = ctx.rng(mname, 0);
    for _ in 0..(if ctx.is_miri() { 200 } else { 200_000 }) {
        pats.push(rng.next_u32());
    }
    // shards split the pattern list
    let pats: Vec<u32> = pats.into_iter().enumerate().filter(|(i, _)| (*i as u64) % ctx.nshards == ctx.shard).map(|(_, p)| p).collect();
    for e in &encs {
        for &p in &pats {
            let x = f32::from_bits(p);
            let k = (e.enc32)(x);
            let k2 = (e.enc64)(x as f64);
            m.evals(2);
            if judge(e, x as f64, k).is_err() || k2 != k {
                m.violate(e.name, "mem_driver_value", json!({"bits": format!("{:#010x}", p)}), json!([k, k2]), json!("valid code"), "");
            }
            m.cell(pvmon::rng::mix(pvmon::rng::hash_str(e.name), p as u64));
        }
        let stepc = if ctx.is_miri() { if e.max > 255 { 257 * ctx.nshards as u32 } else { ctx.nshards as u32 } } else { 1 };
        let mut n = if ctx.is_miri() { ctx.shard as u32 } else { 0 };
        while n <= e.max {
            let a = (e.dec32)(n);
            let b = (e.dec64)(n);
            m.evals(2);
            if !(a >= 0.0 && a <= 1.0 && b >= 0.0 && b <= 1.0) {
                m.violate(e.name, "mem_driver_decode", json!({"code": n}), json!([a as f64, b]), json!("in [0,1]"), "");
            }
            n += stepc;
        }
    }
    m.sample(|| json!({"patterns": pats.len(), "first": format!("{:#010x}", pats[0]), "mode": ctx.mode}));
    report.add(m);
}

fn main() {
    let ctx = Ctx::from_args("C05");
    let mut report = Report::new(&ctx);
    if ctx.mode == "miri" || ctx.mode == "miri-tb" || ctx.mode == "asan" {
        lut_mem(&ctx, &mut report);
        report.finish();
    }
    pvmon::report::quiet_panics();
    lut_sweep(&ctx, &mut report);
    lut_codes(&ctx, &mut report);
    lut_f64_entry(&ctx, &mut report);
    float_curves(&ctx, &mut report);
    wiring(&ctx, &mut report);
    report.finish();
}
