//! C20 — serialized colours deserialize to the same colour in a stable shape.

use palette::blend::{PreAlpha, Premultiply};
use palette::cam16::{Cam16UcsJab, Cam16UcsJmh};
use palette::cast::{self, ArrayCast, Packed};
use palette::rgb::channels::{Abgr, Argb, Bgra, Rgba};
use palette::white_point::D65;
use palette::{encoding, Alpha, Hsl, Hsluv, Hsv, Hwb, Lab, Lch, Lchuv, Luv, Okhsl, Okhsv, Okhwb, Oklab, Oklch, Xyz, Yxy};
use pvmon::report::{Ctx, Monitor, Report};
use pvmon::{json, Rng};
use serde::de::DeserializeOwned;
use serde::{Deserialize, Serialize};
use serde_json::Value;

/// component scalar: bit pattern for exact comparison, seeded values
trait Comp: Copy + PartialEq + core::fmt::Debug + Serialize + DeserializeOwned + 'static {
    const NAME: &'static str;
    const IS_FLOAT: bool;
    fn bits(self) -> u128;
    fn gen(rng: &mut Rng, hue: bool) -> Self;
    fn opaque() -> Self;
    fn half() -> Self;
    fn as_json(self) -> Value;
}
macro_rules! comp_float {
    ($T:ident, $name:expr) => {
        impl Comp for $T {
            const NAME: &'static str = $name;
            const IS_FLOAT: bool = true;
            fn bits(self) -> u128 {
                self.to_bits() as u128
            }
            fn gen(rng: &mut Rng, hue: bool) -> $T {
                if hue {
                    return match rng.below(6) {
                        0 => 0.0,
                        1 => 360.0,
                        2 => -180.0,
                        3 => rng.range(-1000.0, 1000.0) as $T,
                        _ => rng.range(0.0, 360.0) as $T,
                    };
                }
                match rng.below(14) {
                    0 => 0.0,
                    1 => -0.0,
                    2 => 1.0,
                    3 => $T::MAX,
                    4 => $T::MIN,
                    5 => $T::MIN_POSITIVE,
                    6 => $T::EPSILON,
                    7 => -(rng.unit() as $T),
                    8 => (rng.unit() * 1e6) as $T,
                    9 => (rng.unit() * 1e-30) as $T,
                    10 => 0.1,
                    11 => $T::from_bits((rng.next_u64() as u128 & ((1u128 << (core::mem::size_of::<$T>() * 8 - 1)) - 1)) as _).min($T::MAX).max(0.0),
                    _ => rng.unit() as $T,
                }
            }
            fn opaque() -> $T {
                1.0
            }
            fn half() -> $T {
                0.5
            }
            fn as_json(self) -> Value {
                serde_json::to_value(self).unwrap()
            }
        }
    };
}
comp_float!(f32, "f32");
comp_float!(f64, "f64");
macro_rules! comp_uint {
    ($T:ident, $name:expr) => {
        impl Comp for $T {
            const NAME: &'static str = $name;
            const IS_FLOAT: bool = false;
            fn bits(self) -> u128 {
                self as u128
            }
            fn gen(rng: &mut Rng, _hue: bool) -> $T {
                match rng.below(5) {
                    0 => 0,
                    1 => $T::MAX,
                    2 => 1,
                    _ => rng.next_u64() as $T,
                }
            }
            fn opaque() -> $T {
                $T::MAX
            }
            fn half() -> $T {
                $T::MAX / 2 + 1
            }
            fn as_json(self) -> Value {
                serde_json::to_value(self).unwrap()
            }
        }
    };
}
comp_uint!(u8, "u8");
comp_uint!(u16, "u16");

/// (the array type is spelled out so that the helper's bounds can be stated on the array or on its item)
#[derive(Serialize, Deserialize)]
#[serde(bound(serialize = "T: Serialize, [T; N]: Serialize", deserialize = "T: DeserializeOwned, [T; N]: DeserializeOwned"))]
struct AsArray<C, T, const N: usize>
where
    C: ArrayCast<Array = [T; N]>,
{
    #[serde(with = "palette::serde::as_array")]
    c: C,
    #[serde(skip)]
    _t: core::marker::PhantomData<T>,
}
fn as_array<C: ArrayCast<Array = [T; N]>, T, const N: usize>(c: C) -> AsArray<C, T, N> {
    AsArray { c, _t: core::marker::PhantomData }
}

#[derive(Serialize, Deserialize)]
struct Flat<C> {
    name: String,
    #[serde(flatten)]
    color: C,
    count: u32,
}

#[derive(Deserialize)]
struct OptAlpha<C: DeserializeOwned, T: Comp + palette::stimulus::Stimulus> {
    #[serde(deserialize_with = "palette::serde::deserialize_with_optional_alpha")]
    c: Alpha<C, T>,
}

#[derive(Deserialize)]
struct OptPreAlpha<C>
where
    C: Premultiply + DeserializeOwned,
    C::Scalar: palette::stimulus::Stimulus + DeserializeOwned,
{
    #[serde(deserialize_with = "palette::serde::deserialize_with_optional_pre_alpha")]
    c: PreAlpha<C>,
}

/// A compact record format, in the manner of MessagePack / CBOR arrays: a struct is written as its declared number of
/// fields followed by exactly that many bare values - no field names, no end marker - and read back as a sequence of
/// exactly the written length. The serializer refuses a record whose number of fields differs from the declared one
/// (binary formats size their records by it; JSON and RON ignore it), the deserializer refuses unread trailing values.
mod rec {
    use serde::de::{self, DeserializeOwned, DeserializeSeed, SeqAccess, Visitor};
    use serde::ser::{self, Serialize};
    use std::fmt;

    #[derive(Clone, Debug, PartialEq)]
    pub enum Tok {
        U(u128, u8),
        F32(u32),
        F64(u64),
        Unit,
        Rec(usize),
    }
    impl Tok {
        pub fn bits(&self) -> Option<u128> {
            match self {
                Tok::U(v, _) => Some(*v),
                Tok::F32(b) => Some(*b as u128),
                Tok::F64(b) => Some(*b as u128),
                _ => None,
            }
        }
    }
    #[derive(Debug)]
    pub struct Error(pub String);
    impl fmt::Display for Error {
        fn fmt(&self, f: &mut fmt::Formatter) -> fmt::Result {
            f.write_str(&self.0)
        }
    }
    impl std::error::Error for Error {}
    impl ser::Error for Error {
        fn custom<T: fmt::Display>(m: T) -> Self {
            Error(m.to_string())
        }
    }
    impl de::Error for Error {
        fn custom<T: fmt::Display>(m: T) -> Self {
            Error(m.to_string())
        }
    }

    pub struct Ser<'a> {
        out: &'a mut Vec<Tok>,
    }
    pub struct Compound<'a> {
        out: &'a mut Vec<Tok>,
        declared: usize,
        written: usize,
    }
    impl<'a> Compound<'a> {
        fn field<T: ?Sized + Serialize>(&mut self, v: &T) -> Result<(), Error> {
            self.written += 1;
            v.serialize(Ser { out: &mut *self.out })
        }
        fn finish(self) -> Result<(), Error> {
            if self.written != self.declared {
                return Err(Error(format!("record declared with {} fields but {} were written", self.declared, self.written)));
            }
            Ok(())
        }
    }
    macro_rules! unsupported {
        ($($f:ident($($t:ty),*))*) => {$( fn $f(self $(, _: $t)*) -> Result<(), Error> { Err(Error(concat!(stringify!($f), " is not part of the compact record format").into())) } )*};
    }
    impl<'a> ser::Serializer for Ser<'a> {
        type Ok = ();
        type Error = Error;
        type SerializeSeq = Compound<'a>;
        type SerializeTuple = Compound<'a>;
        type SerializeTupleStruct = Compound<'a>;
        type SerializeTupleVariant = ser::Impossible<(), Error>;
        type SerializeMap = ser::Impossible<(), Error>;
        type SerializeStruct = Compound<'a>;
        type SerializeStructVariant = ser::Impossible<(), Error>;
        fn serialize_u8(self, v: u8) -> Result<(), Error> { self.out.push(Tok::U(v as u128, 8)); Ok(()) }
        fn serialize_u16(self, v: u16) -> Result<(), Error> { self.out.push(Tok::U(v as u128, 16)); Ok(()) }
        fn serialize_u32(self, v: u32) -> Result<(), Error> { self.out.push(Tok::U(v as u128, 32)); Ok(()) }
        fn serialize_u64(self, v: u64) -> Result<(), Error> { self.out.push(Tok::U(v as u128, 64)); Ok(()) }
        fn serialize_f32(self, v: f32) -> Result<(), Error> { self.out.push(Tok::F32(v.to_bits())); Ok(()) }
        fn serialize_f64(self, v: f64) -> Result<(), Error> { self.out.push(Tok::F64(v.to_bits())); Ok(()) }
        fn serialize_unit(self) -> Result<(), Error> { self.out.push(Tok::Unit); Ok(()) }
        fn serialize_unit_struct(self, _: &'static str) -> Result<(), Error> { self.out.push(Tok::Unit); Ok(()) }
        unsupported! { serialize_bool(bool) serialize_i8(i8) serialize_i16(i16) serialize_i32(i32) serialize_i64(i64) serialize_char(char) serialize_str(&str) serialize_bytes(&[u8]) serialize_none() serialize_unit_variant(&'static str, u32, &'static str) }
        fn serialize_some<T: ?Sized + Serialize>(self, _: &T) -> Result<(), Error> { Err(Error("option".into())) }
        fn serialize_newtype_struct<T: ?Sized + Serialize>(self, _: &'static str, v: &T) -> Result<(), Error> { v.serialize(self) }
        fn serialize_newtype_variant<T: ?Sized + Serialize>(self, _: &'static str, _: u32, _: &'static str, _: &T) -> Result<(), Error> { Err(Error("variant".into())) }
        fn serialize_seq(self, len: Option<usize>) -> Result<Compound<'a>, Error> {
            let n = len.ok_or_else(|| Error("a sequence needs its length up front".into()))?;
            self.out.push(Tok::Rec(n));
            Ok(Compound { out: self.out, declared: n, written: 0 })
        }
        fn serialize_tuple(self, n: usize) -> Result<Compound<'a>, Error> { self.serialize_seq(Some(n)) }
        fn serialize_tuple_struct(self, _: &'static str, n: usize) -> Result<Compound<'a>, Error> { self.serialize_seq(Some(n)) }
        fn serialize_tuple_variant(self, _: &'static str, _: u32, _: &'static str, _: usize) -> Result<Self::SerializeTupleVariant, Error> { Err(Error("variant".into())) }
        fn serialize_map(self, _: Option<usize>) -> Result<Self::SerializeMap, Error> { Err(Error("maps are not part of the compact record format".into())) }
        fn serialize_struct(self, _: &'static str, n: usize) -> Result<Compound<'a>, Error> { self.serialize_seq(Some(n)) }
        fn serialize_struct_variant(self, _: &'static str, _: u32, _: &'static str, _: usize) -> Result<Self::SerializeStructVariant, Error> { Err(Error("variant".into())) }
    }
    impl<'a> ser::SerializeSeq for Compound<'a> {
        type Ok = ();
        type Error = Error;
        fn serialize_element<T: ?Sized + Serialize>(&mut self, v: &T) -> Result<(), Error> { self.field(v) }
        fn end(self) -> Result<(), Error> { self.finish() }
    }
    impl<'a> ser::SerializeTuple for Compound<'a> {
        type Ok = ();
        type Error = Error;
        fn serialize_element<T: ?Sized + Serialize>(&mut self, v: &T) -> Result<(), Error> { self.field(v) }
        fn end(self) -> Result<(), Error> { self.finish() }
    }
    impl<'a> ser::SerializeTupleStruct for Compound<'a> {
        type Ok = ();
        type Error = Error;
        fn serialize_field<T: ?Sized + Serialize>(&mut self, v: &T) -> Result<(), Error> { self.field(v) }
        fn end(self) -> Result<(), Error> { self.finish() }
    }
    impl<'a> ser::SerializeStruct for Compound<'a> {
        type Ok = ();
        type Error = Error;
        fn serialize_field<T: ?Sized + Serialize>(&mut self, _: &'static str, v: &T) -> Result<(), Error> { self.field(v) }
        fn end(self) -> Result<(), Error> { self.finish() }
    }
    pub fn to_tokens<T: Serialize>(v: &T) -> Result<Vec<Tok>, Error> {
        let mut out = Vec::new();
        v.serialize(Ser { out: &mut out })?;
        Ok(out)
    }

    pub struct De<'t> {
        toks: &'t [Tok],
        pos: usize,
    }
    struct Seq<'d, 't> {
        de: &'d mut De<'t>,
        left: usize,
    }
    impl<'de, 'd, 't> SeqAccess<'de> for Seq<'d, 't> {
        type Error = Error;
        fn next_element_seed<S: DeserializeSeed<'de>>(&mut self, seed: S) -> Result<Option<S::Value>, Error> {
            if self.left == 0 {
                return Ok(None);
            }
            self.left -= 1;
            seed.deserialize(&mut *self.de).map(Some)
        }
        fn size_hint(&self) -> Option<usize> {
            Some(self.left)
        }
    }
    impl<'de, 'd, 't> de::Deserializer<'de> for &'d mut De<'t> {
        type Error = Error;
        fn deserialize_any<V: Visitor<'de>>(self, visitor: V) -> Result<V::Value, Error> {
            let t = self.toks.get(self.pos).cloned().ok_or_else(|| Error("unexpected end of the record".into()))?;
            self.pos += 1;
            match t {
                Tok::U(v, 8) => visitor.visit_u8(v as u8),
                Tok::U(v, 16) => visitor.visit_u16(v as u16),
                Tok::U(v, 32) => visitor.visit_u32(v as u32),
                Tok::U(v, _) => visitor.visit_u64(v as u64),
                Tok::F32(b) => visitor.visit_f32(f32::from_bits(b)),
                Tok::F64(b) => visitor.visit_f64(f64::from_bits(b)),
                Tok::Unit => visitor.visit_unit(),
                Tok::Rec(n) => {
                    let mut seq = Seq { de: &mut *self, left: n };
                    let v = visitor.visit_seq(&mut seq)?;
                    if seq.left != 0 {
                        return Err(Error(format!("{} values of the record were not read", seq.left)));
                    }
                    Ok(v)
                }
            }
        }
        fn deserialize_newtype_struct<V: Visitor<'de>>(self, _: &'static str, visitor: V) -> Result<V::Value, Error> {
            visitor.visit_newtype_struct(self)
        }
        serde::forward_to_deserialize_any! { bool i8 i16 i32 i64 i128 u8 u16 u32 u64 u128 f32 f64 char str string bytes byte_buf option unit unit_struct seq tuple tuple_struct map struct enum identifier ignored_any }
    }
    pub fn from_tokens<T: DeserializeOwned>(toks: &[Tok]) -> Result<T, Error> {
        let mut de = De { toks, pos: 0 };
        let v = T::deserialize(&mut de)?;
        if de.pos != toks.len() {
            return Err(Error(format!("{} trailing values", toks.len() - de.pos)));
        }
        Ok(v)
    }
}

fn bits_of<C: ArrayCast<Array = [T; N]> + Copy, T: Comp, const N: usize>(c: &C) -> Vec<u128> {
    let a: [T; N] = cast::into_array(*c);
    a.iter().map(|v| v.bits()).collect()
}

/// one colour value through every format and shape
#[allow(clippy::too_many_arguments)]
fn one<C, T, const N: usize>(m: &mut Monitor, inst: &str, c: C, fields: &[&str], hue_field: Option<&str>)
where
    T: Comp,
    C: ArrayCast<Array = [T; N]> + Copy + Serialize + DeserializeOwned + core::fmt::Debug,
    [T; N]: Serialize + DeserializeOwned,
{
    let want = bits_of::<C, T, N>(&c);
    let comps: [T; N] = cast::into_array(c);
    let inp = || json!({"components": comps.iter().map(|v| v.as_json()).collect::<Vec<_>>(), "bits": want.iter().map(|b| format!("{:#x}", b)).collect::<Vec<_>>()});
    let same = |d: &C| bits_of::<C, T, N>(d) == want;
    // ---- JSON, self-describing struct shape
    let text = serde_json::to_string(&c).unwrap();
    let v: Value = serde_json::from_str(&text).unwrap();
    m.evals(3);
    match &v {
        Value::Object(map) => {
            let keys: Vec<&str> = map.keys().map(|k| k.as_str()).collect();
            let mut exp: Vec<&str> = fields.to_vec();
            exp.sort();
            let mut got = keys.clone();
            got.sort();
            if got != exp {
                m.violate(inst, "json_shape:field_set", inp(), json!(text), json!(fields), "the colour's own fields (plus `alpha` at the same level), nothing else");
            }
            if map.values().any(|x| !x.is_number()) {
                m.violate(inst, "json_shape:non_numeric_field", inp(), json!(text), json!("every field a bare number (hues included, no metadata)"), "");
            }
            if let Some(h) = hue_field {
                if !map.get(h).map_or(false, |x| x.is_number()) {
                    m.violate(inst, "json_shape:hue_not_a_bare_number", inp(), json!(text), json!(h), "");
                }
            }
            // field values are the components, in cast order
            for (k, f) in fields.iter().enumerate() {
                if map.get(*f).and_then(|x| serde_json::from_value::<T>(x.clone()).ok()).map(|x| x.bits()) != Some(comps[k].bits()) {
                    m.violate(inst, "json_shape:field_value_differs_from_component", inp(), json!(text), json!({"field": f, "component_index": k}), "");
                    break;
                }
            }
        }
        _ => m.violate(inst, "json_shape:not_an_object", inp(), json!(text), json!("object"), ""),
    }
    match serde_json::from_str::<C>(&text) {
        Ok(d) if same(&d) => {}
        other => m.violate(inst, "json_round_trip", inp(), json!(format!("{:?}", other.map_err(|e| e.to_string()))), json!(format!("{:?}", c)), &text),
    }
    // ---- compact record form: declared field count = fields written, one flat record in cast order (alpha last), and
    // the same colour back from a sequence of exactly that length
    m.evals(2);
    match rec::to_tokens(&c) {
        Ok(toks) => {
            let flat = toks.first() == Some(&rec::Tok::Rec(N)) && toks.len() == N + 1 && toks[1..].iter().zip(want.iter()).all(|(t, w)| t.bits() == Some(*w));
            if !flat {
                m.violate(inst, "compact_record_shape", inp(), json!(format!("{:?}", toks)), json!({"record_of": N, "values": "the components in cast order, alpha last, at one level"}), "");
            }
            match rec::from_tokens::<C>(&toks) {
                Ok(d) if same(&d) => {}
                other => m.violate(inst, "compact_record_round_trip", inp(), json!(format!("{:?}", other.map_err(|e| e.to_string()))), json!(format!("{:?}", c)), &format!("{:?}", toks)),
            }
        }
        Err(e) => m.violate(inst, "compact_record_not_serializable", inp(), json!(e.to_string()), json!("a record of the colour's fields"), ""),
    }
    // fields in another order (alpha first, reversed)
    if let Value::Object(map) = &v {
        let mut rev = String::from("{");
        for (k, (key, val)) in map.iter().rev().enumerate() {
            if k > 0 {
                rev.push(',');
            }
            rev.push_str(&format!("{:?}:{}", key, val));
        }
        rev.push('}');
        match serde_json::from_str::<C>(&rev) {
            Ok(d) if same(&d) => {}
            other => m.violate(inst, "json_round_trip_reordered_fields", inp(), json!(format!("{:?}", other.map_err(|e| e.to_string()))), json!(format!("{:?}", c)), &rev),
        }
    }
    // via serde_json::Value (a different Deserializer: map access with owned keys)
    match serde_json::from_value::<C>(v.clone()) {
        Ok(d) if same(&d) => {}
        other => m.violate(inst, "json_value_round_trip", inp(), json!(format!("{:?}", other.map_err(|e| e.to_string()))), json!(format!("{:?}", c)), ""),
    }
    // ---- compact sequence form: as_array helper and the type's own Deserialize from a sequence
    m.evals(3);
    let arr_text = serde_json::to_string(&as_array::<C, T, N>(c)).unwrap();
    let comp_texts: Vec<String> = comps.iter().map(|x| serde_json::to_string(x).unwrap()).collect();
    let exp_arr = format!("{{\"c\":[{}]}}", comp_texts.join(","));
    if arr_text != exp_arr {
        m.violate(inst, "as_array_shape", inp(), json!(arr_text), json!(exp_arr), "the array the cast functions give");
    }
    match serde_json::from_str::<AsArray<C, T, N>>(&arr_text) {
        Ok(d) if same(&d.c) => {}
        other => m.violate(inst, "as_array_round_trip", inp(), json!(format!("{:?}", other.map(|d| d.c).map_err(|e| e.to_string()))), json!(format!("{:?}", c)), &arr_text),
    }
    // the same helper through RON, which tells fixed-size tuples from sequences
    m.eval();
    match ron::to_string(&as_array::<C, T, N>(c)) {
        Ok(text) => match ron::from_str::<AsArray<C, T, N>>(&text) {
            Ok(d) if same(&d.c) => {}
            other => m.violate(inst, "as_array_ron_round_trip", inp(), json!(format!("{:?}", other.map(|d| d.c).map_err(|e| e.to_string()))), json!(format!("{:?}", c)), &text),
        },
        Err(e) => m.violate(inst, "ron_serialize_error", inp(), json!(e.to_string()), json!("ok"), ""),
    }
    let seq = format!("[{}]", comp_texts.join(","));
    match serde_json::from_str::<C>(&seq) {
        Ok(d) if same(&d) => {}
        other => m.violate(inst, "json_sequence_form", inp(), json!(format!("{:?}", other.map_err(|e| e.to_string()))), json!(format!("{:?}", c)), &seq),
    }
    // ---- inside tuples and vectors
    m.eval();
    let tup = serde_json::to_string(&(c, vec![c, c])).unwrap();
    match serde_json::from_str::<(C, Vec<C>)>(&tup) {
        Ok((a, b)) if same(&a) && b.len() == 2 && same(&b[0]) && same(&b[1]) => {}
        other => m.violate(inst, "json_tuple_and_vec", inp(), json!(format!("{:?}", other.map_err(|e| e.to_string()))), json!(format!("{:?}", c)), &tup),
    }
    // ---- flattened into a user struct
    m.eval();
    let flat = Flat { name: "x".to_string(), color: c, count: 7 };
    match serde_json::to_string(&flat) {
        Ok(text) => {
            let fv: Value = serde_json::from_str(&text).unwrap();
            let keys_ok = fv.as_object().map_or(false, |o| {
                let mut exp: Vec<&str> = fields.to_vec();
                exp.extend(["name", "count"]);
                exp.sort();
                let mut got: Vec<&str> = o.keys().map(|k| k.as_str()).collect();
                got.sort();
                got == exp
            });
            if !keys_ok {
                m.violate(inst, "flatten_shape", inp(), json!(text), json!(fields), "colour fields at the level of the surrounding struct");
            }
            match serde_json::from_str::<Flat<C>>(&text) {
                Ok(d) if same(&d.color) && d.name == "x" && d.count == 7 => {}
                other => {
                    let msg = format!("{:?}", other.map(|d| d.color).map_err(|e| e.to_string()));
                    // recorded finding: serde's flatten only offers the inner struct's own field names, so the wrapper never sees `alpha`
                    let class = if fields.contains(&"alpha") && msg.contains("missing field `alpha`") { "flatten_round_trip:alpha_not_offered_through_serde_flatten" } else { "flatten_round_trip" };
                    m.violate(inst, class, inp(), json!(msg), json!(format!("{:?}", c)), &text)
                }
            }
        }
        Err(e) => m.violate(inst, "flatten_serialize_error", inp(), json!(e.to_string()), json!("ok"), ""),
    }
    // ---- RON: struct shape, and inside a tuple
    m.evals(2);
    match ron::to_string(&c) {
        Ok(text) => {
            // field names appear as `name:` and no type-level metadata does
            let names_ok = fields.iter().all(|f| text.contains(&format!("{}:", f))) && !text.contains("standard") && !text.contains("white_point") && !text.contains("meta");
            if !names_ok {
                m.violate(inst, "ron_shape", inp(), json!(text), json!(fields), "");
            }
            match ron::from_str::<C>(&text) {
                Ok(d) if same(&d) => {}
                other => m.violate(inst, "ron_round_trip", inp(), json!(format!("{:?}", other.map_err(|e| e.to_string()))), json!(format!("{:?}", c)), &text),
            }
            // fields reordered
            if let Some(body) = text.strip_prefix('(').and_then(|t| t.strip_suffix(')')) {
                let parts: Vec<&str> = body.split(',').filter(|p| !p.is_empty()).collect();
                let rev = format!("({})", parts.iter().rev().cloned().collect::<Vec<_>>().join(","));
                match ron::from_str::<C>(&rev) {
                    Ok(d) if same(&d) => {}
                    other => m.violate(inst, "ron_round_trip_reordered_fields", inp(), json!(format!("{:?}", other.map_err(|e| e.to_string()))), json!(format!("{:?}", c)), &rev),
                }
            }
        }
        Err(e) => m.violate(inst, "ron_serialize_error", inp(), json!(e.to_string()), json!("ok"), ""),
    }
    match ron::to_string(&(c, [c, c])) {
        Ok(text) => match ron::from_str::<(C, [C; 2])>(&text) {
            Ok((a, b)) if same(&a) && same(&b[0]) && same(&b[1]) => {}
            other => m.violate(inst, "ron_tuple", inp(), json!(format!("{:?}", other.map_err(|e| e.to_string()))), json!(format!("{:?}", c)), &text),
        },
        Err(e) => m.violate(inst, "ron_serialize_error", inp(), json!(e.to_string()), json!("ok"), ""),
    }
}

/// opaque colour + its Alpha and (optionally) PreAlpha forms, and the optional-alpha helpers
#[allow(clippy::too_many_arguments)]
fn family<C, T>(ctx: &Ctx, m: &mut Monitor, h: &mut Monitor, name: &str, fields: [&str; 3], hue_index: Option<usize>)
where
    T: Comp + palette::stimulus::Stimulus + for<'a> serde::de::IntoDeserializer<'a, serde::de::value::Error>,
    C: ArrayCast<Array = [T; 3]> + Copy + Serialize + DeserializeOwned + core::fmt::Debug,
    Alpha<C, T>: ArrayCast<Array = [T; 4]> + Copy + Serialize + DeserializeOwned + core::fmt::Debug,
{
    let inst = format!("{}/{}", name, T::NAME);
    let mut rng = ctx.rng(&inst, 0);
    let hue_field = hue_index.map(|k| fields[k]);
    let fa = [fields[0], fields[1], fields[2], "alpha"];
    for it in 0..ctx.n(60, 10_000) {
        let comps: [T; 3] = core::array::from_fn(|k| T::gen(&mut rng, Some(k) == hue_index));
        let alpha = match it % 4 {
            0 => T::opaque(),
            _ => T::gen(&mut rng, false),
        };
        let c: C = cast::from_array(comps);
        one::<C, T, 3>(m, &inst, c, &fields, hue_field);
        let ca: Alpha<C, T> = Alpha { color: c, alpha };
        one::<Alpha<C, T>, T, 4>(m, &format!("Alpha<{}>/{}", name, T::NAME), ca, &fa, hue_field);
        // ---- optional alpha helper: without alpha -> opaque; with alpha -> that alpha; struct and sequence shapes
        h.evals(4);
        let inp = || json!({"components": comps.iter().map(|v| v.as_json()).collect::<Vec<_>>(), "alpha": alpha.as_json()});
        let opaque_text = format!("{{\"c\":{}}}", serde_json::to_string(&c).unwrap());
        match serde_json::from_str::<OptAlpha<C, T>>(&opaque_text) {
            Ok(d) if bits_of::<C, T, 3>(&d.c.color) == bits_of::<C, T, 3>(&c) && d.c.alpha.bits() == T::opaque().bits() => {}
            other => h.violate(&inst, "optional_alpha:missing_alpha_is_not_full_opacity", inp(), json!(format!("{:?}", other.map(|d| d.c).map_err(|e| e.to_string()))), json!("the colour with alpha = max intensity"), &opaque_text),
        }
        let with_text = format!("{{\"c\":{}}}", serde_json::to_string(&ca).unwrap());
        match serde_json::from_str::<OptAlpha<C, T>>(&with_text) {
            Ok(d) if bits_of::<C, T, 3>(&d.c.color) == bits_of::<C, T, 3>(&c) && d.c.alpha.bits() == alpha.bits() => {}
            other => h.violate(&inst, "optional_alpha:present_alpha_not_kept", inp(), json!(format!("{:?}", other.map(|d| d.c).map_err(|e| e.to_string()))), json!(format!("{:?}", ca)), &with_text),
        }
        // sequence shapes: three elements -> opaque, four -> with alpha
        let ctexts: Vec<String> = comps.iter().map(|x| serde_json::to_string(x).unwrap()).collect();
        let seq3 = format!("{{\"c\":[{}]}}", ctexts.join(","));
        match serde_json::from_str::<OptAlpha<C, T>>(&seq3) {
            Ok(d) if bits_of::<C, T, 3>(&d.c.color) == bits_of::<C, T, 3>(&c) && d.c.alpha.bits() == T::opaque().bits() => {}
            other => h.violate(&inst, "optional_alpha:sequence_without_alpha", inp(), json!(format!("{:?}", other.map(|d| d.c).map_err(|e| e.to_string()))), json!("opaque"), &seq3),
        }
        let seq4 = format!("{{\"c\":[{},{}]}}", ctexts.join(","), serde_json::to_string(&alpha).unwrap());
        match serde_json::from_str::<OptAlpha<C, T>>(&seq4) {
            Ok(d) if bits_of::<C, T, 3>(&d.c.color) == bits_of::<C, T, 3>(&c) && d.c.alpha.bits() == alpha.bits() => {}
            other => h.violate(&inst, "optional_alpha:sequence_with_alpha", inp(), json!(format!("{:?}", other.map(|d| d.c).map_err(|e| e.to_string()))), json!(format!("{:?}", ca)), &seq4),
        }
        // the same helper fed from RON and from the compact record format (formats in which an option, a unit or a number
        // are different things): what Alpha / the bare colour serialize to must be accepted
        {
            h.evals(4);
            let ok_with = |d: &OptAlpha<C, T>| bits_of::<C, T, 3>(&d.c.color) == bits_of::<C, T, 3>(&c) && d.c.alpha.bits() == alpha.bits();
            let ok_opaque = |d: &OptAlpha<C, T>| bits_of::<C, T, 3>(&d.c.color) == bits_of::<C, T, 3>(&c) && d.c.alpha.bits() == T::opaque().bits();
            let ron_with = format!("(c:{})", ron::to_string(&ca).unwrap());
            match ron::from_str::<OptAlpha<C, T>>(&ron_with) {
                Ok(d) if ok_with(&d) => {}
                other => h.violate(&inst, "optional_alpha:ron_present_alpha_not_kept", inp(), json!(format!("{:?}", other.map(|d| d.c).map_err(|e| e.to_string()))), json!(format!("{:?}", ca)), &ron_with),
            }
            let ron_opaque = format!("(c:{})", ron::to_string(&c).unwrap());
            match ron::from_str::<OptAlpha<C, T>>(&ron_opaque) {
                Ok(d) if ok_opaque(&d) => {}
                other => h.violate(&inst, "optional_alpha:ron_missing_alpha_is_not_full_opacity", inp(), json!(format!("{:?}", other.map(|d| d.c).map_err(|e| e.to_string()))), json!("opaque"), &ron_opaque),
            }
            let mut toks = vec![rec::Tok::Rec(1)];
            toks.extend(rec::to_tokens(&ca).unwrap_or_default());
            match rec::from_tokens::<OptAlpha<C, T>>(&toks) {
                Ok(d) if ok_with(&d) => {}
                other => h.violate(&inst, "optional_alpha:compact_record_present_alpha_not_kept", inp(), json!(format!("{:?}", other.map(|d| d.c).map_err(|e| e.to_string()))), json!(format!("{:?}", ca)), &format!("{:?}", toks)),
            }
            let mut toks = vec![rec::Tok::Rec(1)];
            toks.extend(rec::to_tokens(&c).unwrap_or_default());
            match rec::from_tokens::<OptAlpha<C, T>>(&toks) {
                Ok(d) if ok_opaque(&d) => {}
                other => h.violate(&inst, "optional_alpha:compact_record_missing_alpha_is_not_full_opacity", inp(), json!(format!("{:?}", other.map(|d| d.c).map_err(|e| e.to_string()))), json!("opaque"), &format!("{:?}", toks)),
            }
            // a map whose keys arrive as byte strings (formats that hand field names over as bytes)
            let names: Vec<&[u8]> = fields.iter().map(|f| f.as_bytes()).chain(std::iter::once(&b"alpha"[..])).collect();
            let vals: Vec<T> = comps.iter().copied().chain(std::iter::once(alpha)).collect();
            let entries: Vec<(serde::de::value::BytesDeserializer<serde::de::value::Error>, T)> = names.iter().zip(vals.iter()).map(|(k, v)| (serde::de::value::BytesDeserializer::new(k), *v)).collect();
            let md = serde::de::value::MapDeserializer::<_, serde::de::value::Error>::new(entries.into_iter());
            // (serde's primitive value deserializers do not look through newtype structs, so a hue cannot be fed from them:
            // types with a hue are left out of this one shape)
            if hue_index.is_none() {
                h.eval();
                match <Alpha<C, T> as Deserialize>::deserialize(md) {
                    Ok(d) if bits_of::<C, T, 3>(&d.color) == bits_of::<C, T, 3>(&c) && d.alpha.bits() == alpha.bits() => {}
                    other => h.violate(&inst, "map_with_byte_string_keys", inp(), json!(format!("{:?}", other.map_err(|e| e.to_string()))), json!(format!("{:?}", ca)), ""),
                }
            }
        }
        // plain Deserialize of a transparent type needs the alpha
        if serde_json::from_str::<Alpha<C, T>>(&serde_json::to_string(&c).unwrap()).is_ok() {
            h.count("plain_alpha_deserialize_accepts_missing_alpha");
        }
        m.cell_s(&format!("{}{}", inst, it % 8));
        h.cell_s(&format!("{}{}", inst, it % 4));
    }
}

/// PreAlpha forms and the optional pre-alpha helper (Premultiply types)
fn pre_family<C, T>(ctx: &Ctx, m: &mut Monitor, h: &mut Monitor, name: &str, fields: [&str; 3])
where
    T: Comp + palette::stimulus::Stimulus,
    C: ArrayCast<Array = [T; 3]> + Copy + Serialize + DeserializeOwned + core::fmt::Debug + Premultiply<Scalar = T>,
    PreAlpha<C>: ArrayCast<Array = [T; 4]> + Copy + Serialize + DeserializeOwned + core::fmt::Debug,
{
    let inst = format!("PreAlpha<{}>/{}", name, T::NAME);
    let mut rng = ctx.rng(&inst, 0);
    let fa = [fields[0], fields[1], fields[2], "alpha"];
    for it in 0..ctx.n(60, 10_000) {
        let comps: [T; 3] = core::array::from_fn(|_| T::gen(&mut rng, false));
        let alpha = match it % 4 {
            0 => T::opaque(),
            1 => T::half(),
            _ => T::gen(&mut rng, false),
        };
        let c: C = cast::from_array(comps);
        let pa: PreAlpha<C> = PreAlpha { color: c, alpha };
        one::<PreAlpha<C>, T, 4>(m, &inst, pa, &fa, None);
        h.evals(2);
        let inp = || json!({"components": comps.iter().map(|v| v.as_json()).collect::<Vec<_>>(), "alpha": alpha.as_json()});
        let with_text = format!("{{\"c\":{}}}", serde_json::to_string(&pa).unwrap());
        match serde_json::from_str::<OptPreAlpha<C>>(&with_text) {
            Ok(d) if bits_of::<C, T, 3>(&d.c.color) == bits_of::<C, T, 3>(&c) && d.c.alpha.bits() == alpha.bits() => {}
            other => h.violate(&inst, "optional_pre_alpha:present_alpha_changes_the_colour", inp(), json!(format!("{:?}", other.map(|d| d.c).map_err(|e| e.to_string()))), json!(format!("{:?}", pa)), &with_text),
        }
        let opaque_text = format!("{{\"c\":{}}}", serde_json::to_string(&c).unwrap());
        match serde_json::from_str::<OptPreAlpha<C>>(&opaque_text) {
            Ok(d) if bits_of::<C, T, 3>(&d.c.color) == bits_of::<C, T, 3>(&c) && d.c.alpha.bits() == T::opaque().bits() => {}
            other => h.violate(&inst, "optional_pre_alpha:missing_alpha_is_not_full_opacity", inp(), json!(format!("{:?}", other.map(|d| d.c).map_err(|e| e.to_string()))), json!("opaque"), &opaque_text),
        }
        h.cell_s(&format!("{}{}", inst, it % 4));
    }
}

#[derive(Serialize, Deserialize)]
struct AsUint<C: palette::cast::UintCast>
where
    C::Uint: Serialize + DeserializeOwned,
{
    #[serde(with = "palette::serde::as_uint")]
    c: C,
}

fn uint_helpers(ctx: &Ctx, h: &mut Monitor) {
    let mut rng = ctx.rng("as_uint", 0);
    macro_rules! packed {
        ($O:ty, $name:expr) => {{
            for _ in 0..ctx.n(200, 20_000) {
                let v = match rng.below(4) {
                    0 => 0u32,
                    1 => u32::MAX,
                    _ => rng.next_u32(),
                };
                let p: Packed<$O, u32> = Packed::from(v);
                let text = serde_json::to_string(&AsUint { c: p }).unwrap();
                h.eval();
                let want = format!("{{\"c\":{}}}", cast::into_uint::<Packed<$O, u32>>(p));
                let back = serde_json::from_str::<AsUint<Packed<$O, u32>>>(&text).map(|d| d.c.color);
                if text != want || back.as_ref().ok() != Some(&v) {
                    h.violate(concat!("Packed<", $name, ",u32>"), "as_uint", json!({"value": v}), json!({"text": text, "back": format!("{:?}", back.map_err(|e| e.to_string()))}), json!(want), "");
                }
                // and the colour it unpacks to survives an as_array trip
                let rgba: palette::Srgba<u8> = p.into();
                let t2 = serde_json::to_string(&as_array::<palette::Srgba<u8>, u8, 4>(rgba)).unwrap();
                let b2 = serde_json::from_str::<AsArray<palette::Srgba<u8>, u8, 4>>(&t2).map(|d| d.c);
                if b2.as_ref().ok() != Some(&rgba) || t2 != format!("{{\"c\":[{},{},{},{}]}}", rgba.red, rgba.green, rgba.blue, rgba.alpha) {
                    h.violate(concat!("Packed<", $name, ",u32>"), "as_array_of_unpacked", json!({"value": v}), json!(t2), json!(format!("{:?}", rgba)), "");
                }
            }
            h.cell_s($name);
        }};
    }
    packed!(Rgba, "Rgba");
    packed!(Argb, "Argb");
    packed!(Bgra, "Bgra");
    packed!(Abgr, "Abgr");
    for v in 0..=255u8 {
        let l: palette::SrgbLuma<u8> = palette::SrgbLuma::new(v);
        let text = serde_json::to_string(&AsUint { c: l }).unwrap();
        h.eval();
        let back = serde_json::from_str::<AsUint<palette::SrgbLuma<u8>>>(&text).map(|d| d.c.luma);
        if text != format!("{{\"c\":{}}}", v) || back.as_ref().ok() != Some(&v) {
            h.violate("Luma<u8>", "as_uint", json!({"value": v}), json!(text), json!(v), "");
        }
    }
    h.cell_s("luma");
}

fn main() {
    let ctx = Ctx::from_args("C20");
    let mut report = Report::new(&ctx);
    let n1 = "serde_round_trip_and_shape";
    let n2 = "serde_helpers";
    if !(ctx.enabled(n1) || ctx.enabled(n2)) || ctx.replaying() {
        report.finish();
    }
    let mut m = Monitor::new(
        n1,
        "every serializable colour type (Rgb in two standards, Luma, Hsl, Hsv, Hwb, Xyz, Yxy, Lab, Lch, Luv, Lchuv, Hsluv, Oklab, Oklch, Okhsl, Okhsv, Okhwb, Lms with two cone matrices, CAM16-UCS Jab / Jmh (the full and partial CAM16 types are not serializable); f32, f64, and u8/u16 for Rgb) in opaque, Alpha and PreAlpha form, seeded components incl. -0.0, MIN, MAX, MIN_POSITIVE, subnormal-scale and arbitrary bit patterns, any hue: JSON text is an object whose key set is exactly the colour's own fields (+ `alpha` at the same level), every value a bare number equal to the component (hue included, no standard / white point metadata); from_str, from_str with the fields reversed, serde_json::Value, the as_array helper (JSON text equals the cast array; RON round trip), the type's own Deserialize from a JSON sequence, tuples / Vec, #[serde(flatten)] inside a user struct, RON text (struct, reversed fields, tuple) all give back the bit-identical colour; distinct = (type, float, shape, value class)",
    );
    let mut h = Monitor::new(
        n2,
        "deserialize_with_optional_alpha / _pre_alpha: data without alpha -> the same colour at full opacity (1.0 / integer MAX), data with alpha -> that alpha and the unchanged (already premultiplied) colour, in struct and in 3- / 4-element sequence shape; as_uint on Packed<_, u32> in four channel orders and Luma<u8> writes and reads the integer the cast functions give; distinct = (type, float, helper, alpha class)",
    );
    macro_rules! fam {
        ($name:expr, $C:ident<$($p:ty),*>, [$a:expr, $b:expr, $c:expr], $hue:expr) => {
            family::<$C<$($p,)* f32>, f32>(&ctx, &mut m, &mut h, $name, [$a, $b, $c], $hue);
            family::<$C<$($p,)* f64>, f64>(&ctx, &mut m, &mut h, $name, [$a, $b, $c], $hue);
        };
    }
    type RgbS<T> = palette::rgb::Rgb<encoding::Srgb, T>;
    type RgbL<T> = palette::rgb::Rgb<encoding::Linear<encoding::Rec2020>, T>;
    type RgbA<T> = palette::rgb::Rgb<encoding::AdobeRgb, T>;
    type RgbP<T> = palette::rgb::Rgb<encoding::DciP3, T>;
    fam!("Srgb", RgbS<>, ["red", "green", "blue"], None);
    fam!("LinRec2020", RgbL<>, ["red", "green", "blue"], None);
    fam!("AdobeRgb", RgbA<>, ["red", "green", "blue"], None);
    family::<RgbS<u8>, u8>(&ctx, &mut m, &mut h, "Srgb", ["red", "green", "blue"], None);
    family::<RgbS<u16>, u16>(&ctx, &mut m, &mut h, "Srgb", ["red", "green", "blue"], None);
    fam!("Hsl", Hsl<encoding::Srgb>, ["hue", "saturation", "lightness"], Some(0));
    fam!("Hsv", Hsv<encoding::Srgb>, ["hue", "saturation", "value"], Some(0));
    fam!("Hwb", Hwb<encoding::Srgb>, ["hue", "whiteness", "blackness"], Some(0));
    fam!("Xyz", Xyz<D65>, ["x", "y", "z"], None);
    fam!("Xyz<D50>", Xyz<palette::white_point::D50>, ["x", "y", "z"], None);
    fam!("Yxy", Yxy<D65>, ["x", "y", "luma"], None);
    fam!("Lab", Lab<D65>, ["l", "a", "b"], None);
    fam!("Lch", Lch<D65>, ["l", "chroma", "hue"], Some(2));
    fam!("Luv", Luv<D65>, ["l", "u", "v"], None);
    fam!("Lchuv", Lchuv<D65>, ["l", "chroma", "hue"], Some(2));
    fam!("Hsluv", Hsluv<D65>, ["hue", "saturation", "l"], Some(0));
    fam!("Oklab", Oklab<>, ["l", "a", "b"], None);
    fam!("Oklch", Oklch<>, ["l", "chroma", "hue"], Some(2));
    fam!("Okhsl", Okhsl<>, ["hue", "saturation", "lightness"], Some(0));
    fam!("Okhsv", Okhsv<>, ["hue", "saturation", "value"], Some(0));
    fam!("Okhwb", Okhwb<>, ["hue", "whiteness", "blackness"], Some(0));
    fam!("Cam16UcsJab", Cam16UcsJab<>, ["lightness", "a", "b"], None);
    fam!("Cam16UcsJmh", Cam16UcsJmh<>, ["lightness", "colorfulness", "hue"], Some(2));
    {
        use palette::lms::{BradfordLms, VonKriesLms};
        fam!("Lms<VonKries,D65>", VonKriesLms<D65>, ["long", "medium", "short"], None);
        fam!("Lms<Bradford,D50>", BradfordLms<palette::white_point::D50>, ["long", "medium", "short"], None);
        pre_family::<VonKriesLms<D65, f32>, f32>(&ctx, &mut m, &mut h, "Lms<VonKries,D65>", ["long", "medium", "short"]);
    }
    fam!("DciP3", RgbP<>, ["red", "green", "blue"], None);
    fam!("Luv<D50>", Luv<palette::white_point::D50>, ["l", "u", "v"], None);
    // premultiplied forms
    pre_family::<RgbS<f32>, f32>(&ctx, &mut m, &mut h, "Srgb", ["red", "green", "blue"]);
    pre_family::<RgbS<f64>, f64>(&ctx, &mut m, &mut h, "Srgb", ["red", "green", "blue"]);
    pre_family::<RgbL<f32>, f32>(&ctx, &mut m, &mut h, "LinRec2020", ["red", "green", "blue"]);
    pre_family::<Xyz<D65, f64>, f64>(&ctx, &mut m, &mut h, "Xyz", ["x", "y", "z"]);
    pre_family::<Lab<D65, f32>, f32>(&ctx, &mut m, &mut h, "Lab", ["l", "a", "b"]);
    pre_family::<Oklab<f64>, f64>(&ctx, &mut m, &mut h, "Oklab", ["l", "a", "b"]);
    pre_family::<Yxy<D65, f32>, f32>(&ctx, &mut m, &mut h, "Yxy", ["x", "y", "luma"]);
    // Luma (one field)
    {
        let mut rng = ctx.rng("cam16", 0);
        for _ in 0..ctx.n(60, 10_000) {
            let l: palette::SrgbLuma<f32> = palette::SrgbLuma::new(f32::gen(&mut rng, false));
            one::<palette::SrgbLuma<f32>, f32, 1>(&mut m, "Luma/f32", l, &["luma"], None);
            let la: palette::SrgbLumaa<f32> = palette::SrgbLumaa::new(f32::gen(&mut rng, false), f32::gen(&mut rng, false));
            one::<palette::SrgbLumaa<f32>, f32, 2>(&mut m, "Alpha<Luma>/f32", la, &["luma", "alpha"], None);
            let lu: palette::SrgbLuma<u8> = palette::SrgbLuma::new(u8::gen(&mut rng, false));
            one::<palette::SrgbLuma<u8>, u8, 1>(&mut m, "Luma/u8", lu, &["luma"], None);
        }
        m.cell_s("cam16luma");
    }
    uint_helpers(&ctx, &mut h);
    m.tolerance = Some("bit-exact (serde_json with float_roundtrip, RON 0.8)".into());
    m.sample(|| json!({"Srgba<f32>": serde_json::to_string(&palette::Srgba::new(0.3f32, 0.8, 0.1, 0.5)).unwrap(), "Hsl<f32> RON": ron::to_string(&palette::Hsl::<encoding::Srgb, f32>::new(120.0, 0.5, 0.25)).unwrap()}));
    report.add(m);
    report.add(h);
    report.finish();
}
