//! type tables
