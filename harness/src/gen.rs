//! Workload generators shared by the behavioural monitors.

use crate::refmodel::space::{Space, V3};
use crate::rng::Rng;

pub const T_REL: f64 = 1e-9; // "one billionth of the range"

/// boundary lattice of one component
pub fn comp_lattice(lo: f64, hi: f64, hue: bool) -> Vec<f64> {
    if hue {
        return vec![0.0, 60.0, 120.0, 180.0, 240.0, 300.0, 360.0, -180.0, -60.0, 30.0, 90.0, 359.999999, 59.9999999, 60.0000001, 299.9999, 0.0000001, 720.0, 45.0];
    }
    if hi == lo {
        return vec![lo];
    }
    let t = T_REL * (hi - lo);
    // t itself can round below the billionth in f32: 2t and 64t stay inside the precondition after rounding
    let mut v = vec![lo, hi, lo + t, hi - t, lo + 2.0 * t, hi - 2.0 * t, lo + 64.0 * t, (lo + hi) / 2.0, lo + 0.25 * (hi - lo)];
    if lo < 0.0 && hi > 0.0 {
        v.extend([0.0, t, -t]);
    }
    v
}

/// Full cross product of the per-component lattices (with the w + b <= 1 constraint of the HWB spaces).
pub fn lattice(space: Space) -> Vec<V3> {
    let r = space.ranges();
    let hi = space.hue_index();
    let c: Vec<Vec<f64>> = (0..3).map(|i| comp_lattice(r[i].0, r[i].1, hi == Some(i))).collect();
    let mut out = Vec::new();
    for &a in &c[0] {
        for &b in &c[1] {
            for &d in &c[2] {
                let v = [a, b, d];
                if matches!(space, Space::Hwb(_) | Space::Okhwb) && v[1] + v[2] > 1.0 {
                    continue;
                }
                out.push(v);
            }
        }
    }
    out
}

/// seeded point inside the nominal range; each component exactly on a bound / zero with some
/// probability, otherwise at least T_REL of the range away from the bounds.
pub fn fill(space: Space, rng: &mut Rng) -> V3 {
    let r = space.ranges();
    let hi = space.hue_index();
    loop {
        let mut v = [0.0; 3];
        for i in 0..3 {
            let (lo, hi_) = r[i];
            if hi == Some(i) {
                v[i] = match rng.below(8) {
                    0 => *rng.pick(&[0.0, 60.0, 120.0, 180.0, 240.0, 300.0, 360.0]),
                    1 => rng.range(-360.0, 720.0),
                    _ => rng.range(0.0, 360.0),
                };
                continue;
            }
            if hi_ == lo {
                v[i] = lo;
                continue;
            }
            let t = T_REL * (hi_ - lo);
            v[i] = match rng.below(10) {
                0 => lo,
                1 => hi_,
                2 if lo < 0.0 && hi_ > 0.0 => 0.0,
                3 => lo + t * (1.0 + rng.unit() * 1e3),
                4 => hi_ - t * (1.0 + rng.unit() * 1e3),
                _ => rng.range(lo + t, hi_ - t),
            };
        }
        if matches!(space, Space::Hwb(_) | Space::Okhwb) && v[1] + v[2] > 1.0 {
            continue;
        }
        return v;
    }
}

/// seeded in-gamut colour of `space`: a linear-sRGB point in [0,1]^3 (the intersection of all
/// offered RGB gamuts, scaled into the space's own white point) mapped into the space by the model.
pub fn gamut_fill(space: Space, rng: &mut Rng) -> V3 {
    let lin = match rng.below(12) {
        0 => [0.0, 0.0, 0.0],
        1 => [1.0, 1.0, 1.0],
        2 => {
            let g = rng.unit();
            [g, g, g]
        }
        3 => [*rng.pick(&[0.0, 1.0]), *rng.pick(&[0.0, 1.0]), *rng.pick(&[0.0, 1.0])],
        4 => [rng.unit(), rng.unit(), 0.0],
        5 => [rng.unit() * 0.02, rng.unit() * 0.02, rng.unit() * 0.02],
        _ => [rng.unit(), rng.unit(), rng.unit()],
    };
    from_lin_srgb_like(space, lin)
}

/// Map a "linear sRGB-primaries" triple to the space: the triple is interpreted in an RGB space
/// with sRGB primaries and the *space's own* white point, so that (1,1,1) is that white.
pub fn from_lin_srgb_like(space: Space, lin: V3) -> V3 {
    use crate::refmodel::space::{mat_vec, Prim, RgbSpaceM};
    let m = RgbSpaceM { prim: Prim::Srgb, wp: space.wp() }.rgb_to_xyz();
    // shrink slightly so that rounding cannot push the point outside narrower gamuts
    let xyz = mat_vec(&m, lin);
    space.from_xyz(xyz)
}
