//! Float bit helpers: ulps, neighbours, hostile values.

pub fn next_up32(x: f32) -> f32 {
    if x.is_nan() || x == f32::INFINITY {
        return x;
    }
    if x == 0.0 {
        return f32::from_bits(1);
    }
    let b = x.to_bits();
    if x > 0.0 {
        f32::from_bits(b + 1)
    } else {
        f32::from_bits(b - 1)
    }
}
pub fn next_down32(x: f32) -> f32 {
    -next_up32(-x)
}
pub fn next_up64(x: f64) -> f64 {
    if x.is_nan() || x == f64::INFINITY {
        return x;
    }
    if x == 0.0 {
        return f64::from_bits(1);
    }
    let b = x.to_bits();
    if x > 0.0 {
        f64::from_bits(b + 1)
    } else {
        f64::from_bits(b - 1)
    }
}
pub fn next_down64(x: f64) -> f64 {
    -next_up64(-x)
}
pub fn step32(mut x: f32, k: i32) -> f32 {
    for _ in 0..k.abs() {
        x = if k > 0 { next_up32(x) } else { next_down32(x) };
    }
    x
}
pub fn step64(mut x: f64, k: i32) -> f64 {
    for _ in 0..k.abs() {
        x = if k > 0 { next_up64(x) } else { next_down64(x) };
    }
    x
}
pub fn ulp32(x: f32) -> f64 {
    let a = x.abs();
    if !a.is_finite() {
        return f64::NAN;
    }
    (next_up32(a) as f64) - (a as f64)
}
pub fn ulp64(x: f64) -> f64 {
    let a = x.abs();
    if !a.is_finite() {
        return f64::NAN;
    }
    next_up64(a) - a
}

pub fn hostile_f32() -> Vec<f32> {
    let mut v = vec![
        0.0,
        -0.0,
        f32::NAN,
        -f32::NAN,
        f32::from_bits(0x7fa00000),
        f32::from_bits(0xffc00001),
        f32::from_bits(0x7f800001),
        f32::INFINITY,
        f32::NEG_INFINITY,
        f32::MIN_POSITIVE,
        -f32::MIN_POSITIVE,
        f32::from_bits(1),
        -f32::from_bits(1),
        f32::from_bits(0x007fffff),
        f32::MAX,
        f32::MIN,
        1.0,
        -1.0,
        0.5,
        2.0,
        8388608.0,
        16777216.0,
        -8388608.0,
        -16777216.0,
        1e10,
        -1e10,
        1e20,
        -1e20,
        1e30,
        -1e30,
        4294967296.0,
        -4294967296.0,
        255.0,
        256.0,
        65535.0,
        0.003_130_8,
        0.040_45,
    ];
    for x in [1.0f32, 0.5, 0.25, 0.0031308, 0.04045, 0.018, 0.081, 1.0 / 512.0, 1.0 / 32.0] {
        for k in -3..=3 {
            v.push(step32(x, k));
            v.push(-step32(x, k));
        }
    }
    v
}

pub fn hostile_f64() -> Vec<f64> {
    let mut v = vec![
        0.0,
        -0.0,
        f64::NAN,
        -f64::NAN,
        f64::from_bits(0x7ff4000000000000),
        f64::from_bits(0xfff8000000000001),
        f64::INFINITY,
        f64::NEG_INFINITY,
        f64::MIN_POSITIVE,
        -f64::MIN_POSITIVE,
        f64::from_bits(1),
        -f64::from_bits(1),
        f64::MAX,
        f64::MIN,
        1.0,
        -1.0,
        0.5,
        2.0,
        8388608.0,
        16777216.0,
        4503599627370496.0,
        9007199254740992.0,
        -4503599627370496.0,
        -9007199254740992.0,
        1e10,
        -1e10,
        1e18,
        -1e18,
        1e19,
        1e20,
        -1e20,
        1e38,
        1e39,
        -1e39,
        1e300,
        -1e300,
        4294967296.0,
        -4294967296.0,
        18446744073709551616.0,
        f32::MAX as f64,
        f32::MIN_POSITIVE as f64,
        (f32::MIN_POSITIVE as f64) / 3.0,
    ];
    for x in [1.0f64, 0.5, 0.25, 0.0031308, 0.04045, 0.018, 0.081, 1.0 / 512.0, 1.0 / 32.0] {
        for k in -3..=3 {
            v.push(step64(x, k));
            v.push(-step64(x, k));
        }
    }
    // values that round across f32 boundaries
    for x in [1.0f32, 0.5, 0.0031308, 0.04045, f32::from_bits(0x3f7fffff), f32::from_bits(0x39000000)] {
        let a = x as f64;
        let b = next_up32(x) as f64;
        v.push((a + b) / 2.0);
        v.push(next_up64((a + b) / 2.0));
        v.push(next_down64((a + b) / 2.0));
    }
    v
}
