//! pvmon — shared machinery of the runtime monitors for Ogeon/palette.
//!
//! Each property has one binary `src/bin/cNN.rs`. A binary runs the real palette API on a
//! generated workload, and deterministic oracles accept or reject every observed event.
//! The result (per-monitor counters, distinct cells, samples, violations with witnesses)
//! is written as one JSON file which the python driver `/verif/check` merges into the
//! evidence file and the verdict.

pub mod rng;
pub mod report;
pub mod fbits;
pub mod refmodel;
pub mod types;
pub mod conv_table;
pub mod gen;
pub mod judge;

pub use report::{Ctx, Monitor, Report, Violation};
pub use rng::Rng;
pub use serde_json::{json, Value};
