//! Monitors, violations, witnesses and the result file a monitor binary writes.

use crate::rng::{hash_str, mix, Rng};
use serde_json::{json, Map, Value};
use std::collections::{BTreeMap, HashSet};

#[derive(Clone, Debug, PartialEq, Eq)]
pub enum Tier {
    Quick,
    Thorough,
}

/// Replay request: run only `monitor` on instantiation `inst` with the recorded input.
#[derive(Clone, Debug)]
pub struct Replay {
    pub monitor: String,
    pub inst: String,
    pub input: Value,
}

#[derive(Clone, Debug)]
pub struct Ctx {
    pub property: String,
    pub tier: Tier,
    pub seed: u64,
    pub out: Option<String>,
    /// "native", "native-rel", "miri", "asan"
    pub mode: String,
    pub shard: u64,
    pub nshards: u64,
    pub threads: usize,
    pub replay: Option<Replay>,
    pub only: Option<String>,
}

impl Ctx {
    pub fn from_args(property: &str) -> Ctx {
        let args: Vec<String> = std::env::args().collect();
        let mut c = Ctx {
            property: property.to_string(),
            tier: Tier::Quick,
            seed: 0,
            out: None,
            mode: "native".into(),
            shard: 0,
            nshards: 1,
            threads: 16,
            replay: None,
            only: None,
        };
        let mut i = 1;
        while i < args.len() {
            match args[i].as_str() {
                "quick" => c.tier = Tier::Quick,
                "thorough" => c.tier = Tier::Thorough,
                "--seed" => {
                    i += 1;
                    c.seed = args[i].parse().expect("seed");
                }
                "--out" => {
                    i += 1;
                    c.out = Some(args[i].clone());
                }
                "--mode" => {
                    i += 1;
                    c.mode = args[i].clone();
                }
                "--threads" => {
                    i += 1;
                    c.threads = args[i].parse().expect("threads");
                }
                "--only" => {
                    i += 1;
                    c.only = Some(args[i].clone());
                }
                "--shard" => {
                    i += 1;
                    let (a, b) = args[i].split_once('/').expect("shard i/n");
                    c.shard = a.parse().unwrap();
                    c.nshards = b.parse().unwrap();
                }
                "--replay" => {
                    i += 1;
                    let txt = std::fs::read_to_string(&args[i]).expect("read witness");
                    let w: Value = serde_json::from_str(&txt).expect("parse witness");
                    c.replay = Some(Replay {
                        monitor: w["monitor"].as_str().unwrap_or("").to_string(),
                        inst: w["inst"].as_str().unwrap_or("").to_string(),
                        input: w["input"].clone(),
                    });
                    if let Some(m) = w["mode"].as_str() {
                        c.mode = m.to_string();
                    }
                }
                "--buildonly" => std::process::exit(0),
                other => panic!("unknown argument {other}"),
            }
            i += 1;
        }
        c
    }
    pub fn quick(&self) -> bool {
        self.tier == Tier::Quick
    }
    pub fn is_miri(&self) -> bool {
        self.mode.starts_with("miri")
    }
    /// pick a count by tier (and a much smaller one for Miri)
    pub fn n(&self, quick: u64, thorough: u64) -> u64 {
        if self.tier == Tier::Quick {
            quick
        } else {
            thorough
        }
    }
    pub fn rng(&self, name: &str, shard: u64) -> Rng {
        Rng::derive(self.seed ^ hash_str(&self.property), name, shard.wrapping_add(self.shard * 1000))
    }
    /// Is monitor `name` enabled (replay / --only filter)?
    pub fn enabled(&self, name: &str) -> bool {
        if let Some(r) = &self.replay {
            return r.monitor == name;
        }
        if let Some(o) = &self.only {
            return o.split(',').any(|x| x == name);
        }
        true
    }
    /// In replay mode: the recorded input if (monitor, inst) match.
    pub fn replay_input(&self, monitor: &str, inst: &str) -> Option<Value> {
        match &self.replay {
            Some(r) if r.monitor == monitor && r.inst == inst => Some(r.input.clone()),
            _ => None,
        }
    }
    pub fn replaying(&self) -> bool {
        self.replay.is_some()
    }
}

#[derive(Clone, Debug)]
pub struct Violation {
    pub monitor: String,
    pub inst: String,
    pub class: String,
    pub input: Value,
    pub observed: Value,
    pub expected: Value,
    pub note: String,
    pub count: u64,
}

const DISTINCT_CAP: usize = 1 << 21;
const SAMPLE_CAP: usize = 4;

/// One online monitor: counts oracle decisions, distinct non-trivial cells, keeps samples and
/// the violations (first witness per (inst, class) signature).
#[derive(Clone, Debug)]
pub struct Monitor {
    pub name: String,
    pub evaluations: u64,
    pub distinct: HashSet<u64>,
    pub distinct_saturated: bool,
    pub min_events: u64,
    pub tolerance: Option<String>,
    pub max_dev: f64,
    pub argmax: Option<Value>,
    pub samples: Vec<Value>,
    pub violations: BTreeMap<String, Violation>,
    pub counters: BTreeMap<String, u64>,
    pub exhaustive: Option<String>,
    pub rule: String,
    pub sample_every: u64,
}

impl Monitor {
    pub fn new(name: &str, rule: &str) -> Monitor {
        Monitor {
            name: name.to_string(),
            evaluations: 0,
            distinct: HashSet::new(),
            distinct_saturated: false,
            min_events: 1,
            tolerance: None,
            max_dev: 0.0,
            argmax: None,
            samples: Vec::new(),
            violations: BTreeMap::new(),
            counters: BTreeMap::new(),
            exhaustive: None,
            rule: rule.to_string(),
            sample_every: 0,
        }
    }
    pub fn like(&self) -> Monitor {
        let mut m = Monitor::new(&self.name, &self.rule);
        m.min_events = self.min_events;
        m.tolerance = self.tolerance.clone();
        m
    }
    #[inline]
    pub fn eval(&mut self) {
        self.evaluations += 1;
    }
    #[inline]
    pub fn evals(&mut self, n: u64) {
        self.evaluations += n;
    }
    #[inline]
    pub fn cell(&mut self, h: u64) {
        if self.distinct.len() < DISTINCT_CAP {
            self.distinct.insert(h);
        } else {
            self.distinct_saturated = true;
        }
    }
    pub fn cell_s(&mut self, s: &str) {
        self.cell(hash_str(s));
    }
    pub fn cell2(&mut self, a: u64, b: u64) {
        self.cell(mix(a, b));
    }
    pub fn count(&mut self, key: &str) {
        *self.counters.entry(key.to_string()).or_insert(0) += 1;
    }
    pub fn count_n(&mut self, key: &str, n: u64) {
        *self.counters.entry(key.to_string()).or_insert(0) += n;
    }
    pub fn counter_max(&mut self, key: &str, v: u64) {
        let e = self.counters.entry(key.to_string()).or_insert(0);
        if v > *e {
            *e = v;
        }
    }
    pub fn sample(&mut self, f: impl FnOnce() -> Value) {
        if self.samples.len() < SAMPLE_CAP {
            // a sample only illustrates the evidence: if producing it panics inside the library (a changed tree), the
            // monitors' own verdicts must still be reported
            match std::panic::catch_unwind(std::panic::AssertUnwindSafe(f)) {
                Ok(v) => self.samples.push(v),
                Err(_) => self.samples.push(serde_json::json!({"sample_unavailable": "the library panicked while the illustrative sample was produced"})),
            }
        }
    }
    /// record a deviation (for max deviation / argmax reporting)
    #[inline]
    pub fn dev(&mut self, d: f64, arg: impl FnOnce() -> Value) {
        if d > self.max_dev || (d.is_nan() && !self.max_dev.is_nan()) {
            self.max_dev = d;
            self.argmax = Some(arg());
        }
    }
    pub fn violate(
        &mut self,
        inst: &str,
        class: &str,
        input: Value,
        observed: Value,
        expected: Value,
        note: &str,
    ) {
        let sig = format!("{}|{}", inst, class);
        if let Some(v) = self.violations.get_mut(&sig) {
            v.count += 1;
            return;
        }
        if self.violations.len() >= 400 {
            // keep the file bounded; count the overflow on a catch-all entry
            // (the class is kept, so that the overflow of a recorded finding is still recognised as that finding and
            // the overflow of anything else is still reported as a violation of its own class; the first overflowing
            // event of each class keeps its input as the witness)
            let e = self.violations.entry(format!("__overflow__|{}", class)).or_insert(Violation {
                monitor: self.name.clone(),
                inst: format!("__overflow__ (first: {})", inst),
                class: class.to_string(),
                input,
                observed,
                expected,
                note: "more than 400 distinct violation signatures in this monitor; further instantiations of this class are counted here".into(),
                count: 0,
            });
            e.count += 1;
            return;
        }
        self.violations.insert(
            sig,
            Violation {
                monitor: self.name.clone(),
                inst: inst.to_string(),
                class: class.to_string(),
                input,
                observed,
                expected,
                note: note.to_string(),
                count: 1,
            },
        );
    }
    pub fn merge(&mut self, o: Monitor) {
        self.evaluations += o.evaluations;
        for h in o.distinct {
            self.cell(h);
        }
        self.distinct_saturated |= o.distinct_saturated;
        if o.max_dev > self.max_dev || (o.max_dev.is_nan() && !self.max_dev.is_nan()) {
            self.max_dev = o.max_dev;
            self.argmax = o.argmax;
        }
        for s in o.samples {
            if self.samples.len() < SAMPLE_CAP {
                self.samples.push(s);
            }
        }
        for (k, v) in o.violations {
            match self.violations.get_mut(&k) {
                Some(e) => e.count += v.count,
                None => {
                    self.violations.insert(k, v);
                }
            }
        }
        for (k, v) in o.counters {
            if k.starts_with("max:") {
                let e = self.counters.entry(k).or_insert(0);
                if v > *e {
                    *e = v;
                }
            } else {
                *self.counters.entry(k).or_insert(0) += v;
            }
        }
        if self.tolerance.is_none() {
            self.tolerance = o.tolerance;
        }
        if self.exhaustive.is_none() {
            self.exhaustive = o.exhaustive;
        }
    }
    pub fn to_json(&self) -> Value {
        let mut m = Map::new();
        m.insert("name".into(), json!(self.name));
        m.insert("evaluations".into(), json!(self.evaluations));
        m.insert("distinct_nontrivial".into(), json!(self.distinct.len()));
        m.insert("distinct_saturated".into(), json!(self.distinct_saturated));
        m.insert("min_events".into(), json!(self.min_events));
        m.insert("rule".into(), json!(self.rule));
        if let Some(t) = &self.tolerance {
            m.insert("tolerance".into(), json!(t));
        }
        m.insert("max_deviation_observed".into(), fjson(self.max_dev));
        if let Some(a) = &self.argmax {
            m.insert("argmax".into(), a.clone());
        }
        if let Some(e) = &self.exhaustive {
            m.insert("exhaustive".into(), json!(e));
        }
        m.insert("samples".into(), Value::Array(self.samples.clone()));
        m.insert("counters".into(), json!(self.counters));
        Value::Object(m)
    }
}

/// f64 → JSON number, or a string for non-finite values.
pub fn fjson(x: f64) -> Value {
    if x.is_finite() {
        json!(x)
    } else {
        json!(format!("{}", x))
    }
}

pub fn fvec(xs: &[f64]) -> Value {
    Value::Array(xs.iter().map(|x| fjson(*x)).collect())
}

/// Hex bit patterns of f64 values (exact replay).
pub fn bits64(xs: &[f64]) -> Value {
    Value::Array(xs.iter().map(|x| json!(format!("{:#018x}", x.to_bits()))).collect())
}

pub fn parse_bits64(v: &Value) -> Vec<f64> {
    v.as_array()
        .map(|a| {
            a.iter()
                .map(|x| {
                    let s = x.as_str().unwrap_or("0x0");
                    f64::from_bits(u64::from_str_radix(s.trim_start_matches("0x"), 16).unwrap_or(0))
                })
                .collect()
        })
        .unwrap_or_default()
}

pub struct Report {
    pub ctx: Ctx,
    pub monitors: Vec<Monitor>,
    pub notes: Vec<String>,
    start: std::time::Instant,
}

impl Report {
    pub fn new(ctx: &Ctx) -> Report {
        Report { ctx: ctx.clone(), monitors: Vec::new(), notes: Vec::new(), start: std::time::Instant::now() }
    }
    pub fn add(&mut self, m: Monitor) {
        if let Some(e) = self.monitors.iter_mut().find(|e| e.name == m.name) {
            e.merge(m);
        } else {
            self.monitors.push(m);
        }
    }
    pub fn note(&mut self, s: &str) {
        self.notes.push(s.to_string());
    }
    pub fn finish(self) -> ! {
        let mut viols = Vec::new();
        for m in &self.monitors {
            for v in m.violations.values() {
                viols.push(json!({
                    "property": self.ctx.property,
                    "monitor": v.monitor,
                    "inst": v.inst,
                    "class": v.class,
                    "input": v.input,
                    "observed": v.observed,
                    "expected": v.expected,
                    "note": v.note,
                    "count": v.count,
                    "seed": self.ctx.seed,
                    "tier": if self.ctx.quick() {"quick"} else {"thorough"},
                    "mode": self.ctx.mode,
                }));
            }
        }
        let out = json!({
            "property": self.ctx.property,
            "mode": self.ctx.mode,
            "shard": self.ctx.shard,
            "seed": self.ctx.seed,
            "tier": if self.ctx.quick() {"quick"} else {"thorough"},
            "replay": self.ctx.replaying(),
            "monitors": self.monitors.iter().map(|m| m.to_json()).collect::<Vec<_>>(),
            "violations": viols,
            "notes": self.notes,
            "wall_s": self.start.elapsed().as_secs_f64(),
        });
        let txt = serde_json::to_string_pretty(&out).unwrap();
        match &self.ctx.out {
            Some(p) => std::fs::write(p, txt).expect("write result"),
            None => println!("{}", txt),
        }
        if self.ctx.replaying() {
            for v in out["violations"].as_array().unwrap() {
                println!(
                    "REPLAY-VIOLATION monitor={} inst={} class={} input={} observed={} expected={} note={}",
                    v["monitor"], v["inst"], v["class"], v["input"], v["observed"], v["expected"], v["note"]
                );
            }
            if out["violations"].as_array().unwrap().is_empty() {
                println!("REPLAY-OK (the recorded case is accepted by the oracle on this tree)");
            }
        }
        // exit code 0 always: the driver decides the verdict from the file. A crash (abort,
        // sanitizer report, Miri error) is what produces a non-zero status.
        std::process::exit(0)
    }
}

/// Run `f(shard)` on `n` threads and merge the monitors they return (by name).
pub fn par<F>(n: usize, f: F) -> Vec<Monitor>
where
    F: Fn(usize) -> Vec<Monitor> + Sync,
{
    let mut all: Vec<Monitor> = Vec::new();
    let results: Vec<Vec<Monitor>> = std::thread::scope(|s| {
        let hs: Vec<_> = (0..n)
            .map(|i| {
                let f = &f;
                s.spawn(move || f(i))
            })
            .collect();
        hs.into_iter().map(|h| h.join().expect("monitor thread panicked")).collect()
    });
    for ms in results {
        for m in ms {
            if let Some(e) = all.iter_mut().find(|e| e.name == m.name) {
                e.merge(m);
            } else {
                all.push(m);
            }
        }
    }
    all
}

/// Silence the default panic hook (monitors that use catch_unwind install this).
pub fn quiet_panics() {
    // PVMON_LOUD_PANICS=1 keeps the default hook (to see where an unexpected panic of the harness itself comes from)
    if std::env::var_os("PVMON_LOUD_PANICS").is_some() {
        return;
    }
    std::panic::set_hook(Box::new(|_| {}));
}
