#!/bin/sh
# setup_cmd: build every monitor binary, offline, from files on disk only.
set -e
cd "$(dirname "$0")"
export CARGO_NET_OFFLINE=true
mkdir -p .build/runs evidence replays
cp -n /repo/Cargo.lock harness/Cargo.lock 2>/dev/null || true
python3 tools/gen_manifest.py >/dev/null
VERIF_TIER=quick ./check build
