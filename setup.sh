#!/bin/sh
# setup_cmd: build every monitor binary, offline, from files on disk only.
set -e
cd "$(dirname "$0")"
export CARGO_NET_OFFLINE=true
mkdir -p .build/runs evidence replays
cp -n /repo/Cargo.lock harness/Cargo.lock 2>/dev/null || true
python3 tools/gen_manifest.py >/dev/null
VERIF_TIER=quick ./check build
# reference-model self-check against published values (Sharma's CIEDE2000 pairs, CAM16 worked example, HSLuv, Oklab)
(cd harness && RUSTFLAGS="--cfg palette_verif" CARGO_TARGET_DIR="$(pwd)/../.build/native" cargo test --offline --lib -q >/dev/null 2>&1) || { echo "reference model self-test failed"; exit 1; }
