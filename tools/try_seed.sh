#!/bin/bash
# try_seed.sh <patch.diff> <ID> [<ID>...] : apply a seeded change to /repo, run the quick checks, undo.
P=$1; shift
cd /repo || exit 1
if ! git apply --check "$P" 2>/dev/null; then echo "PATCH-DOES-NOT-APPLY $P"; git apply -3 "$P" 2>&1 | tail -2; fi
git apply "$P" 2>/dev/null || git apply -3 "$P" 2>/dev/null || { echo "cannot apply"; git checkout -- .; exit 1; }
for id in "$@"; do
  out=$(cd /verif && VERIF_SEED=${VERIF_SEED:-0} ./check $id ${TIER:-quick} 2>&1)
  rc=$?
  nv=$(echo "$out" | grep -c "^VIOLATION")
  echo "== $id rc=$rc violations=$nv $(echo "$out" | grep -m2 "monitor=" | tr '\n' ' ' | cut -c1-260) $(echo "$out" | grep -m1 "INCONCLUSIVE" | cut -c1-200)"
done
cd /repo && git checkout -- . && git status --short | head -3
rm -rf /verif/replays/C*/ 2>/dev/null
