#!/bin/bash
# confirm_seed.sh <worktree> <k> <prop>  : re-verifies a sub-agent's seeded defect in its scratch worktree and
# files it under /verif/seeded/<prop>_<k>/ with my own confirmation record.
WT=$1; K=$2; P=$3; FEAT=${4:+--features $4}
OUT=$WT/_out/$K
DEST=/verif/seeded/${P}_${5:-$K}
export CARGO_TARGET_DIR=$WT/target CARGO_NET_OFFLINE=true
cd $WT || exit 1
git checkout -q -- palette palette_derive
cp $OUT/demo.rs palette/tests/seeded_demo_$K.rs 2>/dev/null
# demo without patch
cargo test -p palette $FEAT --test seeded_demo_$K --offline -j 8 > $OUT/confirm_demo_clean.log 2>&1; DC=$?
git apply $OUT/patch.diff || { echo "patch does not apply"; exit 1; }
cargo test -p palette $FEAT --test seeded_demo_$K --offline -j 8 > $OUT/confirm_demo_patched.log 2>&1; DP=$?
# full suite with patch, excluding the demo files
mkdir -p /tmp/demo_stash_$P_$K; mv palette/tests/seeded_demo_*.rs /tmp/demo_stash_$P_$K/ 2>/dev/null
cargo test --workspace --no-fail-fast --offline -j 8 > $OUT/confirm_suite_patched.log 2>&1; SP=$?
mv /tmp/demo_stash_$P_$K/*.rs palette/tests/ 2>/dev/null; rmdir /tmp/demo_stash_$P_$K
PASSED=$(grep -E "^test result" $OUT/confirm_suite_patched.log | awk '{p+=$4; f+=$6} END{print p" "f}')
git checkout -q -- palette palette_derive
mkdir -p $DEST
cp $OUT/patch.diff $DEST/patch.diff; cp $OUT/demo.rs $DEST/demo.rs
python3 - "$OUT/meta.json" "$DEST/meta.json" "$DC" "$DP" "$SP" "$PASSED" "$P" <<'PY'
import json,sys
src,dst,dc,dp,sp,passed,prop=sys.argv[1:]
try: m=json.load(open(src))
except Exception as e: m={"summary":"(agent meta unreadable: %s)"%e}
p,f=(passed.split()+["0","0"])[:2]
m["property"]=prop
m["confirmed_by_me"]={"demo_passes_without_patch": dc=="0", "demo_fails_with_patch": dp!="0", "suite_exit_with_patch": int(sp), "suite_tests_passed": int(p), "suite_tests_failed": int(f),
  "ran": ["cargo test -p palette [--features F] --test seeded_demo_K --offline (clean, then patched)", "cargo test --workspace --no-fail-fast --offline (patched, demo files removed)"]}
json.dump(m,open(dst,"w"),indent=1)
print(prop, "demo_clean_ok" if dc=="0" else "DEMO_CLEAN_FAILS", "demo_patched_fails" if dp!="0" else "DEMO_PATCHED_PASSES", "suite", p, f)
PY
