"""Texts of the manifest claims per property (kept apart from the run plans)."""

HOOK_COMMITS = ["31a602c"]

_PENDING = "monitor not built yet in this round (planned in DESIGN.md section 3); not claimed until its check exists and is silent on the unchanged tree"
NOT_APPLICABLE = {f"C{i:02d}": _PENDING for i in range(1, 21)}

TRUST = "Trusted: rustc/std float semantics, the harness' own oracle code, the python driver. Held = held on the executions observed (exhaustive only for the sub-domains named in evidence)."

CLAIMS = {
    "C08": {
        "text": "Formula + identity monitor: for every Premultiply type (LinSrgb, Srgb, Xyz, LinLuma, Lms with blend modes; Yxy, Lab, Luv, Oklab, Cam16UcsJab compose-only) x f32/f64 x {opaque, Alpha, PreAlpha}, the eleven separable modes are compared with the W3C general formula and B functions and the six Porter-Duff operators with their premultiplied formulas on inputs drawn from the level grid {0, 1/4, 1/2, 3/4, 1}, +-ulp straddle points of every branch (2s = 1, 4d = 1, s = 1, d = 0), MIN_POSITIVE-scale and seeded values, with alphas {0, MIN_POSITIVE, 1e-9, 1/2, 1, seeded} (6000 cases per type quick, 600000 thorough); results and alphas must lie in [0,1] and be finite, the opaque form must equal the plain blend function, commutative modes and xor/plus must be symmetric, transparent-over-b == b and opaque-over-x == source must hold bit for bit, premultiply/unpremultiply must round-trip (zero colour at alpha 0), and BlendWith is driven with a closure and with Equations. The same driver runs under Miri and ASan because the blend loops go through cast::into_array(_mut).",
        "design_ref": "DESIGN.md section 3, C08",
        "note": TRUST + " A PreAlpha operand carries only colour*alpha: its blend-function argument is colour/alpha rounded to the component type, as the premultiplied W3C formula prescribes.",
        "technique": "runtime monitoring: differential check against the W3C formulas in f64 + algebraic identities between real calls; Miri + AddressSanitizer on the casting loops",
    },
    "C10": {
        "text": "Variant-agreement and algebra monitor over real calls, 19 colour types x f32/f64: Mix/MixAssign (ends at factor 0/1, factors outside [0,1] bit-identical to the nearest end, component-wise between the inputs and equal to the lerp, hue on the shorter arc by the factor's fraction); Lighten/Darken and Saturate/Desaturate in relative and fixed form (value equals the documented formula, in range, other components bit-identical, factor 1 reaches the limit, monotone over a 33-step ladder, darken(x) == lighten(-x)); ShiftHue/WithHue/SetHue/GetHue and the five colour-scheme helpers as documented hue shifts; Add/Sub/Mul/Div with colours and scalars against plain arithmetic in the same float type. For every operator the assigning form, the slice form (lengths 0, 1, 7) and the Alpha-wrapped form are compared bit for bit with the by-value form on the bare colour. The clamp variants are covered by the C03 monitor (by-value vs assigning vs contract).",
        "design_ref": "DESIGN.md section 3, C10",
        "note": TRUST + " Inputs are seeded in-range colours with raw hues in [-720, 720] and factor sets {-2,-1,-0.5,-0,0,1e-9,0.25,1/3,0.5,1-1e-9,1,1+1e-9,2} plus seeded factors.",
        "technique": "runtime monitoring: metamorphic variant-agreement relations (bit-exact) between real operator calls + a small model of the documented semantics",
    },
    "C09": {
        "text": "Reference-formula monitor: CIEDE2000 of Lab and Lch (f32/f64, both trait generations) is compared with an independent implementation of the Sharma/Wu/Dalal formulation (self-tested on their 34 pairs) on 60000 (thorough 6e6) pairs from structured families - hues straddling 0/360 with h1'+h2' on both sides of 360, |dh'| on both sides of 180 (the excluded band at exactly 180 is skipped and counted), zero chromas, C-bar near 25, L-bar near 50, mean hue near 275, nearly identical saturated colours - plus seeded pairs, to 1e-9 in f64; symmetry, identity, non-negativity, finiteness and polar == rectangular are checked on the same pairs. Delta E, improved Delta E, HyAB and Euclidean distance of Lab, Lch, Luv, Oklab, Xyz, Rgb, Cam16UcsJab and Cam16UcsJmh are compared with their closed forms, and the WCAG contrast of Srgb/LinSrgb/Luma with (L1+0.05)/(L2+0.05), its range, its symmetry (bit-exact) and the five threshold predicates on pairs aimed at the thresholds.",
        "design_ref": "DESIGN.md section 3, C09",
        "note": TRUST + " f32 CIEDE2000 is judged at 2e-3 + 2e-4 dE (cancellation in single precision).",
        "technique": "runtime monitoring: differential check of the real difference functions against independent reference formulas + metric-law relations between calls",
    },
    "C03": {
        "text": "Contract monitor over real calls: for each of 114 listed type instantiations the full cross product of {far below, 1 ulp below, on, inside, on, 1 ulp above, far above} per component (so every mixed below/above sign pattern, which the diagonal unit tests never reach) plus 20000 (thorough 2e6) seeded points in [lo-3W, hi+4W] is clamped; each event checks that the result reports itself within bounds, that in-bounds colours are returned bit-identically, idempotence, equality of the by-value and assigning forms, that every clamped component equals the documented accessor bound, that the hue is untouched and that is_within_bounds agrees with the documented bounds. For each of the 1836 listed conversion pairs from_color is compared bit for bit with from_color_unclamped followed by clamp, and try_from_color must be Ok exactly when the unclamped result is within bounds and carry that value in Ok or in the error.",
        "design_ref": "DESIGN.md section 3, C03",
        "note": TRUST + " Okhsv's documented 1e-6 slack between accessor and clamp bound is allowed and reported.",
        "technique": "runtime monitoring: contract relations between real calls (clamp / is_within_bounds / from_color / try_from_color) on a sign-pattern lattice, plus a documented-bounds table",
    },
    "C01": {
        "text": "Relational monitor over real calls: (1) A -> B -> A on every listed ordered pair with B not luma (1500 pairs x f32/f64, 300 seeded in-gamut colours per pair quick, 30000 thorough), (2) direct A -> B against A -> M -> B for every listed pair and every listed intermediate M (about 24000 triples, which enumerates the TypeId shortcuts, shared-primaries paths, direct sRGB<->Oklab matrices and derive-chosen intermediates), (3) Alpha<A> -> Alpha<B>, A -> Alpha<B> and Alpha<A> -> B compared bit for bit with the bare conversion and the input alpha on every pair. (1) and (2) are judged in cartesian comparison space with a bound calibrated by the reference model's local sensitivity.",
        "design_ref": "DESIGN.md section 3, C01",
        "note": TRUST + " Pairs are the explicit list in harness/src/conv_table.rs (54 colour types in five white-point groups).",
        "technique": "runtime monitoring: metamorphic relations between real conversion calls (inverse, path independence, alpha transparency) with model-calibrated tolerance",
    },
    "C02": {
        "text": "Reference-model monitor: each of the 1608 listed conversion pairs (f32 and f64; D65 group with seven RGB standards, hexcone, CIE, Ok* and HSLuv spaces, plus D50/ProPhoto, DCI-P3 and sRGB-primaries-with-white-E/A groups, so non-D65 white points and dynamically derived matrices are exercised) is run on in-range inputs - the in-gamut part of the boundary lattice, +-k-ulp straddle points of every piecewise join of both spaces (Lab/Luv epsilon, transfer-curve knees, hexcone sector ties, HSL l = 1/2, greys) pulled back through the model, and seeded in-gamut fill (400 per pair quick, 40000 thorough) - and compared with an independent f64 model typed from the published definitions. Comparison is in cartesian form with a bound calibrated by the model's own local sensitivity (64 ulp on inputs and intermediate, 2e-6 where published 7-digit constants are crossed).",
        "design_ref": "DESIGN.md section 3, C02",
        "note": TRUST + " The model derives every RGB<->XYZ matrix from primaries and white point, so palette's hard-coded matrices are checked against an independent derivation.",
        "technique": "runtime monitoring: differential check of the real conversions against an independent executable reference model with sensitivity-calibrated tolerance",
    },
    "C07": {
        "text": "Runtime monitor whose oracle is finiteness + catch_unwind: all 1608 listed conversion pairs (54 colour types x f32/f64 in five white-point groups: D65 incl. AdobeRgb/Rec709/Rec2020/DisplayP3 and hexcone/Ok*/Luv/Lab families, D50/ProPhoto, DCI-P3, and sRGB primaries with white points E and A) in their unclamped, clamping and checked forms, plus clamp, clamp_assign and is_within_bounds, are executed on the full cross-product boundary lattice of the source space (each component on a bound, a billionth of the range inside it, zero, +-billionth around zero, mid-range; sector-edge hues; w+b<=1 for HWB) and on seeded in-range points (150 per pair quick, 20000 thorough).",
        "design_ref": "DESIGN.md section 3, C07",
        "note": TRUST + " Operators, blends and colour differences are covered for finiteness by the monitors of C08, C09 and C10 (their outputs are checked for NaN/inf too).",
        "technique": "runtime monitoring: boundary-lattice + seeded workload through the real conversions with a finiteness/panic oracle",
    },
    "C12": {
        "text": "Runtime monitors with exact models: (1) every string of length <= 7 (thorough 9) over an 11-symbol adversarial alphabet (hex digits, non-hex letter, signs, '#', space, a 2-byte and a 4-byte character) and every single-symbol substitution/insertion/truncation of all-hex strings of each accepted length is parsed as each of the 10 parsable Rgb/Rgba types and compared with a strict recogniser/evaluator, panics caught; (2) {:x}/{:X} text of Rgb<u8> (thorough: all 2^24; quick: every 3rd) and seeded Rgba/u16/u32 values is compared with the expected zero-padded text and parsed back with and without '#'; (3) packed u32 values (thorough: all 2^32; quick: every 61st) are unpacked/packed in the four channel orders and checked against a big-endian byte-position model, incl. From<u32>/Into<u32>, [u8;4] packing and all 2^16 luma codes in both orders; (4) every named constant is looked up by its lower-case name against the frozen W3C table and ~25 000 near-miss and random non-names must not be found.",
        "design_ref": "DESIGN.md section 3, C12",
        "note": TRUST + " The name table is a frozen copy of codegen/res/svg_colors.txt of the pinned tree.",
        "technique": "runtime monitoring: exhaustive enumeration of short strings / packed integers through the real parsers and packers against a strict grammar model and a byte-position model",
    },
    "C13": {
        "text": "Shadow-buffer monitor + sanitizers: typed programs over layout-compatible colour types (all 266 ordered pairs of 17 three-float types that convert into each other, plus 16 chains with two or three further steps) run from_color_mut / from_color_unclamped_mut on slices of every length 0..=9 with writes through the guard, guard-kind switches, then_into_color(_unclamped)_mut steps and an end by drop, restore() or mem::forget; single values, Vec (with spare capacity, chained back) and Box<[T]> forms are run as well. After every step the real buffer is compared bit for bit with a shadow converted out of place, and address, length and capacity are compared before/after. cast::map_vec_in_place and map_slice_box_in_place are driven with a heap-owning, drop-counting component type and a closure that panics at every element k. The same driver runs under Miri (stacked borrows; thorough also tree borrows) and ASan; the native run has std ub_checks on.",
        "design_ref": "DESIGN.md section 3, C13",
        "note": TRUST + " Programs are sampled (seeded), lengths <= 9, chain depth <= 4.",
        "technique": "runtime monitoring: online comparison of in-place programs with an out-of-place shadow model, drop-count monitor with injected panics, Miri + AddressSanitizer",
    },
    "C18": {
        "text": "History monitor against a sequential executable model: seeded short histories (<= 24 ops; 3000 per type quick, 400000 thorough; 20 Vec-backed struct-of-arrays types covering plain, hue-first, hue-last, single-component and Alpha-wrapped macro arms) of push, pop, extend, collect, clear, drain over every range form (inverted and out-of-range included; fully, partially front/back, or not consumed), indexed and ranged get, get_mut+set, iter_mut+set, forward/backward/interleaved iteration with ExactSizeIterator lengths, owned into_iter, boxed-slice, slice-view and array containers are applied to the real collection and to Vec<Color>; every returned value and, after every operation, all component lengths and contents are compared; panics of drain must coincide. Colours carry unique ids so histories are unambiguous. Subsets run under Miri and ASan (drain and partially consumed iterators), and palette's own debug assertions on component iterator lengths are live.",
        "design_ref": "DESIGN.md section 3, C18",
        "note": TRUST + " A leaked (mem::forget) drain is excluded: std leaves the resulting contents unspecified.",
        "technique": "runtime monitoring: recorded operation histories checked online against a sequential Vec<Color> model (differential, full-state comparison after every op); Miri + ASan on subsets",
    },
    "C14": {
        "text": "Runtime monitors with an independent model: (1) white (1,1,1), all 256 8-bit grey levels and seeded greys of every RGB standard of the conversion table (sRGB, linear, Adobe, Rec.709/2020, Display P3, DCI-P3, ProPhoto, sRGB primaries with whites E and A; f32/f64) are converted to every colorimetric type of the group: white must land on the white point / L=100 / Oklab (1,0,0), every grey must have zero chroma or saturation and come back with equal components; CAM16 lightness 100 for the adopted white incl. dynamic whites; (2) hard-coded RGB<->XYZ matrices are compared with the matrix derived from primaries and white (Lindbloom) and with each other (mutual inverses), and the public Matrix3 API (matrix_from_rgb, matrix_from_xyz, then, invert, identity, convert) is checked on 15 spaces incl. tuple spaces whose matrices are derived at run time; (3) all 16x16 ordered white-point pairs x {Bradford, VonKries, UnitMatrix} x f32/f64 through AdaptFromUnclamped/AdaptIntoUnclamped and the deprecated AdaptInto: source white -> destination white, bit-exact identity between equal whites, there-and-back, agreement with M^-1 diag M, and adaptation_matrix with dynamic (measured, Y != 1) white points.",
        "design_ref": "DESIGN.md section 3, C14",
        "note": TRUST + " Neutrality of Ok* colours reached through XYZ is limited by the recorded M1 white mismatch (finding C01/C02) and judged under that class.",
        "technique": "runtime monitoring: invariant oracle (neutral in = neutral out, white = white point) plus differential check of matrices and adaptation against an independent derivation",
    },
    "C04": {
        "text": "Runtime monitor + sanitizers over the whole casting layer: for 88 instantiations (every colour struct incl. the CAM16 family, Alpha, PreAlpha, Packed<_, [T;N]>, Packed<_, uN>, Luma as uint; f32/f64/u8/u16/u32 and u64/u128 for uint casts) every free function of palette::cast, every method of the cast traits and the std From/AsRef/AsMut/TryFrom impls is called on buffers of all lengths 0..=3N+2 and Vec capacities of every residue; each event checks same address, exact length/capacity scaling, declared field order through named field access with a distinct sentinel per component (alpha last), bit-exact round trip, acceptance iff length (and capacity) is a multiple, and that a rejected buffer comes back with the same pointer, length, capacity and contents. The same driver runs under Miri (stacked borrows, strict provenance, symbolic alignment; thorough adds tree borrows and all types) and under ASan/LSan, with the cast vectors pushed to, shrunk and dropped so that a wrong capacity becomes a heap/layout error; the native run has std ub_checks on.",
        "design_ref": "DESIGN.md section 3, C04",
        "note": TRUST + " Exhaustive over the stated (type, api, length<=3N+2, capacity residue) grid; other lengths are not run.",
        "technique": "runtime monitoring: pointer/len/capacity and sentinel-field-order assertions at the API boundary, executed natively, under Miri and under AddressSanitizer",
    },
    "C05": {
        "text": "Runtime monitors over the real transfer functions: thorough pushes all 2^32 f32 bit patterns through each of the five integer fast paths (sRGB, Rec OETF, Adobe, P3 gamma -> u8; ProPhoto -> u16; quick: stride-31 sweep plus every pattern within 2^12 of each exponent and table-bucket boundary and the hostile set) and judges each code against max*f(x) of the standard curve (error < 0.6, exact outside the tie band), saturation, monotonicity of the stream, reachability of every code and absence of panics; the cfg hook and std ub_checks make an out-of-range table index an observable event, and Miri + ASan execute the hostile/boundary set. All codes are decoded and re-encoded; the generic float curves are compared with the model, inverted and checked for monotonicity on straddle sets of both knees plus dense and seeded points; Rgb/Luma wiring is checked bit-exactly.",
        "design_ref": "DESIGN.md section 3, C05",
        "note": TRUST + " The 0.1 tie band and the 0.6 bound are the ones the property states; decode tables are allowed 1e-7 (the generated tables use a continuity-adjusted alpha).",
        "technique": "runtime monitoring: exhaustive input sweep with reference-curve oracle + stream monotonicity monitor; Miri/ASan/ub_checks/cfg-hook for the unchecked table read",
    },
    "C06": {
        "text": "Runtime monitor with an exact-integer oracle over the real IntoStimulus/FromStimulus impls: thorough sweeps all 2^32 f32 bit patterns into u8,u16,u32,u64,u128 (quick: stride 509 plus dense windows at every exponent boundary, k/255 grid, ties and the hostile set), judges saturation (<=0, -inf -> 0; >=1, +inf, NaN -> MAX), nearest-integer within one rounding, and monotonicity over ascending patterns; f64 inputs are hostile/structured/seeded; all u8 and u16 sources and a strided+windowed u32 set (u64/u128 seeded+structured) go to every target with 0->0, MAX->1.0|MAX, monotonicity, widen/narrow and int->float->int round trips; into_format wiring on Rgb/Rgba/Luma.",
        "design_ref": "DESIGN.md section 3, C06",
        "note": TRUST + " The oracle shares no code with palette's bit tricks (rational arithmetic on mantissa/exponent).",
        "technique": "runtime monitoring: exhaustive/stratified sweep of the real conversion impls against an exact rational-arithmetic oracle, plus monotonicity stream monitor",
    },
    "C11": {
        "text": "Runtime monitor with an exact oracle: every f32 angle with |x| <= 2^20 (thorough: all 2.47e9 bit patterns x 5 hue types x both normal forms; quick: stride-64 sweep plus all patterns within 2^10 of every multiple of 180) is normalised by the real code and checked against the exact residue modulo 360; equality across whole turns on all integer angles +-100000 x +-100 turns, inequality beyond rounding, cartesian and radian accessors, and the complete u8 circle. Exploration level: exhaustive on the f32 sub-domain in the thorough tier, sampled for f64.",
        "design_ref": "DESIGN.md section 3, C11",
        "note": TRUST + " f32->f64 and f64 fmod are exact, so the residue oracle has no tolerance of its own.",
        "technique": "runtime monitoring: exhaustive/stratified input sweep of the real hue API against an exact fmod oracle",
    },
}
