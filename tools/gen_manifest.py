#!/usr/bin/env python3
"""Regenerates /verif/MANIFEST.json from tools/props.py + tools/claims.py (so it is always valid)."""
import json, os, sys
here = os.path.dirname(os.path.abspath(__file__))
sys.path.insert(0, here)
from props import PROPS
from claims import CLAIMS, NOT_APPLICABLE, HOOK_COMMITS

checks = []
for pid in sorted(PROPS):
    c = CLAIMS[pid]
    checks.append({
        "property_id": pid,
        "quick_cmd": f"./check {pid} quick",
        "thorough_cmd": f"./check {pid} thorough",
        "evidence_file": f"/verif/evidence/{pid}.json",
        "replay_cmd_template": "./check replay {path}",
        "engine": c.get("engine", "pvmon"),
        "level_claimed": {"category": "exploration", "text": c["text"], "design_ref": c["design_ref"]},
        "level_note": c["note"],
        "technique": c["technique"],
    })
engines = [
    {"name": "pvmon", "path": "/verif/harness", "serves_properties": sorted(PROPS), "kind_free_text": "runtime monitors: real palette API driven by generated workloads, observed events judged online by deterministic oracles (independent f64 reference model, exact-integer models, Vec models, algebraic relations); native build with debug assertions + std ub_checks + cfg hook"},
    {"name": "miri", "path": "cargo +nightly miri run", "serves_properties": sorted(p for p in PROPS if any(r["mode"].startswith("miri") for r in PROPS[p]["runs"])), "kind_free_text": "undefined-behaviour interpreter (stacked/tree borrows, provenance, alignment, dealloc layout) on the unsafe-reaching workloads"},
    {"name": "asan", "path": "rustc -Zsanitizer=address", "serves_properties": sorted(p for p in PROPS if any(r["mode"] == "asan" for r in PROPS[p]["runs"])), "kind_free_text": "AddressSanitizer + LeakSanitizer build of the same drivers at higher volume"},
]
man = {
    "version": 1,
    "setup_cmd": "./setup.sh",
    "hooks": {
        "guard": "palette_verif",
        "enable": "RUSTFLAGS=\"--cfg palette_verif\" (set by ./check for every build profile)",
        "baseline_off_cmd": "cd /repo && cargo test --workspace --no-fail-fast --offline",
        "source_commits": HOOK_COMMITS,
        "add_only": True,
    },
    "engines": engines,
    "checks": checks,
    "not_applicable": [{"property_id": k, "reason": v} for k, v in sorted(NOT_APPLICABLE.items()) if k not in PROPS],
    "notes": "Runtime monitoring and sanitizers only. Exit 0 held / 1 VIOLATION / 2 INCONCLUSIVE (never folded). Known findings: /verif/known_findings.json. See DESIGN.md.",
}
with open(os.path.join(os.path.dirname(here), "MANIFEST.json"), "w") as f:
    json.dump(man, f, indent=1)
print("MANIFEST.json written:", len(checks), "checks,", len(man["not_applicable"]), "not_applicable")
