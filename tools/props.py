"""Per-property run plans: which monitor binary runs under which tool, in which tier."""

ASSUME_COMMON = [
    "rustc/std float and integer semantics of the installed toolchains (stable 1.95 native, nightly for Miri/ASan)",
    "the independent f64 reference model in harness/src/refmodel (self-tested against published check values in setup)",
    "the python driver /verif/check (verdict merging) and serde_json",
]


def native(bin_, **kw):
    d = {"mode": "native", "bin": bin_}
    d.update(kw)
    return d


def shards(mode, bin_, n, **kw):
    out = []
    for i in range(n):
        d = {"mode": mode, "bin": bin_, "shard": f"{i}/{n}"}
        d.update(kw)
        out.append(d)
    return out


PROPS = {
    "C20": {
        "runs": [{"mode": "native-dev", "bin": "c20"}],
        "expect_monitors": ["serde_round_trip_and_shape", "serde_helpers"],
        "assumptions": ASSUME_COMMON + ["serde_json 1.x (with float_roundtrip) and ron 0.8.0 print and parse floats exactly", "field names of each colour type typed into the harness from the public documentation"],
    },
    "C19": {
        "runs": [native("c19")],
        "expect_monitors": ["samples_within_requested_range", "samples_uniform_in_volume"],
        "assumptions": ASSUME_COMMON + ["rand 0.8 StdRng / rand_mt Mt64 produce uniform variates and rand's Uniform<f32|f64> honours its range", "chi-square critical value for 31 degrees of freedom at p = 1e-12 (121.9, from scipy) typed into the harness"],
    },
    "C17": {
        "runs": [native("c17")],
        "expect_monitors": ["simd_conversion_lanes_equal_scalar", "simd_masks_packing_and_operators", "f32_agrees_with_f64"],
        "assumptions": ASSUME_COMMON + ["the wide crate (0.7.33) implements its lane-wise arithmetic correctly; its transcendental approximations are allowed the same error budget as the scalar f32/f64 code"],
    },
    "C15": {
        "runs": [native("c15")],
        "expect_monitors": ["cylinder_into_rgb_gamut", "rgb_into_cylinder_bounds_and_back"],
        "assumptions": ASSUME_COMMON + ["port of Ottosson's ok_color.h (harness/src/refmodel/ok.rs) and of HSLuv rev4 as the independent reference; the tolerance for Ok* (1e-2 nonlinear, 1e-3 linear) is 1.5-2 x the gamut overshoot of the published approximation itself"],
    },
    "C16": {
        "runs": [native("c16")],
        "expect_monitors": ["cam16_model_and_round_trips", "cam16_ucs"],
        "assumptions": ASSUME_COMMON + ["CAM16 forward model typed from Li et al. 2017 in harness/src/refmodel/cam16.rs and self-tested on the published worked example; surround interpolation between the dark/dim/average table rows as documented by palette"],
    },
    "C14": {
        "runs": [{"mode": "native-dev", "bin": "c14"}],
        "expect_monitors": ["white_and_neutrals", "rgb_xyz_matrices", "chromatic_adaptation"],
        "assumptions": ASSUME_COMMON + ["white point tristimulus values and primaries typed in harness/src/refmodel/space.rs from the published tables; Bradford and Von Kries cone matrices from Lindbloom"],
    },
    "C08": {
        "runs": [{"mode": "native-dev", "bin": "c08"}] + shards("miri", "c08", 10) + [{"mode": "asan-dev", "bin": "c08"}],
        "expect_monitors": ["blend_modes", "compose", "premultiply"],
        "assumptions": ASSUME_COMMON + ["W3C Compositing and Blending Level 1 formulas typed in harness/src/bin/c08.rs; self is the source, the argument the backdrop"],
    },
    "C10": {
        "runs": [{"mode": "native-dev", "bin": "c10"}],
        "expect_monitors": ["mix", "lighten_darken", "saturate_desaturate", "hue_ops_and_schemes", "component_arithmetic", "clamp_variants"],
        "assumptions": ASSUME_COMMON + ["documented operator semantics typed in harness/src/bin/c10.rs: lerp with clamped factor, shortest hue arc, relative lighten = component + room * factor towards the documented limit, fixed lighten = component + max * amount, colour schemes as fixed hue shifts"],
    },
    "C09": {
        "runs": [native("c09")],
        "expect_monitors": ["ciede2000", "delta_e_hyab_euclid", "wcag_contrast"],
        "assumptions": ASSUME_COMMON + ["CIEDE2000 reference typed from Sharma, Wu, Dalal (2005) and self-tested on their 34 pairs (refdata/sharma_ciede2000.csv)", "improved variants per Huang et al. 2015: 1.26 dE^0.55 (CIELAB), 1.43 dE00^0.7, 1.41 dE'^0.63 (CAM16-UCS)"],
    },
    "C03": {
        "runs": [{"mode": "native-dev", "bin": "c03"}],
        "expect_monitors": ["clamp_contract", "clamping_and_checked_conversion", "integer_component_clamp_contract", "clamp_contract_lms_cam16"],
        "assumptions": ASSUME_COMMON + ["documented bounds typed from the min_*/max_* accessor docs (refmodel::space::Space::clamp_bounds); for HWB only the relations (within bounds, identity, idempotence) are required, how an excess w+b is distributed is unspecified"],
    },
    "C01": {
        "runs": [{"mode": "native-dev", "bin": "c01"}],
        "expect_monitors": ["round_trip", "commutation", "alpha_transparent_to_conversion"],
        "assumptions": ASSUME_COMMON + ["source colours lie inside the intersection of all offered RGB gamuts (model-generated), so every target except luma can represent them"],
    },
    "C02": {
        "runs": [{"mode": "native-dev", "bin": "c02"}],
        "expect_monitors": ["conversion_vs_model"],
        "assumptions": ASSUME_COMMON + ["published definitions as typed in harness/src/refmodel (CIE 15, RGB standards, Smith hexcone, Ottosson's ok_color.h, hsluv.org rev 4); events whose model image has negative linear light in an RGB-based space are outside the definitions and not judged"],
    },
    "C07": {
        "runs": [{"mode": "native-dev", "bin": "c07"}, {"mode": "native-dev", "bin": "c07ops"}],
        "expect_monitors": ["finite_conversions", "finite_clamp", "finite_operators_blends_differences"],
        "assumptions": ASSUME_COMMON + ["documented ranges typed from the min_*/max_* accessors and type docs (refmodel::space::Space::ranges)"],
    },
    "C12": {
        "runs": [native("c12")],
        "expect_monitors": ["strict_parsing", "hex_format_parse_roundtrip", "packed_channel_orders", "named_colors"],
        "assumptions": ASSUME_COMMON + ["/verif/refdata/svg_colors.txt is a faithful copy of the W3C SVG colour keyword table", "the strict grammar is: optional '#', then exactly n ASCII hex digits, n in the set the target type documents"],
    },
    "C13": {
        "runs": [{"mode": "native-dev", "bin": "c13"}, {"mode": "native-dev", "bin": "c13b"}, {"mode": "miri", "bin": "c13b"}]
        + shards("miri", "c13", 16)
        + [dict(r, tiers=["thorough"]) for r in shards("miri-tb", "c13", 16)]
        + [{"mode": "asan-dev", "bin": "c13", "leaks": False}],
        "expect_monitors": ["inplace_programs", "map_in_place_drops", "guard_chains_inferred_types"],
        "assumptions": ASSUME_COMMON + ["the ordinary out-of-place conversions are the reference (shadow buffer)", "Miri runs with -Zmiri-deterministic-floats so that in-place and out-of-place results are comparable bit for bit", "leak detection is off for this driver: mem::forget of a guard and the panic path of map_*_in_place leak by documented design"],
    },
    "C18": {
        "runs": [{"mode": "native-dev", "bin": "c18"}] + shards("miri", "c18", 16) + [{"mode": "asan-dev", "bin": "c18"}],
        "expect_monitors": ["soa_histories"],
        "assumptions": ASSUME_COMMON + ["std Vec / slice iterators are the reference semantics (sequential model)"],
    },
    "C04": {
        "runs": [{"mode": "native-dev", "bin": "c04"}]
        + shards("miri", "c04", 16)
        + [dict(r, tiers=["thorough"]) for r in shards("miri-tb", "c04", 16)]
        + [{"mode": "asan-dev", "bin": "c04"}],
        "expect_monitors": ["casts"],
        "assumptions": ASSUME_COMMON + ["declared field orders typed by hand from the type documentation (harness/src/bin/c04.rs)", "Vec::with_capacity returns the requested capacity (actual capacity is read back and used)"],
    },
    "C05": {
        "runs": [native("c05")] + shards("miri", "c05", 8) + [{"mode": "asan", "bin": "c05"}],
        "expect_monitors": ["lut_encode_f32_sweep", "lut_decode_codes", "lut_encode_f64", "float_curves", "rgb_luma_wiring", "lut_memory_safety"],
        "assumptions": ASSUME_COMMON + ["standard curves typed from IEC 61966-2-1, BT.709/2020, Adobe RGB (1998), SMPTE RP 431-2, ROMM RGB"],
    },
    "C06": {
        "runs": [native("c06")],
        "expect_monitors": ["f32_to_uint_sweep", "f64_to_uint", "uint_source_u8", "uint_source_u16", "uint_source_u32", "uint_source_u64", "uint_source_u128", "format_wiring"],
        "assumptions": ASSUME_COMMON + ["exact oracle: u128 / two-limb 256-bit integer arithmetic on the decomposed float"],
    },
    "C11": {
        "runs": [native("c11")],
        "expect_monitors": ["normal_form_signed_f32", "normal_form_unsigned_f32", "normal_form_f64", "equality_turns", "cartesian_radians", "u8_hue", "angle_traits"],
        "assumptions": ASSUME_COMMON + ["f32->f64 widening and f64 `%` are exact (IEEE 754), which makes the residue oracle exact"],
    },
}
