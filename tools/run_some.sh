#!/bin/bash
# run_some.sh <tier> <seed> <ID>... : the named checks, one after the other; prints the verdict lines
TIER=$1; SEED=$2; shift 2
cd /verif
for id in "$@"; do
  t0=$(date +%s)
  out=$(VERIF_SEED=$SEED ./check $id $TIER 2>&1); rc=$?
  t1=$(date +%s)
  echo "$id tier=$TIER seed=$SEED rc=$rc secs=$((t1-t0)) known=$(echo "$out" | grep -c '^KNOWN-FINDING') :: $(echo "$out" | grep -E '^(HELD|VIOLATION|INCONCLUSIVE)' | head -3 | tr '\n' ' ' | cut -c1-300)"
done
