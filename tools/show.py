#!/usr/bin/env python3
import json,sys
d=json.load(open(sys.argv[1]))
for m in d['monitors']: print(m['name'],'evals',m['evaluations'],'distinct',m['distinct_nontrivial'],'maxdev',m['max_deviation_observed'],m.get('argmax'),m.get('counters'))
print('violations',len(d['violations']))
for v in d['violations'][:int(sys.argv[2]) if len(sys.argv)>2 else 40]: print(' ',v['monitor'],'|',v['inst'],'|',v['class'],'| n=',v['count'],'| in=',json.dumps(v['input'])[:150],'| obs=',json.dumps(v['observed'])[:150],'| exp=',json.dumps(v['expected'])[:100])
print('wall',d['wall_s'])
