#!/bin/bash
# run_all.sh <tier> <seed> : every registered check, one after the other; prints the verdict lines
TIER=${1:-quick}; SEED=${2:-0}
cd /verif
for id in C01 C02 C03 C04 C05 C06 C07 C08 C09 C10 C11 C12 C13 C14 C15 C16 C17 C18 C19 C20; do
  t0=$(date +%s)
  out=$(VERIF_SEED=$SEED ./check $id $TIER 2>&1); rc=$?
  t1=$(date +%s)
  echo "$id tier=$TIER seed=$SEED rc=$rc secs=$((t1-t0)) known=$(echo "$out" | grep -c '^KNOWN-FINDING') :: $(echo "$out" | grep -E '^(HELD|VIOLATION|INCONCLUSIVE)' | head -3 | tr '\n' ' ' | cut -c1-300)"
done
